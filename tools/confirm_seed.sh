#!/bin/bash
# usage: tools/confirm_seed.sh seeded/<id> <property>
# Confirms a seeded change in a scratch worktree: suite still 60 passed / same 8 failed,
# demo FAILS with the patch and PASSES without it.  Writes seeded/<id>/meta.json.
set -u
D=$(realpath "$1"); PROP="$2"
WT=/tmp/confirm_wt_$$
git -C /repo worktree add -q --detach "$WT" HEAD || exit 2
cd "$WT"
git apply "$D/patch.diff" || { echo "patch does not apply"; git -C /repo worktree remove --force "$WT"; exit 2; }
SUITE=$(PYTHONPATH="$WT" /venv/bin/python -m pytest -q -p no:cacheprovider --timeout=900 --continue-on-collection-errors 2>&1 | tail -1)
FAILED=$(PYTHONPATH="$WT" /venv/bin/python -m pytest -q -p no:cacheprovider --timeout=900 --continue-on-collection-errors 2>&1 | grep '^FAILED' | sed 's/ - .*//' | sort | tr '\n' ' ')
(cd "$D" && PYTHONPATH="$WT" timeout 120 /venv/bin/python -W ignore demo.py > /tmp/demo_patched_$$.txt 2>&1); RC_P=$?
git checkout -q -- .
(cd "$D" && PYTHONPATH="$WT" timeout 120 /venv/bin/python -W ignore demo.py > /tmp/demo_clean_$$.txt 2>&1); RC_C=$?
cd /
git -C /repo worktree remove --force "$WT"
echo "$(basename $D): suite: $SUITE | demo patched rc=$RC_P clean rc=$RC_C"
echo "  failed: $(echo $FAILED | wc -w) tests"
python3 - "$D" "$PROP" "$SUITE" "$FAILED" "$RC_P" "$RC_C" /tmp/demo_patched_$$.txt /tmp/demo_clean_$$.txt <<'EOF'
import json, sys, os
d, prop, suite, failed, rcp, rcc, fp, fc = sys.argv[1:9]
notes = open(os.path.join(d, 'notes.md')).read() if os.path.exists(os.path.join(d, 'notes.md')) else ''
meta = {
 'property': prop,
 'origin': 'independent sub-agent given only the property text and a scratch worktree',
 'needs_to_manifest': notes[:1500],
 'confirmed': {
   'suite_with_patch': suite, 'failed_tests_with_patch': failed.split(),
   'demo_with_patch_exit': int(rcp), 'demo_with_patch_tail': open(fp).read()[-400:],
   'demo_clean_exit': int(rcc), 'demo_clean_tail': open(fc).read()[-200:],
   'how': 'tools/confirm_seed.sh: fresh worktree of /repo HEAD, git apply patch.diff, baseline pytest command, demo.py with PYTHONPATH=<worktree>, then git checkout and demo again',
 },
}
try:
    prev = json.load(open(os.path.join(d, 'meta.json')))
    for k in ('summary', 'first_run', 'detected_by', 'detected', 'rebased'):
        if k in prev: meta[k] = prev[k]
except Exception:
    pass
meta['kept'] = (int(rcp) != 0 and int(rcc) == 0 and '60 passed' in suite and '8 failed' in suite)
json.dump(meta, open(os.path.join(d, 'meta.json'), 'w'), indent=1)
print('  kept:', meta['kept'])
EOF
rm -f /tmp/demo_patched_$$.txt /tmp/demo_clean_$$.txt
