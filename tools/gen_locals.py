#!/venv/bin/python
"""Record the local-variable names of every function of the reference tree (scverif/refs/locals.json).
Only used so that a later rename of a local does not make a text rule report a statement as missing."""
import json, os, sys
os.environ['SCVERIF_NO_CANON'] = '1'
sys.path.insert(0, os.path.dirname(os.path.dirname(os.path.abspath(__file__))))
from scverif.loader import Repo, local_names, qualname_of
r = Repo()
out = {}
for fi in r.functions.values():
    q = qualname_of(fi.node)
    out.setdefault(q, set()).update(local_names(fi.node))
json.dump({k: sorted(v) for k, v in sorted(out.items())}, open(os.path.join(os.path.dirname(os.path.dirname(os.path.abspath(__file__))), 'scverif', 'refs', 'locals.json'), 'w'), indent=0)
print(len(out), 'functions')

# ordered non-parameter locals of every outermost function (used by loader.canonicalise_locals)
from scverif.loader import ordered_locals, _outer_functions
order = {}
for m in r.modules.values():
    for fq, fn in _outer_functions(m):
        order[fq] = ordered_locals(fn)
json.dump(order, open(os.path.join(os.path.dirname(os.path.dirname(os.path.abspath(__file__))), 'scverif', 'refs', 'locals_order.json'), 'w'), indent=0, sort_keys=True)
print(len(order), 'functions with pinned local order')
