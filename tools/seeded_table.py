#!/venv/bin/python
"""Rewrite the table between the SEEDED markers in DESIGN.md from seeded/*/meta.json."""
import glob, json, os, re
HERE = os.path.dirname(os.path.dirname(os.path.abspath(__file__)))
rows = []
for mp in sorted(glob.glob(os.path.join(HERE, 'seeded', '*', 'meta.json'))):
    m = json.load(open(mp))
    sid = os.path.basename(os.path.dirname(mp))
    patch = open(os.path.join(os.path.dirname(mp), 'patch.diff')).read()
    files = sorted(set(re.findall(r'^\+\+\+ b/(\S+)', patch, re.M)))
    what = m.get('summary') or (m.get('needs_to_manifest', '').strip().split('\n')[0][:140])
    det = m.get('detected_by', {})
    rules = sorted({x.split(' at ')[0].strip() for v in det.values() for x in v})
    rows.append(f"| {sid} | {m['property']} | {', '.join(files)} | {what} | {'yes' if m.get('kept') else ('before ' + m['superseded'] if m.get('superseded') else 'NO')} | "
                f"{', '.join(rules) if rules else ('silent, as it must be now' if m.get('superseded') else '**not detected**')}{' (' + m['first_run'] + ')' if m.get('first_run') else ''} |")
table = ['| seed | property | file | change (what it needs to manifest: see meta.json) | confirmed | caught by |', '|---|---|---|---|---|---|'] + rows
p = os.path.join(HERE, 'DESIGN.md')
s = open(p).read()
if '<!-- SEEDED-BEGIN -->' in s:
    a = s.index('<!-- SEEDED-BEGIN -->'); b = s.index('<!-- SEEDED-END -->')
    s = s[:a] + '<!-- SEEDED-BEGIN -->\n' + '\n'.join(table) + '\n' + s[b:]
else:
    s = s.replace('SEEDED_TABLE_PLACEHOLDER', '<!-- SEEDED-BEGIN -->\n' + '\n'.join(table) + '\n<!-- SEEDED-END -->')
open(p, 'w').write(s)
print(len(rows), 'rows')
