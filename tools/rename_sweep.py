#!/venv/bin/python
"""Behaviour-preserving sweep: rename every local variable of every function of one source file (x -> x_rn) and run all
checks on that in-memory variant.  Every new finding is a false alarm of a text-bound rule clause.
usage: tools/rename_sweep.py [file-substring ...]   (default: all files under sc3/)"""
import ast, os, sys, json, warnings
from concurrent.futures import ProcessPoolExecutor
warnings.simplefilter('ignore')
HERE = os.path.dirname(os.path.dirname(os.path.abspath(__file__)))
sys.path.insert(0, HERE)
ROOT = '/repo'
PIDS = [f'C{n:02d}' for n in range(1, 21)]


class Renamer(ast.NodeTransformer):
    def __init__(self):
        self.stack = []
        self.count = 0

    def _locals_of(self, fn):
        args = fn.args
        params = {a.arg for a in args.posonlyargs + args.args + args.kwonlyargs}
        if args.vararg: params.add(args.vararg.arg)
        if args.kwarg: params.add(args.kwarg.arg)
        stores, banned = set(), set(params)
        for n in ast.walk(fn):
            if isinstance(n, (ast.Global, ast.Nonlocal)):
                banned |= set(n.names)
            if isinstance(n, (ast.FunctionDef, ast.AsyncFunctionDef, ast.Lambda)) and n is not fn:
                a = n.args
                banned |= {x.arg for x in a.posonlyargs + a.args + a.kwonlyargs}
                if a.vararg: banned.add(a.vararg.arg)
                if a.kwarg: banned.add(a.kwarg.arg)
                if not isinstance(n, ast.Lambda): banned.add(n.name)
            if isinstance(n, ast.ClassDef): banned.add(n.name)
            if isinstance(n, ast.Name) and isinstance(n.ctx, ast.Store):
                stores.add(n.id)
            if isinstance(n, (ast.Import, ast.ImportFrom)):
                for al in n.names: banned.add((al.asname or al.name).split('.')[0])
            if isinstance(n, ast.ExceptHandler) and n.name: banned.add(n.name)
            if isinstance(n, ast.Call) and isinstance(n.func, ast.Name) and n.func.id in ('locals', 'vars', 'eval', 'exec'):
                return set()
        return {s for s in stores - banned if not s.startswith('__')}

    def visit_FunctionDef(self, node):
        if self.stack:                      # nested: handled by the outermost function's map
            self.generic_visit(node)
            return node
        names = self._locals_of(node)
        self.stack.append(names)
        self.count += len(names)
        self.generic_visit(node)
        self.stack.pop()
        return node
    visit_AsyncFunctionDef = visit_FunctionDef

    def visit_Name(self, node):
        if self.stack and node.id in self.stack[0]:
            node.id = node.id + '_rn'
        return node


def variant(relpath):
    src = open(os.path.join(ROOT, relpath), encoding='utf-8').read()
    tree = ast.parse(src)
    r = Renamer()
    r.visit(tree)
    return ast.unparse(tree), r.count


def reformat(relpath):
    """control: the same file only re-printed by ast.unparse (no rename)"""
    return ast.unparse(ast.parse(open(os.path.join(ROOT, relpath), encoding='utf-8').read()))


def job(args):
    relpath, pid = args
    from scverif import mutants
    try:
        base = mutants._findings(pid, {relpath: reformat(relpath)})
        ctrl_err = None
    except Exception as e:
        return relpath, pid, 'CONTROL-ERROR', repr(e)[:200]
    new_src, n = variant(relpath)
    try:
        got = mutants._findings(pid, {relpath: new_src})
    except Exception as e:
        return relpath, pid, 'ERROR', repr(e)[:300]
    new = sorted(k for k in got if k not in base)
    return relpath, pid, 'ok', new


def main():
    files = []
    for dp, dn, fn in os.walk(os.path.join(ROOT, 'sc3')):
        for f in fn:
            if f.endswith('.py'):
                rel = os.path.relpath(os.path.join(dp, f), ROOT)
                if not sys.argv[1:] or any(a in rel for a in sys.argv[1:]):
                    files.append(rel)
    jobs = [(f, p) for f in sorted(files) for p in PIDS]
    out = {}
    with ProcessPoolExecutor(max_workers=int(os.environ.get('VERIF_JOBS', '16'))) as ex:
        for rel, pid, st, new in ex.map(job, jobs, chunksize=4):
            if st != 'ok' or new:
                out.setdefault(rel, {})[pid] = (st, new)
                print(rel, pid, st, new if st != 'ok' else [f'{r} :: {k}' for r, k in new][:6], flush=True)
    json.dump(out, open('/tmp/rename_sweep.json', 'w'), indent=1, default=str)
    print('files', len(files), 'with alarms', len(out))


if __name__ == '__main__':
    main()
