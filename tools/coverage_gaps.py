#!/venv/bin/python
"""List functions inside each property's anchor line ranges that no obligation of any property is anchored in or names.
Exploration aid only (not a check): shows where a rule could still be added."""
import ast, json, os, re, sys, warnings
warnings.simplefilter('ignore')
HERE = os.path.dirname(os.path.dirname(os.path.abspath(__file__)))
sys.path.insert(0, HERE)
from scverif.loader import Repo
from scverif.__main__ import run_rules, PIDS
repo = Repo()
touched = {}   # relpath -> set of lines ; plus names in keys
keys = []
for pid in PIDS:
    ctx, _ = run_rules(pid, repo, 'quick')
    for o in ctx.obligations:
        if o.file and o.line:
            touched.setdefault(o.file, set()).add(o.line)
        keys.append(o.key)
keytext = '\n'.join(keys)
props = [json.loads(l) for l in open(os.path.join(HERE, 'properties.jsonl'))]
want = sys.argv[1:] or PIDS
for p in props:
    if p['id'] not in want:
        continue
    out = []
    for mech in p['anchors']['mechanism']:
        m = re.match(r'(\S+?):(.*)$', mech['where'])
        if not m:
            continue
        rel, spans = m.group(1), m.group(2)
        try:
            tree = ast.parse(open(os.path.join('/repo', rel)).read())
        except OSError:
            continue
        rngs = []
        for sp in spans.split(','):
            a, _, b = sp.partition('-')
            if a.strip().isdigit():
                rngs.append((int(a), int(b) if b.strip().isdigit() else int(a)))
        def visit(node, q):
            for ch in ast.iter_child_nodes(node):
                if isinstance(ch, (ast.FunctionDef, ast.AsyncFunctionDef)):
                    qq = f'{q}.{ch.name}' if q else ch.name
                    if any(a <= ch.lineno <= b for a, b in rngs) or not rngs:
                        lines = touched.get(rel, set())
                        hit = any(ch.lineno <= l <= ch.end_lineno for l in lines) or (qq + ':') in keytext or (qq + '\n') in keytext or f'.{ch.name}:' in keytext
                        n = ch.end_lineno - ch.lineno
                        if not hit and n >= 3:
                            out.append(f'{rel}:{ch.lineno} {qq} ({n} lines)')
                    visit(ch, qq)
                elif isinstance(ch, ast.ClassDef):
                    visit(ch, f'{q}.{ch.name}' if q else ch.name)
        visit(tree, '')
    print(p['id'], len(out))
    for x in sorted(set(out)):
        print('   ', x)
