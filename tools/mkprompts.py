#!/venv/bin/python
"""Write the prompt files for one seeding round: tools/mkprompts.py <round letter> [ids...]  -> /tmp/prompt_<P><r>.txt
Each prompt holds only the text of one property, the list of changes already tried for it (one line each, from
seeded/<P>-*/meta.json) and what is already known about the unchanged library (known findings + the set-aside list below).
Nothing from /verif is shown to the agent."""
import glob, json, os, sys
HERE = os.path.dirname(os.path.dirname(os.path.abspath(__file__)))
HEAD = "You are helping to test a verification effort by playing the adversary. You have a scratch git worktree of the Python library smrg-lm/sc3 (a Python port of SuperCollider's class library) at /tmp/wt_C07e. Work ONLY inside /tmp/wt_C07e and /tmp/seed_C07e. Never touch /repo or /verif (do not read /verif either).\n\nHere is one semantic property the library is supposed to satisfy:\n\n-----\n"
JOB = '-----\n\nYour job: produce ONE realistic change to the library source under /tmp/wt_C07e/sc3 that BREAKS this property while\n (a) the package still imports, and\n (b) the existing test suite still passes exactly as before: run\n       cd /tmp/wt_C07e && PYTHONPATH=/tmp/wt_C07e /venv/bin/python -m pytest -q -p no:cacheprovider --timeout=900 --continue-on-collection-errors 2>&1 | tail -15\n     Before your change it gives "8 failed, 60 passed" (the same 8 tests always fail in this sandbox: test_clock_nrt x2, test_entrypoint::test_all_nrt, test_nrt::test_process, test_play x2, test_routine::test_rgen, test_timepatterns::test_ptime). After your change it must still be exactly those 8 failed / 60 passed.\nThe change should look like something a developer could plausibly write (a refactor, an "optimisation", a small "fix", a reordering, a sibling copy that drifts) - not an obviously malicious edit, and not a comment/rename-only edit. Prefer a change that needs something specific to manifest: a particular interleaving, an exception or fault at a particular point, a multi-step sequence of operations, an unusual input, a particular client id / offset / mode (e.g. non-real-time mode via `import sc3; sc3.init(\'nrt\')`), or two cooperating sites that each look fine alone. Avoid changes that ordinary use would expose at once. Keep the diff small (ideally under 25 lines).\n\nAlso write a demonstration: a small standalone Python program /tmp/seed_C07e/demo.py that exits with status 0 and prints PASS when the property holds for the scenario it exercises, and exits non-zero and prints FAIL (with what went wrong) when it does not. It must FAIL with your change applied and PASS on the unchanged worktree. It is run as:\n       cd /tmp/seed_C07e && PYTHONPATH=/tmp/wt_C07e /venv/bin/python -W ignore demo.py\n(the PYTHONPATH makes `import sc3` pick up the worktree copy; real-time mode is the default after `from sc3.all import *`; NRT mode needs `import sc3; sc3.init(\'nrt\')` BEFORE importing sc3.all_nrt; there is no SuperCollider server in the sandbox and no network, but the library works without one: OSC can be captured by monkeypatching, and NRT mode records bundles in `main.process().list`). Keep the demo deterministic and fast (a few seconds).\n\nDeliverables (all under /tmp/seed_C07e):\n  - patch.diff : output of `git -C /tmp/wt_C07e diff` for your change (only library source, no tests)\n  - demo.py    : the demonstration\n  - notes.md   : 5-15 lines: what you changed, why it breaks the property, what is needed for it to manifest, and the exact commands you ran with their results (test suite before/after counts, demo PASS on clean tree, demo FAIL with patch)\nVerify everything yourself: run the suite with the patch, run the demo with the patch (must FAIL), then save the patch (`git -C /tmp/wt_C07e diff > /tmp/seed_C07e/patch.diff`), revert with `git -C /tmp/wt_C07e checkout -- .` and run the demo on the clean tree (must PASS), then re-apply with `git -C /tmp/wt_C07e apply /tmp/seed_C07e/patch.diff` so the worktree ends with your change applied. NEVER use `git stash` (the stash is shared with other worktrees of the same repository and other people are using it). Other people run the same test suite concurrently: if a test about sockets/ports fails once because a UDP port was busy, re-run it before concluding anything; prefer NRT mode in your demo when it fits the property.\n\nOne more thing (optional but valuable): if, while reading the code, you notice that the UNCHANGED library already violates the property for some input, sequence or mode, add a section \'Baseline violations\' at the end of notes.md describing each one in 2-4 lines with a minimal script or expression that shows it on the clean worktree (make sure your demo.py avoids those cases). Only list what you actually reproduced.\n'
FIN = ' Finish with a short report of what you did.\n'
SET_ASIDE = json.load(open(os.path.join(HERE, 'tools', 'set_aside.json')))


def main():
    r = sys.argv[1]
    want = sys.argv[2:]
    props = [json.loads(l) for l in open(os.path.join(HERE, 'properties.jsonl'))]
    known = json.load(open(os.path.join(HERE, 'known_findings.json')))['known']
    for p in props:
        pid = p['id']
        if want and pid not in want:
            continue
        tried = []
        for mp in sorted(glob.glob(os.path.join(HERE, 'seeded', pid + '-*', 'meta.json'))):
            m = json.load(open(mp))
            if m.get('summary'):
                tried.append('  - ' + m['summary'])
        q = p['quantifier']['text'] if isinstance(p['quantifier'], dict) else p['quantifier']
        body = (f"Property {pid}: {p['title']}\n\nStatement: {p['statement']}\n\nQuantifier (programs, schedules, configurations): {q}\n\n"
                f"Why the existing tests cannot settle it: {p['why_tests_cant']}\n\n\n")
        body += ('Other engineers have already tried the following change(s) for this property. Do something DIFFERENT: a different function '
                 'and a different mechanism (do not vary or repeat these):\n' + '\n'.join(tried) + '\n\n')
        kn = [k['text'].split(' (findings/')[0].split('. Not repaired')[0] for k in known if k['property'] == pid] + SET_ASIDE.get(pid, [])
        text = HEAD.replace('C07e', pid + r) + body + JOB.replace('C07e', pid + r)
        text += ('Already known about the unchanged library for this property (do NOT report these again, and keep your demo away from them): '
                 + '; '.join(kn) + '.\n' if kn else '')
        text += FIN
        open(f'/tmp/prompt_{pid}{r}.txt', 'w').write(text)
        print(pid, len(tried), 'tried,', len(kn), 'known')


main()
