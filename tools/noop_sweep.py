#!/venv/bin/python
"""Behaviour-preserving sweep 2: insert a `pass` statement at the top of every function body (after the docstring) of one
source file and run all checks on that in-memory variant.  New findings = clauses bound to statement positions."""
import ast, os, sys, json, warnings
from concurrent.futures import ProcessPoolExecutor
warnings.simplefilter('ignore')
HERE = os.path.dirname(os.path.dirname(os.path.abspath(__file__)))
sys.path.insert(0, HERE)
ROOT = '/repo'
PIDS = [f'C{n:02d}' for n in range(1, 21)]


def variant(relpath, where='top'):
    tree = ast.parse(open(os.path.join(ROOT, relpath), encoding='utf-8').read())
    control = ast.unparse(tree)
    for n in ast.walk(tree):
        if isinstance(n, (ast.FunctionDef, ast.AsyncFunctionDef)):
            i = 1 if (n.body and isinstance(n.body[0], ast.Expr) and isinstance(n.body[0].value, ast.Constant) and isinstance(n.body[0].value.value, str)) else 0
            n.body.insert(i, ast.Pass())
    ast.fix_missing_locations(tree)
    return control, ast.unparse(tree)


def job(args):
    relpath, pid = args
    from scverif import mutants
    try:
        control, new_src = variant(relpath)
        base = mutants._findings(pid, {relpath: control})
        got = mutants._findings(pid, {relpath: new_src})
    except Exception as e:
        return relpath, pid, 'ERROR', [repr(e)[:200]]
    return relpath, pid, 'ok', sorted(f'{r} :: {k}' for r, k in got if (r, k) not in base)


def main():
    files = []
    for dp, dn, fn in os.walk(os.path.join(ROOT, 'sc3')):
        for f in fn:
            if f.endswith('.py'):
                rel = os.path.relpath(os.path.join(dp, f), ROOT)
                if not sys.argv[1:] or any(a in rel for a in sys.argv[1:]):
                    files.append(rel)
    out = {}
    with ProcessPoolExecutor(max_workers=16) as ex:
        for rel, pid, st, new in ex.map(job, [(f, p) for f in sorted(files) for p in PIDS], chunksize=4):
            if st != 'ok' or new:
                out.setdefault(rel, {})[pid] = (st, new)
                print(rel, pid, st, new[:8], flush=True)
    json.dump(out, open('/tmp/noop_sweep.json', 'w'), indent=1)
    print('files', len(files), 'with alarms', len(out), 'alarms', sum(len(v[1]) for d in out.values() for v in d.values()))


if __name__ == '__main__':
    main()
