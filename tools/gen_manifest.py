#!/venv/bin/python
"""Regenerate MANIFEST.json from the rule modules that exist."""
import importlib
import json
import os
import sys

HERE = os.path.dirname(os.path.dirname(os.path.abspath(__file__)))
sys.path.insert(0, HERE)

PIDS = [f'C{n:02d}' for n in range(1, 21)]
PENDING = {}

checks = []
na = []
for pid in PIDS:
    try:
        mod = importlib.import_module(f'scverif.rules.{pid.lower()}')
    except ModuleNotFoundError:
        na.append({'property_id': pid, 'reason': 'static check not built yet (work in progress; see DESIGN.md section 4)'})
        continue
    checks.append({
        'property_id': pid,
        'quick_cmd': f'/venv/bin/python -W ignore -m scverif check {pid} --tier quick',
        'thorough_cmd': f'/venv/bin/python -W ignore -m scverif check {pid} --tier thorough',
        'evidence_file': f'/verif/evidence/{pid}.json',
        'replay_cmd_template': '/venv/bin/python -W ignore -m scverif explain {path}',
        'engine': 'scverif',
        'level_claimed': {
            'category': 'other',
            'text': getattr(mod, 'LEVEL_TEXT', mod.EXPLANATION),
            'design_ref': f'DESIGN.md section 4 ({pid})',
        },
        'level_note': getattr(mod, 'LEVEL_NOTE', ''),
        'technique': getattr(mod, 'TECHNIQUE', 'static analysis: custom AST/flow rules over the parsed sc3 source'),
    })

manifest = {
    'version': 1,
    'setup_cmd': '/venv/bin/python -m compileall -q scverif',
    'hooks': {
        'guard': 'SC3_VERIF',
        'enable': 'none needed: the checks read /repo source only, nothing is instrumented',
        'baseline_off_cmd': 'cd /repo && /venv/bin/python -m pytest -ra -q -p no:cacheprovider --timeout=900 --continue-on-collection-errors',
        'source_commits': [],
        'add_only': True,
    },
    'engines': [{
        'name': 'scverif',
        'path': '/verif/scverif',
        'serves_properties': [c['property_id'] for c in checks],
        'kind_free_text': 'repository-specific static analyser on CPython ast: source model with MRO/alias resolution, '
                          'syntax-directed path enumerator, polynomial normal forms, table/grammar extraction; '
                          'never imports or runs sc3',
    }],
    'checks': checks,
    'not_applicable': na,
    'notes': 'All checks are static (source only). Exit 0 = all rule instances hold or are listed in known_findings.json; '
             'exit 1 + VIOLATION line = a new finding; exit 2 + ANALYSIS-ERROR = the analysis could not bind an anchor '
             '(never a verdict). Thorough tier adds the in-memory mutation self-test of every rule.',
}
with open(os.path.join(HERE, 'MANIFEST.json'), 'w') as f:
    json.dump(manifest, f, indent=1)
print(f'{len(checks)} checks, {len(na)} not applicable')
