#!/venv/bin/python
"""Run every quick check against /repo with one seeded change applied, then undo it.

usage: tools/seeded.py seeded/<id> [...]      (each dir holds patch.diff)
Prints, per seeded change, which properties/rules raise a VIOLATION.  /repo is
restored with `git checkout -- .` afterwards (also on error)."""
import json
import os
import subprocess
import sys

HERE = os.path.dirname(os.path.dirname(os.path.abspath(__file__)))
PIDS = [f'C{n:02d}' for n in range(1, 21)]


def run(cmd, **kw):
    return subprocess.run(cmd, shell=True, capture_output=True, text=True, **kw)


def main():
    out = {}
    for d in sys.argv[1:]:
        d = os.path.abspath(d)
        patch = os.path.join(d, 'patch.diff')
        st = run('git -C /repo status --porcelain')
        if st.stdout.strip():
            print('refusing: /repo has uncommitted changes')
            return 2
        r = run(f'git -C /repo apply {patch}')
        if r.returncode != 0:
            print(f'{d}: patch does not apply: {r.stderr.strip()[:200]}')
            continue
        try:
            hits = {}
            # one process for the twenty checks (each prints VIOLATION / rule= lines and an ANALYSIS-ERROR line when it cannot bind)
            c = run('/venv/bin/python -W ignore -m scverif check all', cwd=HERE)
            cur = None
            for l in c.stdout.splitlines():
                if l.startswith('VIOLATION property='):
                    cur = l.split('property=')[1].split()[0]
                    hits.setdefault(cur, [])
                elif l.startswith('  rule=') and cur is not None:
                    hits[cur].append(l.strip()[:230])
                elif l.startswith('ANALYSIS-ERROR property='):
                    pid = l.split('property=')[1].split()[0]
                    hits.setdefault(pid, []).append('EXIT2 ' + l[:200])
            out[os.path.basename(d)] = hits
            mp = os.path.join(d, 'meta.json')
            if os.path.exists(mp):
                meta = json.load(open(mp))
                meta['detected_by'] = {k: [x.split(' construct=')[0].replace('rule=', '') + ' :: ' + x.split(' construct=')[-1] for x in v] for k, v in hits.items()}
                meta['detected'] = bool(hits)
                json.dump(meta, open(mp, 'w'), indent=1)
            print(f'== {os.path.basename(d)}: ' + (', '.join(f'{k}({len(v)})' for k, v in hits.items()) or 'NOT DETECTED'))
            for k, v in hits.items():
                for l in v[:4]:
                    print(f'   {k}: {l}')
        finally:
            run('git -C /repo checkout -- .')
            run('git -C /repo clean -fdq sc3')
    # restore evidence of the unchanged tree
    run('/venv/bin/python -W ignore -m scverif check all', cwd=HERE)
    return 0


if __name__ == '__main__':
    sys.exit(main())
