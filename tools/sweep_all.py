#!/venv/bin/python
"""Run the behaviour-preserving variant sweeps (scverif/sweep.py: renamed locals, return temporaries, other spellings,
annotations + docstrings) for every property and list the false alarms.  Exploration aid; the thorough tier runs the
same sweep per property."""
import os, sys
sys.path.insert(0, os.path.dirname(os.path.dirname(os.path.abspath(__file__))))
from scverif import sweep
bad = 0
for n in range(1, 21):
    pid = f'C{n:02d}'
    if len(sys.argv) > 1 and pid not in sys.argv[1:]:
        continue
    r = sweep.run(pid)
    print(pid, len(r['false_alarms']), flush=True)
    for fa in r['false_alarms']:
        bad += 1
        print('   ', fa['file'], fa['status'], fa['findings'][:6], flush=True)
sys.exit(1 if bad else 0)
