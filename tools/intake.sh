#!/bin/bash
# usage: tools/intake.sh C05 b   -> copies /tmp/seed_C05b to seeded/C05-b, confirms it and runs every check against it
P=$1; S=$2
D=/verif/seeded/$P-$S
mkdir -p $D
cp /tmp/seed_${P}${S}/patch.diff /tmp/seed_${P}${S}/demo.py /tmp/seed_${P}${S}/notes.md $D/ 2>/dev/null
git -C /repo worktree remove --force /tmp/wt_${P}${S} 2>/dev/null
cd /verif
tools/confirm_seed.sh seeded/$P-$S $P | grep -v "failed:"
/venv/bin/python tools/seeded.py seeded/$P-$S 2>&1 | grep -v "^$" | head -6
