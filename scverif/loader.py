"""Source model of /repo/sc3: parsed on every run from the working tree.

Nothing here imports or executes sc3.  Everything is derived from `ast`.
"""

import ast
import hashlib
import os


class AnalysisError(Exception):
    """The analysis cannot bind a role / parse a file: exit 2, never a verdict."""

    def __init__(self, rule, reason):
        super().__init__(f'{rule}: {reason}')
        self.rule = rule
        self.reason = reason


def repo_root():
    return os.environ.get('VERIF_REPO', '/repo')


class Module:
    def __init__(self, name, path, relpath, source):
        self.name = name            # dotted, e.g. sc3.base.clock
        self.path = path
        self.relpath = relpath      # sc3/base/clock.py
        self.source = source
        self.digest = hashlib.sha256(source.encode('utf-8')).hexdigest()[:16]
        self.tree = ast.parse(source, filename=path)
        self.is_pkg = relpath.endswith('__init__.py')
        self.aliases = {}           # local name -> dotted target (module or module.attr)
        self.classes = {}           # qualname within module -> ClassInfo
        self.functions = {}         # qualname within module -> FuncInfo
        self.assigns = {}           # module-level name -> value node (last)
        _annotate(self.tree)

    def __repr__(self):
        return f'<Module {self.name}>'


def _annotate(tree):
    """parent links + owning-module-independent metadata"""
    tree._parent = None
    for node in ast.walk(tree):
        for child in ast.iter_child_nodes(node):
            child._parent = node


class FuncInfo:
    def __init__(self, module, node, qualname, cls=None):
        self.module = module
        self.node = node
        self.qualname = qualname    # e.g. SystemClock.sched
        self.cls = cls              # ClassInfo or None
        self.name = node.name
        self.decorators = [dump_name(d) for d in node.decorator_list]

    @property
    def fq(self):
        return f'{self.module.name}:{self.qualname}'

    @property
    def params(self):
        a = self.node.args
        return [x.arg for x in a.posonlyargs + a.args]

    @property
    def is_classmethod(self):
        return 'classmethod' in self.decorators

    @property
    def is_staticmethod(self):
        return 'staticmethod' in self.decorators

    @property
    def is_generator(self):
        for n in walk_local(self.node):
            if isinstance(n, (ast.Yield, ast.YieldFrom)):
                return True
        return False

    def __repr__(self):
        return f'<Func {self.fq}>'


class ClassInfo:
    def __init__(self, module, node, qualname):
        self.module = module
        self.node = node
        self.qualname = qualname
        self.name = node.name
        self.base_exprs = list(node.bases)
        self.metaclass_expr = None
        for kw in node.keywords:
            if kw.arg == 'metaclass':
                self.metaclass_expr = kw.value
        self.methods = {}           # name -> FuncInfo (last def wins, plus property setters separately)
        self.setters = {}           # name -> FuncInfo for @x.setter
        self.deleters = {}
        self.class_assigns = {}     # name -> value node
        self.bases = []             # resolved ClassInfo list (in-repo only)
        self.ext_bases = []         # dotted names of out-of-repo bases
        self.mro = None

    @property
    def fq(self):
        return f'{self.module.name}:{self.qualname}'

    def __repr__(self):
        return f'<Class {self.fq}>'


def dump_name(node):
    """Dotted name of a Name/Attribute chain, or None."""
    if isinstance(node, ast.Name):
        return node.id
    if isinstance(node, ast.Attribute):
        b = dump_name(node.value)
        if b is None:
            return None
        return b + '.' + node.attr
    if isinstance(node, ast.Call):
        return dump_name(node.func)
    return None


def walk_local(fnode):
    """Walk a function body without descending into nested defs/classes/lambdas."""
    stack = list(ast.iter_child_nodes(fnode))
    while stack:
        n = stack.pop()
        yield n
        if isinstance(n, (ast.FunctionDef, ast.AsyncFunctionDef, ast.ClassDef, ast.Lambda)):
            continue
        stack.extend(ast.iter_child_nodes(n))


def walk_local_ordered(fnode):
    """Like walk_local but in source order (pre-order)."""
    def rec(n):
        for c in ast.iter_child_nodes(n):
            yield c
            if isinstance(c, (ast.FunctionDef, ast.AsyncFunctionDef, ast.ClassDef, ast.Lambda)):
                continue
            yield from rec(c)
    yield from rec(fnode)


class Repo:
    def __init__(self, root=None, overlay=None):
        """overlay: dict relpath -> source text that replaces the file content
        (used by the mutation self-test; nothing is written to disk)."""
        self.root = root or repo_root()
        self.overlay = overlay or {}
        self.modules = {}           # dotted -> Module
        self.by_relpath = {}
        self.classes = {}           # 'mod:Qual' -> ClassInfo
        self.functions = {}         # 'mod:Qual' -> FuncInfo
        self._load()
        self._index()
        self._resolve_bases()

    # ---------------------------------------------------------------- load
    def _load(self):
        pkg = os.path.join(self.root, 'sc3')
        if not os.path.isdir(pkg):
            raise AnalysisError('loader', f'{pkg} is not a directory')
        for dirpath, dirnames, filenames in os.walk(pkg):
            dirnames[:] = sorted(d for d in dirnames if d != '__pycache__')
            for fn in sorted(filenames):
                if not fn.endswith('.py'):
                    continue
                path = os.path.join(dirpath, fn)
                rel = os.path.relpath(path, self.root)
                if rel in self.overlay:
                    src = self.overlay[rel]
                else:
                    with open(path, encoding='utf-8') as f:
                        src = f.read()
                parts = rel[:-3].split(os.sep)
                if parts[-1] == '__init__':
                    parts = parts[:-1]
                name = '.'.join(parts)
                try:
                    m = Module(name, path, rel, src)
                except SyntaxError as e:
                    raise AnalysisError('loader', f'{rel} does not parse: {e}')
                self.modules[name] = m
                self.by_relpath[rel] = m
        for rel in self.overlay:
            if rel not in self.by_relpath:
                # overlay may add a new file
                parts = rel[:-3].split('/')
                if parts[-1] == '__init__':
                    parts = parts[:-1]
                name = '.'.join(parts)
                m = Module(name, os.path.join(self.root, rel), rel, self.overlay[rel])
                self.modules[name] = m
                self.by_relpath[rel] = m
        if len(self.modules) < 50:
            raise AnalysisError('loader', f'only {len(self.modules)} modules found under {pkg}')

    # --------------------------------------------------------------- index
    def _index(self):
        for m in self.modules.values():
            canonicalise_locals(m)
            self._index_aliases(m)
            self._index_defs(m, m.tree.body, prefix='', cls=None)

    def _abs_module(self, m, level, modname):
        if level == 0:
            return modname
        parts = m.name.split('.')
        if not m.is_pkg:
            parts = parts[:-1]
        if level > 1:
            parts = parts[:-(level - 1)]
        base = '.'.join(parts)
        if modname:
            return base + '.' + modname if base else modname
        return base

    def _index_aliases(self, m):
        for node in ast.walk(m.tree):
            if isinstance(node, ast.Import):
                for a in node.names:
                    m.aliases[a.asname or a.name.split('.')[0]] = a.name if a.asname else a.name.split('.')[0]
            elif isinstance(node, ast.ImportFrom):
                base = self._abs_module(m, node.level, node.module)
                for a in node.names:
                    if a.name == '*':
                        continue
                    m.aliases[a.asname or a.name] = f'{base}.{a.name}'
            elif isinstance(node, ast.Assign) and len(node.targets) == 1 and \
                    isinstance(node.targets[0], ast.Name) and isinstance(node.value, ast.Call):
                fn = dump_name(node.value.func)
                if fn and fn.endswith('late_import') and len(node.value.args) == 3:
                    tgt = node.value.args[1]
                    if isinstance(tgt, ast.Constant) and isinstance(tgt.value, str):
                        m.aliases[node.targets[0].id] = tgt.value

    def _index_defs(self, m, body, prefix, cls):
        for node in body:
            if isinstance(node, (ast.FunctionDef, ast.AsyncFunctionDef)):
                q = prefix + node.name
                fi = FuncInfo(m, node, q, cls)
                kind = None
                for d in node.decorator_list:
                    dn = dump_name(d)
                    if dn and dn.endswith('.setter'):
                        kind = 'setter'
                    elif dn and dn.endswith('.deleter'):
                        kind = 'deleter'
                if cls is not None:
                    if kind == 'setter':
                        cls.setters[node.name] = fi
                        fi.qualname = q + '.setter'
                    elif kind == 'deleter':
                        cls.deleters[node.name] = fi
                        fi.qualname = q + '.deleter'
                    else:
                        cls.methods[node.name] = fi
                m.functions[fi.qualname] = fi
                self.functions[fi.fq] = fi
                # nested defs
                self._index_defs(m, node.body, q + '.<locals>.', None)
            elif isinstance(node, ast.ClassDef):
                q = prefix + node.name
                ci = ClassInfo(m, node, q)
                m.classes[q] = ci
                self.classes[ci.fq] = ci
                for st in node.body:
                    if isinstance(st, ast.Assign):
                        for t in st.targets:
                            if isinstance(t, ast.Name):
                                ci.class_assigns[t.id] = st.value
                    elif isinstance(st, ast.AnnAssign) and isinstance(st.target, ast.Name) and st.value is not None:
                        ci.class_assigns[st.target.id] = st.value
                self._index_defs(m, node.body, q + '.', ci)
            elif isinstance(node, ast.Assign) and cls is None and prefix == '':
                for t in node.targets:
                    if isinstance(t, ast.Name):
                        m.assigns[t.id] = node.value
            elif isinstance(node, (ast.If, ast.Try, ast.With)) and cls is None:
                # defs under module-level if/try
                for sub in _sub_bodies(node):
                    self._index_defs(m, sub, prefix, cls)

    # -------------------------------------------------------------- resolve
    def resolve_name(self, m, dotted):
        """Resolve a dotted name used in module m to ('class', ClassInfo) /
        ('func', FuncInfo) / ('module', Module) / ('ext', dotted) / None."""
        if dotted is None:
            return None
        parts = dotted.split('.')
        head = parts[0]
        # local definitions first
        if head in m.classes and len(parts) == 1:
            return ('class', m.classes[head])
        if head in m.functions and len(parts) == 1:
            return ('func', m.functions[head])
        if head in m.classes and len(parts) > 1:
            q = '.'.join(parts)
            if q in m.classes:
                return ('class', m.classes[q])
            if q in m.functions:
                return ('func', m.functions[q])
            ci = m.classes[head]
            r = self.resolve_method(ci, parts[1]) if len(parts) == 2 else None
            if r:
                return ('func', r)
            return None
        if head in m.aliases:
            target = m.aliases[head]
            full = '.'.join([target] + parts[1:])
            return self.resolve_abs(full)
        return None

    def resolve_abs(self, full):
        parts = full.split('.')
        # longest module prefix
        for i in range(len(parts), 0, -1):
            mn = '.'.join(parts[:i])
            if mn in self.modules:
                mod = self.modules[mn]
                rest = parts[i:]
                if not rest:
                    return ('module', mod)
                q = '.'.join(rest)
                if q in mod.classes:
                    return ('class', mod.classes[q])
                if q in mod.functions:
                    return ('func', mod.functions[q])
                if rest[0] in mod.classes and len(rest) == 2:
                    r = self.resolve_method(mod.classes[rest[0]], rest[1])
                    if r:
                        return ('func', r)
                if rest[0] in mod.aliases:
                    return self.resolve_abs('.'.join([mod.aliases[rest[0]]] + rest[1:]))
                if rest[0] in mod.assigns and len(rest) == 1:
                    return ('value', (mod, mod.assigns[rest[0]]))
                return None
        if parts[0] == 'sc3':
            return None
        return ('ext', full)

    def _resolve_bases(self):
        for ci in self.classes.values():
            for b in ci.base_exprs:
                dn = dump_name(b)
                r = self.resolve_name(ci.module, dn) if dn else None
                if r and r[0] == 'class':
                    ci.bases.append(r[1])
                else:
                    ci.ext_bases.append(dn or ast.dump(b))
        for ci in self.classes.values():
            self.mro(ci)

    def mro(self, ci):
        if ci.mro is not None:
            return ci.mro
        ci.mro = [ci]   # guard against cycles
        seqs = [list(self.mro(b)) for b in ci.bases] + [list(ci.bases)]
        res = [ci]
        while True:
            seqs = [s for s in seqs if s]
            if not seqs:
                break
            cand = None
            for s in seqs:
                c = s[0]
                if not any(c in t[1:] for t in seqs):
                    cand = c
                    break
            if cand is None:
                # inconsistent hierarchy; fall back to DFS order
                for s in seqs:
                    for c in s:
                        if c not in res:
                            res.append(c)
                break
            res.append(cand)
            for s in seqs:
                if s[0] is cand:
                    del s[0]
        ci.mro = res
        return res

    def resolve_method(self, ci, name, after=None):
        """First definition of `name` along ci's MRO (optionally strictly after
        class `after`, for super())."""
        mro = self.mro(ci)
        start = 0
        if after is not None and after in mro:
            start = mro.index(after) + 1
        for c in mro[start:]:
            if name in c.methods:
                return c.methods[name]
        return None

    def resolve_class_attr(self, ci, name):
        for c in self.mro(ci):
            if name in c.class_assigns:
                return c, c.class_assigns[name]
        return None

    def subclasses(self, ci, strict=False):
        out = []
        for c in self.classes.values():
            if ci in self.mro(c) and (not strict or c is not ci):
                out.append(c)
        return out

    def is_subclass(self, ci, base_fq_or_ci):
        for c in self.mro(ci):
            if c is base_fq_or_ci or c.fq == base_fq_or_ci or c.name == base_fq_or_ci:
                return True
        return False

    # -------------------------------------------------------------- lookup
    def module(self, name):
        if name not in self.modules:
            raise AnalysisError('loader', f'module {name} not found (anchor vanished)')
        return self.modules[name]

    def cls(self, fq):
        if fq not in self.classes:
            raise AnalysisError('loader', f'class {fq} not found (anchor vanished)')
        return self.classes[fq]

    def func(self, fq):
        if fq not in self.functions:
            raise AnalysisError('loader', f'function {fq} not found (anchor vanished)')
        return self.functions[fq]

    def try_func(self, fq):
        return self.functions.get(fq)

    def try_cls(self, fq):
        return self.classes.get(fq)

    def digest(self):
        h = hashlib.sha256()
        for rel in sorted(self.by_relpath):
            h.update(rel.encode())
            h.update(self.by_relpath[rel].digest.encode())
        return h.hexdigest()[:16]


def _sub_bodies(node):
    if isinstance(node, ast.If):
        return [node.body, node.orelse]
    if isinstance(node, ast.Try):
        return [node.body, node.orelse, node.finalbody] + [h.body for h in node.handlers]
    if isinstance(node, ast.With):
        return [node.body]
    return []


import functools


@functools.lru_cache(maxsize=20000)
def canon_snippet(text):
    """A reference fragment written in a rule (`'if now >= head: break'`, `'x = x + 1'`) in the canonical spelling the loader gives
    the analysed source (orderings with < / <=, `x op= e`, un-negated if/else).  Fragments that do not parse on their own (one-line
    if/else, cut-off calls) are returned unchanged."""
    if not isinstance(text, str) or not any(t in text for t in ('>', ' = ', 'not ')):
        return text
    for suffix in ('', ' pass', ': pass'):
        try:
            tree = ast.parse(text + suffix)
        except (SyntaxError, ValueError, RecursionError):
            continue
        try:
            _AugCanon().visit(tree)
            _IfCanon().visit(tree)
            _CmpCanon().visit(tree)
            out = ' '.join(ast.unparse(ast.fix_missing_locations(tree)).split())
        except Exception:
            return text
        if suffix and out.endswith(suffix):
            out = out[:-len(suffix)]
        # keep the author's spelling when nothing but layout changed
        return out if out != ' '.join(text.split()) else text
    return text


class NormStr(str):
    """text of a node; compares equal to a reference fragment in either spelling (see canon_snippet)"""
    __slots__ = ()

    def __eq__(self, other):
        if str.__eq__(self, other) is True:
            return True
        if type(other) is str:
            return str.__eq__(self, canon_snippet(other)) is True
        return False

    def __ne__(self, other):
        return not self.__eq__(other)

    __hash__ = str.__hash__

    def __contains__(self, snippet):
        return str.__contains__(self, snippet) or (type(snippet) is str and str.__contains__(self, canon_snippet(snippet)))

    def startswith(self, prefix, *a):
        return str.startswith(self, prefix, *a) or (type(prefix) is str and str.startswith(self, canon_snippet(prefix), *a))

    def endswith(self, suffix, *a):
        return str.endswith(self, suffix, *a) or (type(suffix) is str and str.endswith(self, canon_snippet(suffix), *a))


def norm(node):
    """Normalised source text of a node: used for construct keys (no line numbers)."""
    try:
        s = ast.unparse(node)
    except Exception:
        s = ast.dump(node)
    s = ' '.join(s.split())
    if len(s) > 160:
        s = s[:157] + '...'
    return NormStr(s)


_PINNED_LOCALS = None


def _pinned_locals():
    global _PINNED_LOCALS
    if _PINNED_LOCALS is None:
        import json
        p = os.path.join(os.path.dirname(os.path.abspath(__file__)), 'refs', 'locals.json')
        try:
            with open(p) as f:
                _PINNED_LOCALS = json.load(f)
        except OSError:
            _PINNED_LOCALS = {}
    return _PINNED_LOCALS


def local_names(fnode):
    """parameters and locally bound names of a function (not nested defs)"""
    out = set()
    if isinstance(fnode, (ast.FunctionDef, ast.AsyncFunctionDef, ast.Lambda)):
        a = fnode.args
        for x in a.posonlyargs + a.args + a.kwonlyargs:
            out.add(x.arg)
        if a.vararg:
            out.add(a.vararg.arg)
        if a.kwarg:
            out.add(a.kwarg.arg)
    for n in ast.walk(fnode):
        if isinstance(n, ast.Name) and isinstance(n.ctx, (ast.Store, ast.Del)):
            out.add(n.id)
        elif isinstance(n, ast.ExceptHandler) and n.name:
            out.add(n.name)
        elif isinstance(n, ast.arg):
            out.add(n.arg)
    return out


class Src(str):
    """Normalised source text of a node.  Containment/find/endswith first try the
    literal text; if that fails and local variables of the function were renamed
    since the reference tree (scverif/refs/locals.json), the snippet is retried with
    those names mapped injectively and consistently onto the new local names, so a
    behaviour-preserving rename of a local does not make a rule report the statement
    as missing."""

    def __new__(cls, text, node=None):
        o = super().__new__(cls, text)
        o.node = node
        o._env = {}
        o._cands = None
        return o

    def _setup(self):
        if self._cands is not None:
            return
        fn = self.node
        while fn is not None and not isinstance(fn, (ast.FunctionDef, ast.AsyncFunctionDef)):
            fn = getattr(fn, '_parent', None)
        self._missing, self._new = set(), set()
        if fn is not None:
            pinned = set(_pinned_locals().get(qualname_of(fn), []))
            cur = local_names(fn)
            self._missing = pinned - cur
            self._new = cur - pinned
        self._cands = True

    def _variants(self, snippet):
        """snippet with renamed locals (consistent with earlier successful matches)"""
        import itertools
        import re
        self._setup()
        if not self._missing or not self._new:
            return
        ids = [m for m in set(re.findall(r'(?<![.\w])([A-Za-z_]\w*)\b', snippet)) if m in self._missing]
        if not ids:
            return
        free = [i for i in ids if i not in self._env]
        used = set(self._env.values())
        pool = [n for n in sorted(self._new) if n not in used]
        for combo in itertools.permutations(pool, len(free)):
            env = dict(self._env)
            env.update(zip(free, combo))
            out = snippet
            for k in ids:
                out = re.sub(rf'(?<![.\w]){re.escape(k)}\b', env[k], out)
            yield out, env

    def _find_bounded(self, snippet, start=0):
        """like str.find, but a snippet that begins with an identifier character must not continue an identifier of the text
        (`data = f()` does not occur in `self._data = f()`); a leading dot is fine (`_sched_add(` occurs in `self._sched_add(`)"""
        if not snippet or not (snippet[0].isalnum() or snippet[0] == '_'):
            return str.find(self, snippet, start)
        i = str.find(self, snippet, start)
        while i > 0 and (self[i - 1].isalnum() or self[i - 1] == '_'):
            i = str.find(self, snippet, i + 1)
        return i

    def __contains__(self, snippet):
        if self._find_bounded(snippet) >= 0:
            return True
        c = canon_snippet(snippet)
        if c is not snippet and self._find_bounded(c) >= 0:
            return True
        for v, env in self._variants(snippet) or ():
            if str.__contains__(self, v):
                self._env = env
                return True
        return False

    def find(self, snippet, *a):
        i = self._find_bounded(snippet, *a[:1]) if len(a) <= 1 else str.find(self, snippet, *a)
        if i >= 0:
            return i
        c = canon_snippet(snippet)
        if c is not snippet:
            i = self._find_bounded(c, *a[:1]) if len(a) <= 1 else str.find(self, c, *a)
            if i >= 0:
                return i
        for v, env in self._variants(snippet) or ():
            i = str.find(self, v, *a)
            if i >= 0:
                self._env = env
                return i
        return -1

    def endswith(self, snippet, *a):
        if str.endswith(self, snippet, *a):
            return True
        if isinstance(snippet, str) and str.endswith(self, canon_snippet(snippet), *a):
            return True
        if isinstance(snippet, str):
            for v, env in self._variants(snippet) or ():
                if str.endswith(self, v, *a):
                    self._env = env
                    return True
        return False

    def rstrip(self, *a):
        return Src(str.rstrip(self, *a), self.node)


def full(node):
    """Whole normalised source text of a node (no truncation)."""
    try:
        s = ast.unparse(node)
    except Exception:
        s = ast.dump(node)
    return Src(' '.join(s.split()), node)


def enclosing_function(node):
    n = getattr(node, '_parent', None)
    while n is not None and not isinstance(n, (ast.FunctionDef, ast.AsyncFunctionDef)):
        n = getattr(n, '_parent', None)
    return n


def enclosing_class(node):
    n = getattr(node, '_parent', None)
    while n is not None and not isinstance(n, ast.ClassDef):
        n = getattr(n, '_parent', None)
    return n


# ---------------------------------------------------------------- local-name canonicalisation
#
# Many one-function clauses compare normalised statement text.  A pure rename of a local variable must not make them
# report the statement as missing.  refs/locals_order.json pins, for every outermost function of the reference tree, its
# local (non-parameter) names in order of first binding.  When the current function binds the same number of locals in
# the same positions but under other names, the in-memory syntax tree is renamed back to the pinned names before any rule
# looks at it (reports then also carry the pinned names; line numbers are the real ones).  If locals were added or removed
# the function is left as it is and the rules judge it as written.

_PINNED_ORDER = None


def _pinned_order():
    global _PINNED_ORDER
    if _PINNED_ORDER is None:
        import json
        p = os.path.join(os.path.dirname(os.path.abspath(__file__)), 'refs', 'locals_order.json')
        try:
            with open(p) as f:
                _PINNED_ORDER = json.load(f)
        except OSError:
            _PINNED_ORDER = {}
    return _PINNED_ORDER


def ordered_locals(fn):
    """(names in order of first binding, banned) for an outermost function: locals that can be renamed consistently over
    the whole subtree (not parameters of this or a nested function, not global/nonlocal, not imported/class/def names)"""
    a = fn.args
    banned = {x.arg for x in a.posonlyargs + a.args + a.kwonlyargs}
    if a.vararg:
        banned.add(a.vararg.arg)
    if a.kwarg:
        banned.add(a.kwarg.arg)
    stores = []
    for n in ast.walk(fn):
        if isinstance(n, (ast.Global, ast.Nonlocal)):
            banned |= set(n.names)
        elif isinstance(n, (ast.FunctionDef, ast.AsyncFunctionDef, ast.Lambda)) and n is not fn:
            b = n.args
            banned |= {x.arg for x in b.posonlyargs + b.args + b.kwonlyargs}
            if b.vararg:
                banned.add(b.vararg.arg)
            if b.kwarg:
                banned.add(b.kwarg.arg)
            if not isinstance(n, ast.Lambda):
                banned.add(n.name)
        elif isinstance(n, ast.ClassDef):
            banned.add(n.name)
        elif isinstance(n, (ast.Import, ast.ImportFrom)):
            for al in n.names:
                banned.add((al.asname or al.name).split('.')[0])
        elif isinstance(n, ast.ExceptHandler) and n.name:
            banned.add(n.name)
        elif isinstance(n, ast.Name) and isinstance(n.ctx, ast.Store):
            stores.append((getattr(n, 'lineno', 0), getattr(n, 'col_offset', 0), n.id))
    out = []
    for _, _, name in sorted(stores):
        if name not in banned and name not in out and not (name.startswith('__') and name.endswith('__')):
            out.append(name)
    return out


def _outer_functions(m):
    def rec(body, prefix, inside):
        for n in body:
            if isinstance(n, (ast.FunctionDef, ast.AsyncFunctionDef)):
                kind = ''
                for d in n.decorator_list:     # a property's setter/deleter has the getter's name
                    if isinstance(d, ast.Attribute) and d.attr in ('setter', 'deleter'):
                        kind = '.' + d.attr
                yield f'{m.name}:{prefix}{n.name}{kind}', n
            elif isinstance(n, ast.ClassDef):
                yield from rec(n.body, f'{prefix}{n.name}.', inside)
            elif isinstance(n, (ast.If, ast.Try, ast.With)):
                for fld in ('body', 'orelse', 'finalbody'):
                    yield from rec(getattr(n, fld, []) or [], prefix, inside)
                for h in getattr(n, 'handlers', []):
                    yield from rec(h.body, prefix, inside)
    yield from rec(m.tree.body, '', False)


def _is_noise(st):
    """statements without any effect on the properties: `pass` and debug/info-level log lines (warnings and errors are what the
    properties mean by "logged" and stay)"""
    if isinstance(st, ast.Pass):
        return True
    if isinstance(st, ast.Expr) and isinstance(st.value, ast.Call) and isinstance(st.value.func, ast.Name) and st.value.func.id == 'print':
        return True
    if isinstance(st, ast.Expr) and isinstance(st.value, ast.Call) and isinstance(st.value.func, ast.Attribute) \
            and st.value.func.attr in ('debug', 'info') and isinstance(st.value.func.value, ast.Name) \
            and st.value.func.value.id in ('_logger', 'logger', 'logging'):
        return True
    return False


class _AugCanon(ast.NodeTransformer):
    """`x = x op e` and `x op= e` are one statement to every rule: the first is rewritten as the second (names and attributes only;
    `x = e op x` is left alone, the operator need not commute)"""

    def visit_Assign(self, node):
        self.generic_visit(node)
        if len(node.targets) == 1 and isinstance(node.targets[0], (ast.Name, ast.Attribute)) and isinstance(node.value, ast.BinOp) \
                and isinstance(node.value.left, (ast.Name, ast.Attribute)) \
                and ast.dump(node.value.left).replace('Load()', 'X') == ast.dump(node.targets[0]).replace('Store()', 'X').replace('Load()', 'X') \
                and not isinstance(node.value.op, (ast.MatMult,)) \
                and not any(isinstance(y, (ast.List, ast.ListComp, ast.Tuple, ast.Dict, ast.Set)) or
                            (isinstance(y, ast.Call) and isinstance(y.func, (ast.Name, ast.Attribute)) and
                             (y.func.id if isinstance(y.func, ast.Name) else y.func.attr) in ('list', 'as_list', 'tuple', 'dict', 'set'))
                            for y in ast.walk(node.value.right)):
            # (with a container on the right the two spellings differ: `x += [..]` changes the object x names, `x = x + [..]` a copy)
            return ast.copy_location(ast.AugAssign(target=node.targets[0], op=node.value.op, value=node.value.right), node)
        return node


class _IfCanon(ast.NodeTransformer):
    """`if not c: A else: B` is `if c: B else: A` (only for a plain else, never for an elif chain)"""

    def visit_If(self, node):
        self.generic_visit(node)
        if node.orelse and not (len(node.orelse) == 1 and isinstance(node.orelse[0], ast.If)) \
                and isinstance(node.test, ast.UnaryOp) and isinstance(node.test.op, ast.Not):
            node.test = node.test.operand
            node.body, node.orelse = node.orelse, node.body
        return node


class _CmpCanon(ast.NodeTransformer):
    """`a > b` is `b < a` and `a >= b` is `b <= a` (single comparisons only): every ordering is written with < / <="""

    def visit_Compare(self, node):
        self.generic_visit(node)
        if len(node.ops) == 1 and isinstance(node.ops[0], (ast.Gt, ast.GtE)):
            op = ast.Lt() if isinstance(node.ops[0], ast.Gt) else ast.LtE()
            return ast.copy_location(ast.Compare(left=node.comparators[0], ops=[op], comparators=[node.left]), node)
        return node


def strip_noise(tree):
    _AugCanon().visit(tree)
    _IfCanon().visit(tree)
    _CmpCanon().visit(tree)
    for par in ast.walk(tree):
        for child in ast.iter_child_nodes(par):
            child._parent = par
    """Drop `pass` and `_logger.debug(...)` statements from statement lists that keep at least one other statement, so
    that position-bound clauses (first statement, exact statement list) are not disturbed by them."""
    for node in ast.walk(tree):
        for fld in ('body', 'orelse', 'finalbody'):
            b = getattr(node, fld, None)
            if isinstance(b, list) and len(b) > 1 and all(isinstance(x, ast.stmt) for x in b):
                keep = [x for x in b if not _is_noise(x)]
                if keep and len(keep) != len(b):
                    b[:] = keep


def _has_effects(e):
    return any(isinstance(x, (ast.Call, ast.Await, ast.Yield, ast.YieldFrom, ast.NamedExpr)) for x in ast.walk(e))


def inline_new_temps(fn, pinned):
    """A local that the reference tree did not have, bound once by `t = E` and read once in the statement that follows in
    the same block, is a temporary introduced by a refactoring (`t = E; return t`): it is inlined again, so that clauses that
    look at the statement see the expression.  Only where this cannot change the order of evaluation: E is free of calls, or
    the reading statement is `return t` / `x = t` / an expression statement that is exactly a call whose first evaluated
    operand is t."""
    names = [c for c in ordered_locals(fn) if c not in pinned]
    if not names:
        return
    for t in names:
        stores = [n for n in ast.walk(fn) if isinstance(n, ast.Name) and n.id == t and isinstance(n.ctx, (ast.Store, ast.Del))]
        loads = [n for n in ast.walk(fn) if isinstance(n, ast.Name) and n.id == t and isinstance(n.ctx, ast.Load)]
        if len(stores) != 1 or len(loads) != 1:
            continue
        done = False
        for node in ast.walk(fn):
            for fld in ('body', 'orelse', 'finalbody'):
                b = getattr(node, fld, None)
                if not (isinstance(b, list) and b and isinstance(b[0], ast.stmt)):
                    continue
                for i, st in enumerate(b[:-1]):
                    if not (isinstance(st, ast.Assign) and len(st.targets) == 1 and st.targets[0] is stores[0]):
                        continue
                    nxt = b[i + 1]
                    if isinstance(nxt, (ast.FunctionDef, ast.AsyncFunctionDef, ast.ClassDef, ast.For, ast.While, ast.With, ast.Try)):
                        continue
                    # the read must be in the header/simple part of the next statement, not in a nested block
                    hdr = [nxt.test] if isinstance(nxt, ast.If) else [nxt]
                    if not any(loads[0] is x for h in hdr for x in ast.walk(h)):
                        continue
                    direct = (isinstance(nxt, ast.Return) and nxt.value is loads[0]) or \
                        (isinstance(nxt, ast.Assign) and nxt.value is loads[0]) or \
                        (isinstance(nxt, ast.Expr) and isinstance(nxt.value, (ast.Yield,)) and nxt.value.value is loads[0])
                    if not direct and _has_effects(st.value):
                        continue
                    # substitute
                    class _Sub(ast.NodeTransformer):
                        def visit_Name(self, n):
                            return st.value if n is loads[0] else n
                    if isinstance(nxt, ast.If):
                        nxt.test = _Sub().visit(nxt.test)
                    else:
                        b[i + 1] = _Sub().visit(nxt)
                    del b[i]
                    done = True
                    for par in ast.walk(fn):          # the moved expression has a new parent
                        for child in ast.iter_child_nodes(par):
                            child._parent = par
                    break
                if done:
                    break
            if done:
                break


def canonicalise_locals(m):
    if not getattr(m, '_noise_stripped', False):
        strip_noise(m.tree)
        m._noise_stripped = True
    pinned = _pinned_order()
    if not pinned or os.environ.get('SCVERIF_NO_CANON'):     # tools/gen_locals.py records the names as they are
        return
    for fq, fn in _outer_functions(m):
        want = pinned.get(fq)
        if want is None:
            continue
        cur = ordered_locals(fn)
        if all(w in cur for w in want) and len(cur) > len(want):
            # every reference local is still there: the extra names are additions, not renames
            inline_new_temps(fn, set(want))
            continue
        if not want:
            continue
        if cur == want or len(cur) != len(want):
            continue
        # only names that disappeared are mapped onto names that appeared (in order of first binding); names that still
        # exist keep their meaning, so a mere re-ordering of statements renames nothing
        missing = [w for w in want if w not in cur]
        new = [c for c in cur if c not in want]
        if not missing or len(missing) != len(new):
            continue
        ren = dict(zip(new, missing))
        # a pinned name that is still in use for something else would collide
        taken = {n.id for n in ast.walk(fn) if isinstance(n, ast.Name)} | {a_.arg for a_ in ast.walk(fn) if isinstance(a_, ast.arg)}
        if any(w in taken and w not in ren for w in ren.values()):
            continue
        for n in ast.walk(fn):
            if isinstance(n, ast.Name) and n.id in ren:
                n.id = ren[n.id]


def qualname_of(node):
    """Qualname of the def/class enclosing (or being) node, from parent links."""
    parts = []
    n = node
    while n is not None:
        if isinstance(n, (ast.FunctionDef, ast.AsyncFunctionDef, ast.ClassDef)):
            parts.append(n.name)
        n = getattr(n, '_parent', None)
    return '.'.join(reversed(parts)) or '<module>'
