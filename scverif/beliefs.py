"""Contradicted-belief rules shared by several properties.

`param or default`: the signature says "None means absent" (default None) while the body tests truthiness, so every falsy
but legitimate argument (0, 0.0, an empty event) is silently replaced by the default.  The rule is armed only for
parameters whose domain contains such a value: identifiers, indexes, times, beats, counts ... (names below, frozen
after reading every site of the repository), and never when the replacement is the same value (`x or 0`, `x or 0.0`)."""

import ast

from .loader import norm, walk_local

# parameters for which 0 / 0.0 is an ordinary, meaningful argument
ZERO_DOMAIN = {
    'node_id', 'id', 'bufnum', 'buf', 'index', 'bus', 'target', 'seconds', 'beats', 'beat', 'refbeat', 'phase', 'quant',
    'offset', 'start', 'start_frame', 'frames', 'num_frames', 'prepend', 'starting_channel', 'time', 'times', 'latency',
    'level', 'levels', 'release_node', 'loop_node', 'client_id', 'channel', 'channels', 'num_channels', 'value',
    'tobin', 'frombin', 'add_action', 'lag', 'delta', 'dur', 'sustain', 'gate', 'amp', 'pos', 'position', 'curve',
}


def or_defaults(fi):
    """(BoolOp node, parameter name, replacement node) for every `param or X` in function `fi`"""
    a = fi.node.args
    params = {x.arg for x in a.posonlyargs + a.args + a.kwonlyargs}
    out = []
    for x in walk_local(fi.node):
        if isinstance(x, ast.BoolOp) and isinstance(x.op, ast.Or) and isinstance(x.values[0], ast.Name) and x.values[0].id in params:
            out.append((x, x.values[0].id, x.values[1]))
    return out


def same_value_replacement(rep):
    return isinstance(rep, ast.Constant) and isinstance(rep.value, (int, float)) and not isinstance(rep.value, bool) and rep.value == 0


def rule_ordefault(ctx, rid, modules, exceptions=None, extra_names=(), least=0):
    """obligation per `param or X` site in `modules` whose parameter is in the zero domain"""
    exceptions = exceptions or {}
    names = ZERO_DOMAIN | set(extra_names)
    n = 0
    for mname in modules:
        m = ctx.repo.module(mname)
        for fi in m.functions.values():
            for node, p, rep in or_defaults(fi):
                if p not in names or same_value_replacement(rep):
                    continue
                n += 1
                key = f'{fi.fq}:{p} or ...'
                if key in exceptions:
                    ctx.ob(rid, key, True, exceptions[key], node, m, nontrivial=False)
                    continue
                ctx.ob(rid, key, False,
                       f'`{norm(node)[:70]}` tests the truthiness of `{p}`: a legitimate falsy argument (0, 0.0, empty) is replaced by the '
                       f'default although only None means "not given" (use `is None`)', node, m)
            # the statement form of the same belief: `if not param: param = default` (or `if not param: return/raise`)
            a = fi.node.args
            params = {x.arg for x in a.posonlyargs + a.args + a.kwonlyargs}
            for x in walk_local(fi.node):
                if not isinstance(x, ast.If):
                    continue
                # the loader writes `if not c: A else: B` as `if c: B else: A`: look at both spellings
                cands = []
                if isinstance(x.test, ast.UnaryOp) and isinstance(x.test.op, ast.Not) and isinstance(x.test.operand, ast.Name):
                    cands.append((x.test.operand.id, x.body))
                if isinstance(x.test, ast.Name) and x.orelse:
                    cands.append((x.test.id, x.orelse))
                for pname, branch in cands:
                    if pname not in params or pname not in names:
                        continue
                    rebinds = any(isinstance(y, ast.Assign) and any(isinstance(t, ast.Name) and t.id == pname for t in y.targets) for y in branch)
                    if not rebinds:
                        continue
                    n += 1
                    key = f'{fi.fq}:if not {pname}'
                    if key in exceptions:
                        ctx.ob(rid, key, True, exceptions[key], x, m, nontrivial=False)
                        continue
                    ctx.ob(rid, key, False,
                           f'`if not {pname}: {pname} = ...` replaces every falsy `{pname}` (0, 0.0, empty) by the default although only None '
                           f'means "not given" (use `is None`)', x, m)
    if least:
        ctx.require(n >= least, rid, f'only {n} `param or default` sites in the zero domain found')
    return n
