"""Armed-ness self-test (thorough tier).

Every rule module lists MUTANTS: small text edits of the *current* /repo source
applied as an in-memory overlay (nothing is written to disk, sc3 is never
run).  The named rule must report a finding that the unmodified tree does not
have.  REPAIRS are overlays that repair a known finding: the rule must then be
silent for that construct.  An edit whose `old` text is no longer present is
reported as skipped (the code was refactored), never as a verdict.

This says something about the checker, never about /repo.
"""

import importlib
import os
from concurrent.futures import ProcessPoolExecutor

from .loader import Repo, AnalysisError, repo_root
from . import report


def _apply(m):
    """-> overlay dict or None if not applicable."""
    root = repo_root()
    overlay = {}
    if 'rename' in m:
        # behaviour-preserving rename of locals inside one function (EQUIV mutants)
        import re
        p = os.path.join(root, m['file'])
        with open(p, encoding='utf-8') as f:
            src = f.read()
        a = src.find(m['start'])
        b = src.find(m['end'], a + 1) if a >= 0 else -1
        if a < 0 or b < 0:
            return None
        seg = src[a:b]
        for o, n in m['rename']:
            if not re.search(rf'(?<![.\w]){o}\b', seg):
                return None
            seg = re.sub(rf'(?<![.\w]){o}\b', n, seg)
        return {m['file']: src[:a] + seg + src[b:]}
    edits = m.get('edits') or [(m['file'], m['old'], m['new'])]
    for file, old, new in edits:
        src = overlay.get(file)
        if src is None:
            p = os.path.join(root, file)
            if not os.path.exists(p):
                if old == '':
                    overlay[file] = new
                    continue
                return None
            with open(p, encoding='utf-8') as f:
                src = f.read()
        n = src.count(old)
        want = m.get('count', 1)
        if n != want or old == '':
            return None
        overlay[file] = src.replace(old, new)
    return overlay


def _findings(pid, overlay):
    mod = importlib.import_module(f'scverif.rules.{pid.lower()}')
    repo = Repo(overlay=overlay)
    ctx = report.Ctx(pid, repo, 'quick')
    mod.run(ctx)
    return {(f.rule, f.key): f.msg for f in ctx.findings()}


def _run_one(args):
    pid, kind, m, base = args
    try:
        overlay = _apply(m)
        if overlay is None:
            return {'rule': m['rule'], 'name': m['name'], 'status': 'skipped',
                    'detail': 'edit no longer applies to the current source'}
        try:
            got = _findings(pid, overlay)
        except AnalysisError as e:
            if kind == 'mutant' and m.get('accept_analysis_error'):
                return {'rule': m['rule'], 'name': m['name'], 'status': 'caught',
                        'detail': f'fail-closed: {e.reason}'}
            return {'rule': m['rule'], 'name': m['name'], 'status': 'ERROR', 'detail': str(e)}
        if kind == 'mutant':
            new = [k for k in got if k not in base and k[0] == m['rule']]
            if new:
                return {'rule': m['rule'], 'name': m['name'], 'status': 'caught', 'detail': f'{new[0][1]} -- {got[new[0]]}'[:300]}
            other = [k for k in got if k not in base]
            return {'rule': m['rule'], 'name': m['name'], 'status': 'MISSED',
                    'detail': f'other rules fired: {other[:2]}' if other else 'no new finding'}
        else:
            still = [k for k in got if k[0] == m['rule'] and m['key_contains'] in k[1]]
            new = [k for k in got if k not in base]
            if still or new:
                return {'rule': m['rule'], 'name': m['name'], 'status': 'FALSE-ALARM',
                        'detail': str((still + new)[:2])}
            return {'rule': m['rule'], 'name': m['name'], 'status': 'silent-ok'}
    except Exception as e:  # checker bug
        import traceback
        return {'rule': m['rule'], 'name': m['name'], 'status': 'ERROR',
                'detail': traceback.format_exc()[-400:]}


def selftest(pid, jobs=16):
    mod = importlib.import_module(f'scverif.rules.{pid.lower()}')
    muts = list(getattr(mod, 'MUTANTS', []))
    reps = list(getattr(mod, 'REPAIRS', []))
    for e in getattr(mod, 'EQUIV', []):
        e = dict(e)
        e.setdefault('key_contains', '\x00never')
        e.setdefault('rule', 'equiv')
        reps.append(e)
    try:
        base = _findings(pid, None)
    except AnalysisError as e:
        return {'mutants': len(muts), 'repairs': len(reps), 'summary': {'ERROR': 1},
                'results': [{'rule': e.rule, 'name': 'baseline', 'status': 'ERROR', 'detail': e.reason}]}
    work = [(pid, 'mutant', m, base) for m in muts] + [(pid, 'repair', m, base) for m in reps]
    results = []
    if work:
        if jobs > 1 and len(work) > 2:
            with ProcessPoolExecutor(max_workers=min(jobs, len(work))) as ex:
                results = list(ex.map(_run_one, work))
        else:
            results = [_run_one(w) for w in work]
    summ = {}
    for r in results:
        summ[r['status']] = summ.get(r['status'], 0) + 1
    return {'mutants': len(muts), 'repairs': len(reps), 'summary': summ, 'results': results}
