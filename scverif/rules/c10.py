"""C10 - real-time and non-real-time modes run the same program identically."""

import ast
import inspect
import random as _stdlib_random

from ..loader import norm, full, walk_local, walk_local_ordered, qualname_of, dump_name
from .. import util as U
from .c05 import roots_of, rule_exact

EXPLANATION = (
    'Both branches of every RT/NRT mode switch in the clocks are extracted and compared after normalisation (the '
    'queued-time expression, the infinity guard, the item preparation); the four wake-up protocols (SystemClock, '
    'TempoClock, AppClock scheduler, NRT ClockTask) are compared for the same steps; randomness is checked by '
    'ownership: no draw from the module-level `random` API anywhere in sc3, every random builtin draws from '
    'main._rgen with a call that binds to the stdlib Random signature, the seed setter installs a fresh generator, new '
    'threads inherit the current thread\'s generator; and every iteration over a set-typed container in the library is '
    'enumerated against a frozen, reasoned triage (order-insensitive body, snapshot for mutation only, or refused).')
LEVEL_TEXT = ('static sibling comparison of RT/NRT branches and wake-up protocols; ownership of random draws; arity check of '
              'Random calls; triage of unordered-container iteration. Equality of two executions is not decided.')
LEVEL_NOTE = 'set iteration triage is a reasoned list; a new site is a violation until triaged'
LEVEL_TEXT_ADD = ' Also: logical-time entry points never reach a physical-time read; functions that change a tempo map re-key pending NRT tasks; one NRT queue entry per (clock, task); NRT clear; NRT logical-time store is unconditional. Two mode differences are known findings.'
LEVEL_TEXT_ADD += ' Rounds e-f: nrt branch of AppClock.sched normalises its delta like the rt scheduler; queue contract and score rules shared with C09/C07; per-thread generator (known finding).'
LEVEL_TEXT = (globals().get('LEVEL_TEXT') or EXPLANATION) + LEVEL_TEXT_ADD
TECHNIQUE = 'static analysis: sibling-branch normalisation and comparison + who-may-call/ownership rules + unordered-iteration census'

SET_ITER_TRIAGE = {
    # (function fq, iterable text) -> reason it cannot reach observable order
    ('sc3.base.clock:MetaTempoClock.stop_all', 'list(cls._all)'): 'stops every clock; order-insensitive',
    ('sc3.base.clock:MetaTempoClock.__on_cmd_period', 'cls.all'): 'clears every non-permanent clock; order-insensitive',
    ('sc3.base.responders:AbstractResponderFunc._all_func_proxies', 'cls._all_func_proxies'): 'groups proxies by type for introspection; result is re-sorted by callers or unordered by contract',
    ('sc3.base.responders:AbstractResponderFunc._all_enabled', 'cls._all_func_proxies'): 'introspection helper',
    ('sc3.base.responders:AbstractResponderFunc._all_disabled', 'cls._all_func_proxies'): 'introspection helper',
    ('sc3.base.responders:OscFunc._trace_func_hide_status', 'srv.Server.all'): 'membership test over server addresses',
    ('sc3.synth.server:MetaServer.default', 'cls.all'): 'notifies each server of the default change; one message per distinct target',
    ('sc3.synth.server:MetaServer._resume_status_threads', 'cls.all'): 'per-server, independent targets',
    ('sc3.synth.server:MetaServer.quit_all', 'cls.all'): 'per-server, independent targets',
    ('sc3.synth.server:MetaServer.free_all', 'cls.all'): 'per-server, independent targets',
    ('sc3.synth.server:MetaServer.hard_free_all', 'cls.all'): 'per-server, independent targets',
    ('sc3.synth.server:Server.addr', 'type(self).all'): 'renaming lookup; order-insensitive',
    ('sc3.synth.synthdef:SynthDef.add', 'servers'): 'one send per distinct server address',
    ('sc3.synth.synthdef:SynthDef.send', 'servers'): 'one send per distinct server address',
    ('sc3.synth.synthdef:SynthDef.store', 'lib.servers'): 'one send per distinct server address',
    ('sc3.synth.synthdef:SynthDef.add', 'srv.Server.all'): 'builds a set of booted servers',
    ('sc3.synth.synthdef:SynthDef.send', 'srv.Server.all'): 'builds a list of booted servers; one send per distinct address',
}


def rule_mode(ctx):
    ctx.rule('C10.mode', 'for every clock method with a mode switch the NRT and RT branches prepare the item the same way and '
                         'queue the same time expression (AppClock RT: the documented drifting scheduler; its NRT branch '
                         'must mirror SystemClock.sched)')
    m = ctx.repo.module('sc3.base.clock')

    def split(f):
        pre, sw = [], None
        for s in U.body_nodoc(f.node):
            if isinstance(s, ast.If) and 'NRT_MODE' in norm(s.test) and '.mode' in norm(s.test):
                sw = s
                break
            pre.append(s)
        return pre, sw

    def normal(stmts, recv):
        """normalise a branch: strip `with`, rename the queue call"""
        out = []
        for s in stmts:
            if isinstance(s, ast.With):
                out.extend(normal(s.body, recv))
                continue
            t = norm(s)
            for q in (f'ClockTask(', f'{recv}._sched_add_nrt(', f'{recv}._sched_add('):
                if t.startswith(q):
                    arg0 = norm(s.value.args[0])
                    item = norm(s.value.args[2] if q == 'ClockTask(' else s.value.args[1])
                    t = f'QUEUE({arg0}, {item})'
            out.append(t)
        return out
    n = 0
    for cname in ('SystemClock', 'TempoClock'):
        ci = m.classes[cname]
        for mn in ('sched', 'sched_abs'):
            f = ci.methods[mn]
            recv = 'cls' if f.is_classmethod else 'self'
            pre, sw = split(f)
            ctx.require(sw is not None, 'C10.mode', f'{f.fq}: mode switch not found')
            a, b = normal(sw.body, recv), normal(sw.orelse, recv)
            n += 1
            ctx.ob('C10.mode', f'{f.fq}:nrt-vs-rt', a == b and any(x.startswith('QUEUE(') for x in a),
                   f'NRT branch {a} and RT branch {b} must compute the same thing', sw, m)
    # AppClock.sched NRT vs SystemClock.sched NRT (including item preparation)
    a = m.classes['AppClock'].methods['sched']
    s = m.classes['SystemClock'].methods['sched']
    pa, swa = split(a)
    ps, sws = split(s)
    ctx.require(swa is not None and sws is not None, 'C10.mode', 'sched mode switches not found')
    na = normal(pa, 'cls') + normal(swa.body, 'cls')
    ns = normal(ps, 'cls') + normal(sws.body, 'cls')
    # argument normalisations of AppClock's rt path (Scheduler.sched: a delta of None means now) must be made by its nrt branch too;
    # apart from them the nrt branch mirrors SystemClock's
    ss = m.classes['Scheduler'].methods['sched']
    dparam = ss.params[1]
    rt_norms = [norm(x).replace(dparam, a.params[1]) for x in ss.node.body if isinstance(x, ast.If) and
                isinstance(U.compare_parts(x.test) and U.compare_parts(x.test)[2], ast.Constant) and
                U.compare_parts(x.test)[1] is ast.Is and U.compare_parts(x.test)[2].value is None and norm(U.compare_parts(x.test)[0]) == dparam]
    missing = [x for x in rt_norms if x not in na]
    ctx.ob('C10.mode', f'{a.fq}:nrt-normalises-like-rt', not missing,
           f'AppClock rt (Scheduler.sched) normalises its delta with {rt_norms}; the nrt branch lacks {missing}: sched(None, f) runs now in rt '
           f'and raises TypeError in nrt', swa, m)
    na_core = [x for x in na if x not in rt_norms]
    ctx.ob('C10.mode', f'{a.fq}:nrt-vs-SystemClock.sched', na_core == ns,
           f'AppClock.sched NRT {na_core} must mirror SystemClock.sched NRT {ns}', swa, m)
    # other switches: NRT branch is `return` (nothing to do without a thread) - enumerate them all
    sw_all = []
    for fi in m.functions.values():
        for t in walk_local(fi.node):
            if isinstance(t, ast.If) and 'NRT_MODE' in norm(t.test) and '.mode' in norm(t.test):
                sw_all.append((fi, t))
    # functions that change a TempoClock's beats<->seconds map after construction
    MAPF = ('_base_seconds', '_base_beats', '_tempo', '_beat_dur')
    tcl = m.classes['TempoClock']
    map_writers = {}
    for fi in list(tcl.methods.values()) + list(tcl.setters.values()):
        if fi.node.name == '__init__':
            continue
        if any(isinstance(x, ast.Assign) and any(U.is_self_attr(t_) and t_.attr in MAPF for t_ in x.targets) for x in walk_local(fi.node)):
            map_writers[fi.fq] = fi
    ctx.require(len(map_writers) >= 2, 'C10.mode', f'map writers found: {sorted(map_writers)}')
    REKEY = ['_libsc3.main._clock_scheduler.rekey(self)']
    rekeyers = {f2.fq for f2, t2 in sw_all if [norm(x) for x in t2.body] in (REKEY, REKEY + ['return'])}
    for fq, fi in sorted(map_writers.items()):
        # the re-keying mode switch is in the writer itself or in a self-helper it calls (after the map writes)
        has = bool(rekeyers & set(U.self_closure(ctx.repo, tcl, fi)))
        ctx.ob('C10.mode', f'{fq}:map-writer-has-nrt-counterpart', has,
               'a function that changes the tempo map must re-key pending NRT tasks (RT queues are keyed by beat)', fi.node, m)
    # NRT queue entries remember their beat, are re-keyed with the clock's current map, and there is one entry per (clock, task)
    ct = m.classes['ClockTask']
    init = ct.methods['__init__']
    bparam = init.params[1]
    src = full(init.node)
    ok = U.before(src, f'self.beats = {bparam}', f'scheduler.add(clock.beats2secs({bparam}), self)')
    ctx.ob('C10.mode', f'{init.fq}:remembers-beat', ok, 'a pending NRT task keeps the beat it was scheduled for', init.node, m)
    wk = ct.methods['_wakeup']
    adds = [c for c in U.calls(wk.node) if U.method_name(c) == 'add' and norm(c.func.value) == 'self.scheduler']
    ok = bool(adds) and all(norm(c.args[0]) == 'self.clock.beats2secs(self.beats)' for c in adds) and \
        (U.before(full(wk.node), 'self.beats = ', 'self.scheduler.add(self.clock.beats2secs(self.beats), self)') or
         U.before(full(wk.node), 'self.beats += ', 'self.scheduler.add(self.clock.beats2secs(self.beats), self)'))
    ctx.ob('C10.mode', f'{wk.fq}:requeue-remembers-beat', ok,
           'a re-queued NRT task records its new beat and is queued at beats2secs(that beat), so a later re-key finds it', wk.node, m)
    rk = m.classes['ClockScheduler'].methods.get('rekey')
    ctx.require(rk is not None, 'C10.mode', 'ClockScheduler.rekey not found')
    cp = rk.params[1]
    loops = [x for x in walk_local(rk.node) if isinstance(x, ast.For)]
    ok = False
    if len(loops) == 1:
        lp = loops[0]
        it = norm(lp.iter)
        tv = norm(lp.target.elts[1]) if isinstance(lp.target, ast.Tuple) and len(lp.target.elts) == 2 else None
        body = [norm(x) for x in lp.body]
        ok = it in ('list(self.queue)', 'tuple(self.queue)') and tv is not None and \
            body == [f'if {tv}.clock is {cp}: self.add({cp}.beats2secs({tv}.beats), {tv})']
    ctx.ob('C10.mode', f'{rk.fq}', ok, 'rekey re-queues exactly the pending tasks of that clock at beats2secs(their beat), '
                                      'iterating over a copy of the queue', rk.node, m)
    cl = m.classes['ClockScheduler'].methods.get('clear')
    ctx.require(cl is not None, 'C10.mode', 'ClockScheduler.clear not found')
    cp = cl.params[1]
    loops = [x for x in walk_local(cl.node) if isinstance(x, ast.For)]
    ok = False
    if len(loops) == 1:
        lp = loops[0]
        tv = norm(lp.target.elts[1]) if isinstance(lp.target, ast.Tuple) and len(lp.target.elts) == 2 else None
        ok = norm(lp.iter) in ('list(self.queue)', 'tuple(self.queue)') and tv is not None and \
            [norm(x) for x in lp.body] == [f'if {tv}.clock is {cp}: self.queue.remove({tv})']
    ctx.ob('C10.mode', f'{cl.fq}', ok, 'clear(clock) removes exactly the pending tasks of that clock, iterating over a copy', cl.node, m)
    from .c09 import identity_fields
    idf = identity_fields(ctx.repo, ct)
    ctx.ob('C10.mode', f'{ct.fq}:one-entry-per-task-and-clock', idf == {'clock', 'task'},
           f'RT queues replace the pending entry of a task that is scheduled again (TaskQueue.add); the NRT wrapper must compare '
           f'equal exactly when clock and task are the same objects; identity fields found: {idf}', ct.node, m)
    for fi, t in sw_all:
        if fi.qualname.split('.')[-1] in ('sched', 'sched_abs') and fi.qualname.split('.')[0] in ('SystemClock', 'TempoClock', 'AppClock'):
            continue
        nb = [norm(x) for x in t.body]
        if fi.qualname.endswith('.running'):
            ok = nb == ['return True']
            why = 'an NRT clock is always running'
        elif fi.qualname.endswith('._tick'):
            ok = nb == ['return None']
            why = 'no ticking thread in NRT'
        elif fi.qualname.endswith('.clear'):
            recv = 'cls' if fi.is_classmethod else 'self'
            ok = nb == [f'_libsc3.main._clock_scheduler.clear({recv})', 'return']
            why = 'RT clear empties the clock\'s queue; the NRT counterpart removes the pending tasks of this clock from the global queue'
        elif fi.fq in map_writers or nb[:1] == REKEY:
            # re-keying is the required counterpart in a map writer; in a helper it is harmless anywhere
            # (with an unchanged map it re-queues every task at the time it already has)
            ok = nb in (REKEY, REKEY + ['return']) or (fi.fq in map_writers and nb == ['return'] and
                                                       bool((rekeyers - {fi.fq}) & set(U.self_closure(ctx.repo, tcl, fi))))
            why = ('the RT branch notifies the clock thread, whose beat-keyed queue then follows the new map; the NRT '
                   'counterpart is re-keying the pending tasks of this clock')
        else:
            ok = nb == ['return']
            why = 'thread/condition handling has no NRT counterpart'
        ctx.ob('C10.mode', f'{fi.fq}:nrt-branch[{norm(t.test)}]', ok, f'NRT branch is {nb}: {why}', t, m, nontrivial=False)
        n += 1
    ctx.require(n >= 12, 'C10.mode', f'only {n} mode switches found')
    # entry points documented to act at the caller's logical time must not reach a physical-time read:
    # in NRT physical == logical, so such a read is invisible there and shifts every later time in RT
    from .c12 import self_closure
    from .c05 import phys_in
    tcl = m.classes['TempoClock']
    for f in (tcl.setters['tempo'], tcl.setters['beats'], tcl.methods['beats'], tcl.methods['sched'], tcl.methods['sched_abs'],
              tcl.methods['play'], tcl.methods['next_time_on_grid'], tcl.methods['next_bar'], tcl.methods['time_to_next_beat']):
        phys = [x.fq for x in self_closure(ctx, tcl, f).values() if phys_in(x.node)]
        ctx.ob('C10.mode', f'{f.fq}:logical-root', not phys,
               f'{f.fq} acts at the logical time but reaches a physical-time read through {phys}; NRT hides this, RT results '
               f'then depend on wake-up jitter', f.node, m)
    # two mode differences that are recorded, not repaired (known findings; see DESIGN.md section 5)
    oi = ctx.repo.module('sc3.base._oscinterface')
    rt = oi.functions['OscInterface._get_timetag']
    nr = oi.functions['OscNrtInterface._get_timetag']
    rt_uncond = any(isinstance(x, ast.AugAssign) and norm(x) == f'{rt.params[1]} += {rt.params[0]}' and
                    not any(isinstance(p_, ast.If) and 'current_tt' in norm(p_.test) for p_ in U.parent_chain(x)) for x in walk_local(rt.node))
    nr_cond = any(isinstance(x, ast.If) and norm(x.test) == '_libsc3.main.current_tt is not _libsc3.main.main_tt' for x in walk_local(nr.node)) or \
        '_get_logical_time' in full(nr.node)
    ctx.ob('C10.mode', f'{nr.fq}:function-task-stamp', not (rt_uncond and nr_cond),
           'RT adds the send instant to every latency; NRT adds it only inside routines, so a bundle sent by a plain Function task awakened '
           'at t with latency L is stamped t + L in RT and L (from zero) in NRT', nr.node, oi)
    st = tcl.methods['stop']
    sw_stop = [t for t in st.node.body if isinstance(t, ast.If) and 'NRT_MODE' in norm(t.test)]
    nrt_noop = bool(sw_stop) and [norm(x) for x in sw_stop[0].body] == ['return']
    ctx.ob('C10.mode', f'{st.fq}:nrt-cancels-pending', not nrt_noop,
           'TempoClock.stop() ends the clock thread in RT (pending tasks are never awakened, running() becomes False) and does nothing in '
           'NRT: tasks pending on a stopped clock keep running in the NRT run', st.node, m)
    # the mode property
    for cname in ('MetaClock', 'TempoClock'):
        p = m.classes[cname].methods['mode']
        src = full(p.node)
        ok = 'return _libsc3.main.NRT_MODE' in src and 'elif _libsc3.main is _libsc3.RtMain: return _libsc3.main.RT_MODE' in src
        ctx.ob('C10.mode', f'{p.fq}', ok, 'mode is decided by the installed main class (or pure-NRT flag)', p.node, m)


def rule_wake(ctx):
    ctx.rule('C10.wake', 'all wake-up sites run: _update_logical_time(t); delta = task.__awake__(clock); re-queue when delta is '
                         'int/float, not bool and not inf (as sched drops an infinite time) at t + delta in the clock unit; StopStream dropped; Exception logged')
    m = ctx.repo.module('sc3.base.clock')
    sites = ['SystemClock._run', 'TempoClock._run', 'Scheduler._wakeup', 'ClockTask._wakeup']
    sig = {}
    for q in sites:
        f = m.functions[q]
        tries = [t for t in walk_local(f.node) if isinstance(t, ast.Try) and any(U.method_name(c) == '__awake__' for c in U.calls(ast.Module(body=t.body, type_ignores=[])))]
        ctx.require(len(tries) == 1, 'C10.wake', f'{q}: wake-up block not found')
        t = tries[0]
        steps = []
        for s in t.body:
            src = norm(s)
            if '_update_logical_time(' in src:
                steps.append('update')
            elif '__awake__(' in src:
                steps.append('awake')
                aw = [c for c in U.calls(s) if U.method_name(c) == '__awake__'][0]
                steps.append('awake-arg:' + ('clock' if norm(aw.args[0]) in ('cls', 'self', 'self._clock', 'self.clock') else norm(aw.args[0])))
            elif isinstance(s, ast.If) and 'isinstance(delta' in src:
                # the numeric test; a conjunct that only filters infinity is the finite-time rule's business (C08.resched) and may
                # equally sit inside the branch
                cj = [norm(c) for c in U.conjuncts(s.test) if 'inf' not in norm(c)]
                steps.append('pred:' + ' and '.join(cj))
                steps.append('requeue')
        handlers = [(norm(h.type) if h.type else 'bare', 'pass' if all(isinstance(x, ast.Pass) for x in h.body) else
                     ('log' if any('_logger.error' in norm(x) for x in h.body) and not any(isinstance(y, ast.Raise) for x in h.body for y in ast.walk(x)) else 'other'))
                    for h in t.handlers]
        sig[q] = (tuple(steps), tuple(handlers))
    ref = (('update', 'awake', 'awake-arg:clock', 'pred:isinstance(delta, (int, float)) and not isinstance(delta, bool)', 'requeue'),
           (('stm.StopStream', 'pass'), ('Exception', 'log')))
    for q, s in sig.items():
        steps = tuple(x for x in s[0] if x not in ())
        ctx.ob('C10.wake', f'{m.name}:{q}:protocol', (steps, s[1]) == ref, f'{q} wake-up protocol {s} differs from the common one {ref}', m.functions[q].node, m)
    # what `update` installs: NRT stores the scheduled time unconditionally (a late task sees the time it was scheduled for,
    # as in RT, where the store is skipped only inside an awake call)
    mm = ctx.repo.module('sc3.base.main')
    u = mm.classes['NrtMain'].methods['_update_logical_time']
    b = [norm(x) for x in U.body_nodoc(u.node)]
    ctx.ob('C10.wake', f'{u.fq}:stores-scheduled-time', b == [f'cls.main_tt._m_seconds = {u.params[1]}'],
           f'NRT _update_logical_time must be the plain store of its argument; found {b}: a clamped, rounded or conditional store gives '
           f'late tasks a different logical time than the RT clocks do', u.node, mm)
    ur = mm.classes['RtMain'].methods['_update_logical_time']
    b = [norm(x) for x in U.body_nodoc(ur.node)]
    ctx.ob('C10.wake', f'{ur.fq}:stores-scheduled-time', b == [f'with cls._main_lock: if not cls._in_awake_call: cls.main_tt._m_seconds = {ur.params[1]}'],
           f'RT _update_logical_time stores its argument under the main lock unless a task is being awakened; found {b}', ur.node, mm)
    # the NRT loop pops in time order and hands the queued time
    r = m.functions['ClockScheduler.run']
    ctx.ob('C10.wake', f'{r.fq}', 'while not self.queue.empty(): time, clock_task = self.queue.pop() clock_task._wakeup(time)' in full(r.node),
           'NRT runs the single global queue in time order', r.node, m)


def rule_rng(ctx):
    ctx.rule('C10.rng', 'no draw from the module-level random API; every draw goes through main._rgen with a call the stdlib '
                        'Random signature accepts; rand_seed installs a fresh Random(x); new threads inherit the current '
                        'thread generator; nothing reseeds an inherited generator in place')
    repo = ctx.repo
    # whose generator a draw uses: main._rgen goes through the process-wide `current_tt`, which a clock thread points at the routine
    # it is running; a draw made by another thread at that moment consumes from that routine's stream
    pr = repo.cls('sc3.base.main:Process')
    rg = pr.properties.get('_rgen') if hasattr(pr, 'properties') else None
    rg = rg or pr.methods.get('_rgen')
    if rg is not None:
        src_ = full(rg.node)
        per_thread = any(t in src_ for t in ('threading.local', 'current_thread()', 'get_ident()', '_tls'))
        ctx.ob('C10.rng', f'{rg.fq}:per-thread', per_thread,
               'main._rgen is `current_tt._rgen` with `current_tt` a process-wide attribute: in real-time mode a draw made by the main thread while '
               'a clock thread is inside a routine is taken from that routine\'s seeded generator (nrt is single-threaded)', rg.node, rg.module)
    n = 0
    for m in repo.modules.values():
        for node in ast.walk(m.tree):
            if isinstance(node, ast.Call):
                fn = dump_name(node.func) or ''
                if fn.startswith('random.') and m.aliases.get('random') == 'random':
                    n += 1
                    ok = fn == 'random.Random'
                    ctx.ob('C10.rng', f'{m.name}:{qualname_of(node)}:{norm(node)[:50]}', ok,
                           f'{fn}() draws from (or reseeds) the process-wide generator: a routine\'s random stream would depend '
                           f'on what other code draws', node, m)
                if fn.endswith('.seed') and '_rgen' in fn:
                    ctx.ob('C10.rng', f'{m.name}:{qualname_of(node)}:{norm(node)[:50]}', False,
                           'reseeding a generator in place also reseeds every thread that inherited it', node, m)
            if isinstance(node, ast.ImportFrom) and node.module == 'random' and node.level == 0:
                ctx.ob('C10.rng', f'{m.name}:from-random-import', False, 'module-level random functions imported', node, m)
    # draws
    draws = 0
    for fi in repo.functions.values():
        for c in U.calls(fi.node):
            if isinstance(c.func, ast.Attribute) and isinstance(c.func.value, ast.Attribute) and c.func.value.attr in ('_rgen', '_m_rgen'):
                meth = c.func.attr
                recv = norm(c.func.value)
                draws += 1
                key = f'{fi.fq}:{norm(c)[:60]}'
                if fi.module.name == 'sc3.base.builtins':
                    ctx.ob('C10.rng', key + ':receiver', recv == '_libsc3.main._rgen',
                           f'builtins must draw from the current thread generator main._rgen, not {recv}', c, fi.module)
                target = getattr(_stdlib_random.Random, meth, None)
                ok = target is not None
                why = f'random.Random has no method {meth}'
                if ok and meth not in ('getstate', 'setstate'):
                    try:
                        args = [0] * len([a for a in c.args if not isinstance(a, ast.Starred)])
                        kwargs = {k.arg: 0 for k in c.keywords if k.arg}
                        inspect.signature(target).bind(None, *args, **kwargs)
                        why = 'binds'
                    except TypeError as e:
                        ok = False
                        why = f'call does not bind to random.Random.{meth}{inspect.signature(target)}: {e}'
                ctx.ob('C10.rng', key + ':signature', ok, why, c, fi.module)
    ctx.require(draws >= 25, 'C10.rng', f'only {draws} generator draws found')
    tt = repo.cls('sc3.base.stream:TimeThread')
    st = tt.setters['rand_seed']
    b = [norm(s) for s in U.body_nodoc(st.node)]
    x = st.params[1]
    ctx.ob('C10.rng', f'{st.fq}', b == [f'self._rand_seed = {x}', f'self._rgen = random.Random({x})'],
           f'seeding must install a fresh generator; found {b}', st.node, st.module)
    init = tt.methods['__init__']
    ctx.ob('C10.rng', f'{init.fq}:inherit', 'self._rgen = _libsc3.main.current_tt._rgen' in full(init.node),
           'a new thread inherits the generator of the thread that creates it', init.node, init.module)
    mt = repo.cls('sc3.base.stream:_MainTimeThread')
    g = mt.methods['_rgen']
    ctx.ob('C10.rng', f'{g.fq}', full(g.node).endswith('return _libsc3.main._m_rgen'), 'main thread uses the process generator object', g.node, g.module)
    p = repo.func('sc3.base.main:Process._rgen')
    ctx.ob('C10.rng', f'{p.fq}', full(p.node).endswith('return cls.current_tt._rgen'), 'main._rgen is the current thread generator', p.node, p.module)
    # writers of _rgen
    writers = []
    for fi in repo.functions.values():
        for s in walk_local(fi.node):
            if isinstance(s, (ast.Assign, ast.AugAssign)):
                for t in U.assigned_targets(s):
                    if isinstance(t, ast.Attribute) and t.attr in ('_rgen', '_m_rgen'):
                        writers.append(fi.fq)
    ctx.ob('C10.rng', 'rgen:writers', sorted(writers) == sorted(['sc3.base.main:Process.__init__', 'sc3.base.stream:TimeThread.__init__', 'sc3.base.stream:TimeThread.rand_seed.setter']),
           f'generator writers: {sorted(writers)}', None, tt.module)


def set_typed_names(repo):
    names = set()
    for m in repo.modules.values():
        for n in ast.walk(m.tree):
            if isinstance(n, ast.Assign):
                v = n.value
                isset = (isinstance(v, ast.Call) and norm(v.func) in ('set', 'weakref.WeakSet', 'frozenset')) or isinstance(v, (ast.Set, ast.SetComp))
                if isset:
                    for t in n.targets:
                        if isinstance(t, ast.Attribute):
                            names.add(t.attr)
                        elif isinstance(t, ast.Name):
                            names.add(t.id)
    return names


def rule_det(ctx):
    ctx.rule('C10.det', 'every iteration over a set-typed container is order-insensitive (frozen triage), explicitly sorted, or '
                        'refused: iteration order of sets of id-hashed objects changes between fresh runs')
    repo = ctx.repo
    names = set_typed_names(repo)
    n = 0
    for m in repo.modules.values():
        if not (m.name.startswith('sc3.base') or m.name.startswith('sc3.seq') or m.name.startswith('sc3.synth')):
            continue
        for node in ast.walk(m.tree):
            it = None
            if isinstance(node, ast.For):
                it = node.iter
            elif isinstance(node, ast.comprehension):
                it = node.iter
            if it is None:
                continue
            base = it
            if isinstance(it, ast.Call) and isinstance(it.func, ast.Attribute) and it.func.attr == 'copy' and not it.args:
                base = it.func.value
            if isinstance(it, ast.Call) and isinstance(it.func, ast.Name) and it.func.id in ('list', 'tuple', 'reversed') and it.args:
                base = it.args[0]
            if isinstance(it, ast.Call) and isinstance(it.func, ast.Name) and it.func.id == 'sorted':
                continue
            last = base.attr if isinstance(base, ast.Attribute) else (base.id if isinstance(base, ast.Name) else None)
            if last not in names:
                continue
            fq = f'{m.name}:{qualname_of(node)}'
            # graph sets are C20.order's business; skip the SynthDef build internals here
            if last in ('_descendants', '_antecedents', '_constant_set'):
                continue
            n += 1
            key = (fq, norm(it))
            reason = SET_ITER_TRIAGE.get(key)
            ctx.ob('C10.det', f'{fq}:for-in {norm(it)}', reason is not None,
                   reason or f'iterates the unordered container {norm(it)}: if the loop body sends, schedules or invokes callbacks '
                             f'the order differs between fresh runs (sets of id-hashed objects)', node, m)
    ctx.require(n >= 12, 'C10.det', f'only {n} set iterations found')
    # positional use of a set: list(S)/tuple(S)/iter(S) outside a for-iterable (e.g. choice(list(S)))
    setdicts = set()
    for m in repo.modules.values():
        for node in ast.walk(m.tree):
            if isinstance(node, ast.Assign) and isinstance(node.targets[0], ast.Subscript) and isinstance(node.value, ast.Call) \
                    and norm(node.value.func) == 'set':
                b = node.targets[0].value
                setdicts.add(b.attr if isinstance(b, ast.Attribute) else (b.id if isinstance(b, ast.Name) else None))
    k = 0
    for fi in repo.functions.values():
        local_sets = set()
        for node in walk_local(fi.node):
            if isinstance(node, ast.For) and isinstance(node.iter, ast.Call) and isinstance(node.iter.func, ast.Attribute) \
                    and node.iter.func.attr in ('items', 'values'):
                b = node.iter.func.value
                bn = b.attr if isinstance(b, ast.Attribute) else (b.id if isinstance(b, ast.Name) else None)
                if bn in setdicts:
                    tg = node.target.elts[-1] if isinstance(node.target, ast.Tuple) else node.target
                    if isinstance(tg, ast.Name):
                        local_sets.add(tg.id)
        for c in U.calls(fi.node):
            if isinstance(c.func, ast.Name) and c.func.id in ('list', 'tuple', 'iter') and len(c.args) == 1:
                a = c.args[0]
                isset = False
                if isinstance(a, ast.Subscript):
                    b = a.value
                    bn = b.attr if isinstance(b, ast.Attribute) else (b.id if isinstance(b, ast.Name) else None)
                    isset = bn in setdicts
                elif isinstance(a, ast.Name):
                    isset = a.id in local_sets
                elif isinstance(a, ast.Attribute):
                    isset = a.attr in names and a.attr not in ('_descendants', '_antecedents', '_constant_set')
                if not isset:
                    continue
                par = getattr(c, '_parent', None)
                if isinstance(par, (ast.For, ast.comprehension)) and par.iter is c:
                    continue    # handled above
                k += 1
                ctx.ob('C10.det', f'{fi.fq}:{norm(c)}:positional-use', False,
                       f'{norm(c)} turns an unordered set into a sequence whose order (object ids) differs between fresh runs; '
                       f'selecting from it is not reproducible even with a fixed random seed', c, fi.module)
    eng = repo.func('sc3.synth._engine:ContiguousBlockAllocator._find_available')
    srt = [c for c in U.calls(eng.node) if isinstance(c.func, ast.Name) and c.func.id == 'sorted']
    ctx.ob('C10.det', f'{eng.fq}:sorted-candidates', len(srt) >= 2, 'freed-block candidates are ordered before the random draw', eng.node, eng.module)


def run(ctx):
    from ..report import SubCtx
    from . import c12 as c12c
    subc = SubCtx(ctx, 'C10.beats', 'rt and nrt agree on the current beat only if it is read through the map: nobody but the rt loop reads the cached _beats (nrt never writes it), as decided for C12')
    c12c.rule_cache(subc)
    from . import c07
    sub_c07 = SubCtx(ctx, 'C10.score', 'the nrt run is observed through the score: every bundle is one entry, ordered by time and send order, as decided for C07')
    c07.rule_score(sub_c07)
    from . import c09
    sub = SubCtx(ctx, 'C10.queue', 'rt clocks and the nrt scheduler share one queue class: its priority-queue contract, as decided for C09')
    c09.rule_inv(sub)
    c09.rule_key(sub)
    rule_mode(ctx)
    rule_wake(ctx)
    rule_exact(ctx, 'C10.exact')
    rule_rng(ctx)
    rule_det(ctx)
    ctx.trust('signatures of the running interpreter\'s random.Random (stdlib, not sc3) for the arity check')


MUTANTS = [
    dict(rule='C10.queue', name='queue re-insertion updates the entry in place (seeds C08-e, C05-f)', file='sc3/base/_taskq.py',
         old="        if task in self._entry_finder:\n            self.remove(task)\n        count = next(self._counter)\n        entry = [prio, count, task]\n        self._entry_finder[task] = entry\n        heapq.heappush(self._queue, entry)",
         new="        count = next(self._counter)\n        if task in self._entry_finder:\n            entry = self._entry_finder[task]\n            entry[0] = prio\n            entry[1] = count\n            return\n        entry = [prio, count, task]\n        self._entry_finder[task] = entry\n        heapq.heappush(self._queue, entry)"),
    dict(rule='C10.mode', name='AppClock nrt branch does not accept a None delta (fix reverted)', file='sc3/base/clock.py',
         old="            if delta is None:  # As Scheduler.sched.\n                delta = 0.0\n", new=""),
    dict(rule='C10.wake', name='NRT logical time clamped to be monotonic (seed C10-c)', file='sc3/base/main.py',
         old="        # In nrt physical time and logical time are the same.\n        cls.main_tt._m_seconds = seconds",
         new="        if seconds > cls.main_tt._m_seconds:\n            cls.main_tt._m_seconds = seconds"),
    dict(rule='C10.mode', name='(fix reverted) SystemClock.clear does nothing in NRT', file='sc3/base/clock.py',
         old="            _libsc3.main._clock_scheduler.clear(cls)\n            return\n        with cls._sched_cond:", new="            return\n        with cls._sched_cond:"),
    dict(rule='C10.mode', name='NRT clear drops every clock\'s tasks', file='sc3/base/clock.py',
         old="            if clock_task.clock is clock:\n                self.queue.remove(clock_task)", new="            self.queue.remove(clock_task)"),
    dict(rule='C10.mode', name='(fix reverted) tempo setter NRT branch does nothing', file='sc3/base/clock.py',
         old="        # en tempo_\n        mdl.NotificationCenter.notify(self, 'tempo')\n        if self.mode == _libsc3.main.NRT_MODE:\n            _libsc3.main._clock_scheduler.rekey(self)\n",
         new="        # en tempo_\n        mdl.NotificationCenter.notify(self, 'tempo')\n        if self.mode == _libsc3.main.NRT_MODE:\n            return\n"),
    dict(rule='C10.mode', name='(fix reverted) ClockTask without identity eq/hash', file='sc3/base/clock.py',
         old="    def __eq__(self, other):\n        return type(other) is ClockTask\\\n            and self.clock is other.clock and self.task is other.task\n\n    def __hash__(self):\n        return hash((id(self.clock), id(self.task)))\n",
         new=""),
    dict(rule='C10.mode', name='ClockTask equality ignores the clock', file='sc3/base/clock.py',
         old="            and self.clock is other.clock and self.task is other.task\n", new="            and self.task is other.task\n"),
    dict(rule='C10.mode', name='rekey re-queues every pending task with this clock map', file='sc3/base/clock.py',
         old="            if clock_task.clock is clock:\n                self.add(clock.beats2secs(clock_task.beats), clock_task)",
         new="            self.add(clock.beats2secs(clock_task.beats), clock_task)"),
    dict(rule='C10.mode', name='re-queued task keeps stale beat', file='sc3/base/clock.py',
         old="                self.beats = self.beats + delta\n                self.scheduler.add(self.clock.beats2secs(self.beats), self)",
         new="                self.scheduler.add(self.clock.beats2secs(self.beats + delta), self)"),
    dict(rule='C10.mode', name='tempo setter re-bases at elapsed time (seed C10-b)', file='sc3/base/clock.py',
         old="        beats = self.beats\n        self._base_seconds = self.beats2secs(beats)\n        self._base_beats = beats\n        self._tempo = value\n        self._beat_dur = 1.0 / self._tempo\n        # en tempo_\n        mdl.NotificationCenter.notify(self, 'tempo')\n        if self.mode == _libsc3.main.NRT_MODE:\n            _libsc3.main._clock_scheduler.rekey(self)\n        else:\n            with self._sched_cond:\n                self._sched_cond.notify()  # NOTE: is notify_one in C++.\n",
         new="        self.etempo(value)\n"),
    dict(rule='C10.mode', name='NRT branch of SystemClock.sched loses base time', file='sc3/base/clock.py',
         old="        if cls.mode == _libsc3.main.NRT_MODE:\n            seconds = _libsc3.main.current_tt._seconds\n            seconds += delta\n            if seconds == float('inf'):\n                return\n            ClockTask(seconds, cls, item, _libsc3.main._clock_scheduler)\n        else:\n            with cls._sched_cond:\n                seconds",
         new="        if cls.mode == _libsc3.main.NRT_MODE:\n            seconds = delta\n            if seconds == float('inf'):\n                return\n            ClockTask(seconds, cls, item, _libsc3.main._clock_scheduler)\n        else:\n            with cls._sched_cond:\n                seconds"),
    dict(rule='C10.mode', name='(fix reverted) AppClock NRT absolute delta', file='sc3/base/clock.py',
         old="            seconds = _libsc3.main.current_tt._seconds\n            seconds += delta\n            if seconds == float('inf'):\n                return\n            ClockTask(seconds, cls, item, _libsc3.main._clock_scheduler)\n        else:\n            with cls._sched_lock:",
         new="            if delta == float('inf'):\n                return\n            ClockTask(delta, cls, item, _libsc3.main._clock_scheduler)\n        else:\n            with cls._sched_lock:"),
    dict(rule='C10.mode', name='TempoClock.sched_abs NRT adds current beats', file='sc3/base/clock.py',
         old="            self._sched_add_nrt(beat, item)", new="            self._sched_add_nrt(beat + self.beats, item)"),
    dict(rule='C10.wake', name='bool test dropped in NRT wake-up', file='sc3/base/clock.py',
         old="            if isinstance(delta, (int, float)) and not isinstance(delta, bool)\\\n            and delta != float('inf'):  # As sched.\n                self.beats = ", new="            if isinstance(delta, (int, float))\\\n            and delta != float('inf'):  # As sched.\n                self.beats = "),
    dict(rule='C10.wake', name='NRT wake-up lets exceptions escape', file='sc3/base/clock.py',
         old="        except Exception:\n            _logger.error(\n                '%s(%s) scheduled on ClockScheduler',", new="        except ValueError:\n            _logger.error(\n                '%s(%s) scheduled on ClockScheduler',"),
    dict(rule='C10.rng', name='builtin draws from module-level random', file='sc3/base/builtins.py',
         old="import inspect\n", new="import inspect\nimport random\n", count=1,
         edits=[('sc3/base/builtins.py', "import inspect\n", "import inspect\nimport random\n"),
                ('sc3/base/builtins.py', "        return _libsc3.main._rgen.random() < x", "        return random.random() < x")]),
    dict(rule='C10.rng', name='seed setter reseeds in place', file='sc3/base/stream.py',
         old="        self._rgen = random.Random(x)", new="        self._rgen.seed(x)"),
    dict(rule='C10.rng', name='new thread gets the process generator', file='sc3/base/stream.py',
         old="        self._rgen = _libsc3.main.current_tt._rgen", new="        self._rgen = _libsc3.main._m_rgen"),
    dict(rule='C10.rng', name='(fix reverted) shuffle with removed argument', file='sc3/base/builtins.py',
         old="    lst = lst.copy()\n    _libsc3.main._rgen.shuffle(lst)  # random was removed in Python 3.11.", new="    lst = lst.copy()\n    _libsc3.main._rgen.shuffle(lst, random)"),
    dict(rule='C10.det', name='(fix reverted) cleanup entries kept in a set', file='sc3/seq/eventstream.py',
         edits=[('sc3/seq/eventstream.py', "        self._entries = dict()  # Ordered set.", "        self._entries = set()"),
                ('sc3/seq/eventstream.py', "        for entry in list(self._entries):", "        for entry in self._entries.copy():")]),
    dict(rule='C10.det', name='new loop over a set that sends', file='sc3/synth/server.py',
         old="    def quit_all(cls, watch_shutdown=True):", new="    def _notify_all(cls):\n        for server in cls.all:\n            server.addr.send_msg('/notify', 1)\n\n    def quit_all(cls, watch_shutdown=True):"),
    dict(rule='C10.det', name='(fix reverted) allocator draws from list(set)', file='sc3/synth/_engine.py',
         old="            return bi.choice(sorted(self._freed[n], key=lambda x: x.start))", new="            return bi.choice(list(self._freed[n]))"),
    dict(rule='C10.exact', name='NRT queue rounds the time (RT queues do not)', file='sc3/base/clock.py',
         old="        self.queue.add(time, clock_task)", new="        self.queue.add(round(time, 9), clock_task)"),
]

REPAIRS = []


EQUIV = [
    dict(name='returned infinity filtered on the computed time inside the branch', file='sc3/base/clock.py',
         old="                        and not isinstance(delta, bool)\\\n                        and delta != float('inf'):  # As sched.\n                            time = sched_time + delta\n                            cls._sched_add(time, task)",
         new="                        and not isinstance(delta, bool):\n                            time = sched_time + delta\n                            if not math.isinf(time):\n                                cls._sched_add(time, task)"),
    dict(name='tempo setter delegates its notify to a helper', file='sc3/base/clock.py',
         old="        # en tempo_\n        mdl.NotificationCenter.notify(self, 'tempo')\n        if self.mode == _libsc3.main.NRT_MODE:\n            _libsc3.main._clock_scheduler.rekey(self)\n        else:\n            with self._sched_cond:\n                self._sched_cond.notify()  # NOTE: is notify_one in C++.\n\n    def etempo",
         new="        # en tempo_\n        mdl.NotificationCenter.notify(self, 'tempo')\n        self._map_changed()\n\n    def _map_changed(self):\n        if self.mode == _libsc3.main.NRT_MODE:\n            _libsc3.main._clock_scheduler.rekey(self)\n        else:\n            with self._sched_cond:\n                self._sched_cond.notify()  # NOTE: is notify_one in C++.\n\n    def etempo"),
]
