"""C14 - events resolve their keys and play as correctly timed server commands."""

import ast
import re

from ..loader import norm, full, walk_local, walk_local_ordered, qualname_of
from .. import util as U
from ..flow import enumerate_paths

EXPLANATION = (
    'NoteEvent.play is checked on every path: exactly one unconditional send_bundle of '
    "['/s_new', name, id, action, group, *params] stamped with server.latency, the id taken from the server's node "
    "allocator, and one further send_bundle of ['/n_set', id, 'gate', 0] only under send_gate, stamped "
    'server.latency + sustain. The explicit-key precedence of every key function (freq, midinote, degree, amp, db, '
    'velocity) is extracted as a decision table and compared with the documented chains; delta and sustain are the '
    'documented products. The player plays an event only when it is neither muted nor a rest, always yields the '
    'event\'s delta, and yields it as a plain number (clocks only reschedule numbers, so a wrapped rest duration '
    'would end the stream). Message parameters come from the instrument\'s description, restricted to keys the event '
    'defines; the lookups used on that path return None when they test for None and never call non-callable attributes.')
LEVEL_TEXT = ('static: path rules on NoteEvent.play (send count, stamping, id source), decision-table extraction of key '
              'precedence, guard and result type of the player step, None-contract and callable-attribute agreement on the '
              'parameter-selection path. Numeric key chains and parallel timelines are not decided.')
LEVEL_NOTE = 'reference precedence from DESIGN appendix A.7'
LEVEL_TEXT_ADD = ' Also: loop-carried sums never fed from a rounding call (C14.accum), Ppar local-clock / bridging-rest / rest-delta clauses, Pdur event conversion, scale and tuning objects reach the pitch chain unchanged.'
LEVEL_TEXT_ADD += ' Rounds e-f: pitch chain steps, steps per octave = 12 * log2(ratio), Pdur remainder not floored.'
LEVEL_TEXT_ADD += ' Rounds g-h: detuned frequency applied once (stored under freq or converted back), Pdur padding rest not stretched again.'
LEVEL_TEXT = (globals().get('LEVEL_TEXT') or EXPLANATION) + LEVEL_TEXT_ADD
TECHNIQUE = 'static analysis: path enumeration on play(), decision-table extraction of key functions, contract-agreement lints'

KEYS = {
    ('PitchKeys', 'freq'): [("'midinote' in self or 'note' in self", '_freq_from_midinote'), ("'degree' in self", '_freq_from_degree'), ('else', 'default:freq')],
    ('PitchKeys', 'midinote'): [("'note' in self", '_midi_from_note'), ("'degree' in self", '_midinote_from_degree'), ("'freq' in self", '_midinote_from_freq'), ('else', 'default:midinote')],
    ('PitchKeys', 'degree'): [("'freq' in self", '_degree_from_freq'), ("'midinote' in self", '_degree_from_midinote'), ('else', 'default:degree')],
    ('AmplitudeKeys', 'amp'): [("'db' in self", 'dbamp'), ("'velocity' in self", '_amp_from_velocity'), ('else', 'default:amp')],
    ('AmplitudeKeys', 'db'): [("'amp' in self", 'ampdb'), ("'velocity' in self", '_db_from_velocity'), ('else', 'default:db')],
    ('AmplitudeKeys', 'velocity'): [("'amp' in self", '_velocity_from_amp'), ("'db' in self", '_velocity_from_db'), ('else', 'default:velocity')],
}


def rule_note(ctx):
    ctx.rule('C14.note', 'NoteEvent.play: one unconditional /s_new bundle at server.latency with a fresh node id; one /n_set gate 0 '
                         'bundle only under send_gate at server.latency + sustain')
    f = ctx.repo.func('sc3.seq.event:NoteEvent.play')
    mod = f.module
    n = 0
    for ev, out in enumerate_paths(f.node, unroll=1):
        n += 1
        sends = [(k, node) for k, node, x in ev if k == 'stmt' and any(U.method_name(c) == 'send_bundle' for c in U.calls(node))]
        gated = any(k == 'test' and norm(node) == "self('send_gate')" and x for k, node, x in ev)
        ok = len(sends) == (2 if gated else 1)
        ctx.ob('C14.note', f'{f.fq}:path[send_gate={gated}]:sends', ok, f'{len(sends)} bundle(s) sent on the path with send_gate={gated}', f.node, mod)
    ctx.ob('C14.note', f'{f.fq}:paths', n == 2, f'NoteEvent.play has {n} path(s): exactly one decision (send_gate) is expected', f.node, mod)
    src = full(f.node)
    ok = "msg = ['/s_new', instrument, node_id, add_action, group, *param_list]" in src and 'server.addr.send_bundle(server.latency, msg)' in src
    ctx.ob('C14.note', f'{f.fq}:s_new', ok, '/s_new carries name, id, add action, group and the parameter list, stamped with server.latency', f.node, mod)
    ctx.ob('C14.note', f'{f.fq}:fresh-id', "self['node_id'] = node_id = server._next_node_id()" in src, 'the node id is a fresh one from the server', f.node, mod)
    ok = "if self('send_gate'): server.addr.send_bundle(server.latency + self('sustain'), ['/n_set', node_id, 'gate', 0])" in src
    ctx.ob('C14.note', f'{f.fq}:gate-off', ok, "gate-off is ['/n_set', id, 'gate', 0] later by the event's sustain", f.node, mod)
    ctx.ob('C14.note', f'{f.fq}:freq-before-params', U.before(src, "self['freq'] = self._detuned_freq()", 'param_list = self._get_msg_params()'),
           'the detuned frequency is stored before parameters are selected', f.node, mod)
    ctx.ob('C14.note', f'{f.fq}:osc-args', "msg = gpp.node_param(msg)._as_osc_arg_list()" in src, 'values are converted to OSC arguments', f.node, mod)
    sg = ctx.repo.func('sc3.seq.event:ServerKeys.send_gate')
    ctx.ob('C14.note', f'{sg.fq}', full(sg.node).endswith("return self('has_gate')"), 'gate-off is sent when the instrument has a gate', sg.node, mod)


def chain_of(fnode):
    out = []
    body = U.body_nodoc(fnode)
    node = body[0] if body and isinstance(body[0], ast.If) else None
    if node is None:
        return None

    def act(stmts):
        if len(stmts) == 1 and isinstance(stmts[0], ast.Return):
            v = stmts[0].value
            if isinstance(v, ast.Subscript) and norm(v.value) == 'self.default_values' and U.is_str(v.slice):
                return 'default:' + v.slice.value
            cs = U.calls(v)
            if cs:
                return U.method_name(cs[0])
            return norm(v)
        return ' ; '.join(norm(s) for s in stmts)
    while isinstance(node, ast.If):
        out.append((norm(node.test), act(node.body)))
        if len(node.orelse) == 1 and isinstance(node.orelse[0], ast.If):
            node = node.orelse[0]
        else:
            out.append(('else', act(node.orelse)))
            break
    return out


def rule_keys(ctx):
    ctx.rule('C14.keys', 'explicit keys take precedence in the documented order: freq: midinote|note > degree; midinote: note > degree '
                         '> freq; degree: freq > midinote; amp: db > velocity; db: amp > velocity; velocity: amp > db; '
                         'delta = dur*stretch; sustain = dur*legato*stretch')
    m = ctx.repo.module('sc3.seq.event')
    for (cname, key), want in KEYS.items():
        f = m.functions.get(f'{cname}.{key}')
        ctx.require(f is not None, 'C14.keys', f'{cname}.{key} vanished')
        ctx.ob('C14.keys', f'{f.fq}:keyfunction', 'keyfunction' in f.decorators, f'{key} must be a key function', f.node, m)
        got = chain_of(f.node)
        ctx.ob('C14.keys', f'{f.fq}:precedence', got == want, f'{key}: chain {got}; documented {want}', f.node, m)
    d = m.functions['DurationKeys.delta']
    ctx.ob('C14.keys', f'{d.fq}', full(d.node).endswith("return self('dur') * self('stretch')"), 'delta = dur * stretch', d.node, m)
    s = m.functions['DurationKeys.sustain']
    ctx.ob('C14.keys', f'{s.fq}', full(s.node).endswith("return self('dur') * self('legato') * self('stretch')"), 'sustain = dur * legato * stretch', s.node, m)
    df = m.functions['PitchKeys._detuned_freq']
    ctx.ob('C14.keys', f'{df.fq}', full(df.node).endswith("return self('freq') * self('harmonic') + self('detune')"), 'freq * harmonic + detune', df.node, m)
    tm = m.functions['PitchKeys._transposed_midinote']
    ctx.ob('C14.keys', f'{tm.fq}', full(tm.node).endswith("return self('midinote') + self('ctranspose')"), 'midinote + ctranspose', tm.node, m)
    md = m.functions['PitchKeys._midinote_from_degree']
    src = full(md.node)
    ok = U.before(src, "scale.degree_to_key(self('degree') + self('mtranspose'))", "ret = ret + self('gtranspose') + self('root')",
                  "ret = ret / scale.tuning.spo + self('octave') - 5.0", 'ret = ret * (12.0 * bi.log2(scale.tuning.octave_ratio)) + 60')
    ctx.ob('C14.keys', f'{md.fq}', ok, 'degree -> scale key (+mtranspose) -> +gtranspose+root -> octave -> midinote', md.node, m)
    # lookup: explicit value first, then key function, then default
    c = m.functions['EventDict.__call__']
    src = full(c.node)
    ok = U.before(src, 'if key in self:', 'elif key in self.default_functions: return self.default_functions[key](self)', 'else: return self.default_values[key]')
    ctx.ob('C14.keys', f'{c.fq}', ok, 'an explicitly given key wins over its key function, which wins over the default value', c.node, m)


def rule_rest(ctx):
    ctx.rule('C14.rest', '_play_and_delta plays only when not muted and not a rest, always returns the event delta, and returns it '
                         'as a plain number (a Rest-wrapped duration is unwrapped); the player loop yields that value')
    f = ctx.repo.func('sc3.seq.eventstream:EventStreamPlayer._play_and_delta')
    mod = f.module
    p = f.params[1]
    body = U.body_nodoc(f.node)
    ok = isinstance(body[0], ast.If) and norm(body[0].test) == f'not (self._is_muted or evt.is_rest({p}))' and \
        [norm(s) for s in body[0].body] == [f'{p}.play()'] and not body[0].orelse
    ctx.ob('C14.rest', f'{f.fq}:guard', ok, 'play() runs only for unmuted, non-rest events', f.node, mod)
    plays = [c for c in U.calls(f.node) if U.method_name(c) == 'play']
    ctx.ob('C14.rest', f'{f.fq}:single-play', len(plays) == 1, 'an event is played at most once', f.node, mod)
    rets = [s for s in walk_local(f.node) if isinstance(s, ast.Return)]
    src = full(f.node)
    direct = len(rets) == 1 and norm(rets[0].value) in (f"float({p}('delta'))",)
    unwrapped = f"delta = {p}('delta')" in src and 'if isinstance(delta, evt.Rest): delta = delta.value' in src and len(rets) == 1 and norm(rets[0].value) == 'delta'
    ctx.ob('C14.rest', f'{f.fq}:returns-delta', direct or unwrapped or (len(rets) == 1 and f"{p}('delta')" in norm(rets[0].value)),
           'the step always returns the event delta', f.node, mod)
    ctx.ob('C14.rest', f'{f.fq}:numeric-delta', direct or unwrapped,
           "the delta of a rest written as Rest(dur) is a Rest object: yielded unchanged, no clock reschedules the player and the stream "
           "ends at its first rest; it must be unwrapped to a number", f.node, mod)
    g = ctx.repo.func('sc3.seq.eventstream:EventStreamPlayer._stream_player_func.<locals>.esp_func')
    src = full(g.node)
    ok = U.before(src, 'outevent = self._stream.next(self._event.copy())', 'outevent = evt.event(outevent)', 'yield self._play_and_delta(outevent)')
    ctx.ob('C14.rest', f'{g.fq}:loop', ok, 'the player takes the next event from a copy of its prototype, types it, plays it and waits its delta', g.node, mod)
    ctx.ob('C14.rest', f'{g.fq}:cleanup', 'except stm.StopStream: self._cleanup.run()' in src, 'cleanup runs when the stream ends', g.node, mod)
    r = ctx.repo.func('sc3.seq.event:is_rest')
    ctx.ob('C14.rest', f'{r.fq}', "inevent.get('type') == 'rest' or any((isinstance(value, Rest) for value in inevent.values()))" in full(r.node),
           "a rest is type 'rest' or any Rest value", r.node, r.module)
    s = ctx.repo.func('sc3.seq.event:silent')
    src = full(s.node)
    ctx.ob('C14.rest', f'{s.fq}', "inevent['delta'] = dur * inevent.get('stretch', 1.0)" in src and "inevent['dur'] = dur if isinstance(dur, Rest) else Rest(dur)" in src,
           'a silent event carries a numeric delta and a Rest duration', s.node, s.module)
    # other consumers of delta cast it too
    for fq, txt in (('sc3.seq.patterns.eventpatterns:Ppar.__embed__', "float(outevent('delta'))"),):
        h = ctx.repo.func(fq)
        ctx.ob('C14.rest', f'{fq}:numeric-delta', txt in full(h.node), 'parallel merge adds a numeric delta', h.node, h.module)


def rule_params(ctx):
    ctx.rule('C14.params', 'message parameters are the instrument\'s control names (gate removed unless kept) restricted to keys the '
                           'event defines; a lookup whose result is tested for None can return None; attributes holding plain '
                           'values are not called')
    f = ctx.repo.func('sc3.seq.event:ServerKeys._get_msg_params')
    mod = f.module
    src = full(f.node)
    ok = 'for arg in control_names: if arg in self: msg_params.extend([arg, self(arg)])' in src
    ctx.ob('C14.params', f'{f.fq}:selection', ok, 'one (name, value) pair per control the event defines, in control order', f.node, mod)
    ok = 'if desc.has_gate and (not desc.keep_gate): control_names = desc.control_names[:] control_names.remove(\'gate\')' in src
    ctx.ob('C14.params', f'{f.fq}:gate-removed', ok, 'gate is not sent with /s_new (on a copy of the name list)', f.node, mod)
    ok = "if desc is None: self['msg_params'] = self._default_msg_params()" in src
    ctx.ob('C14.params', f'{f.fq}:fallback', ok, 'an instrument without description uses the default parameters', f.node, mod)
    # None-contract: `x = <lib>.at(...)` followed by `if x is None`
    n = 0
    for fi in ctx.repo.functions.values():
        ss = [s for s in walk_local_ordered(fi.node) if isinstance(s, ast.stmt)]
        for i, s in enumerate(ss):
            if isinstance(s, ast.Assign) and isinstance(s.value, ast.Call) and U.method_name(s.value) == 'at' and isinstance(s.targets[0], ast.Name) \
                    and ('lib' in norm(s.value.func.value).lower() or 'SynthDescLib' in norm(s.value.func.value)):
                v = s.targets[0].id
                tested = any(isinstance(t, ast.If) and norm(t.test) in (f'{v} is None', f'{v} is not None') for t in ss[i + 1:i + 4])
                if not tested:
                    continue
                n += 1
                at = ctx.repo.func('sc3.synth.synthdesc:SynthDescLib.at')
                rets = [r for r in walk_local(at.node) if isinstance(r, ast.Return)]
                can_none = any(isinstance(r.value, ast.Call) and U.method_name(r.value) == 'get' for r in rets) or \
                    any(r.value is None or (isinstance(r.value, ast.Constant) and r.value.value is None) for r in rets)
                ctx.ob('C14.params', f'{fi.fq}:{norm(s)}:none-contract', can_none,
                       f'{fi.qualname} tests the result of SynthDescLib.at() for None, but at() can only return a description or raise '
                       f'KeyError: the fallback branch is dead and an unknown instrument raises', s, fi.module)
    ctx.require(n >= 2, 'C14.params', f'only {n} at()-then-None-test sites found')
    # called attributes that hold plain values
    plain = {}
    methods = set()
    for ci in ctx.repo.classes.values():
        methods |= set(ci.methods) | set(ci.setters)
    sd = ctx.repo.cls('sc3.synth.synthdesc:SynthDesc')
    for fnode in sd.methods.values():
        for s in walk_local(fnode.node):
            if isinstance(s, ast.Assign):
                for t in s.targets:
                    if U.is_self_attr(t) and isinstance(s.value, (ast.Constant, ast.Compare, ast.BoolOp)):
                        plain[t.attr] = s
    plain = {k: v for k, v in plain.items() if k not in sd.methods}
    em = ctx.repo.module('sc3.seq.event')
    k = 0
    for node in ast.walk(em.tree):
        if isinstance(node, ast.Call) and isinstance(node.func, ast.Attribute) and node.func.attr in plain and 'desc' in norm(node.func.value):
            k += 1
            ctx.ob('C14.params', f'{em.name}:{qualname_of(node)}:{norm(node)}:callable', False,
                   f'{norm(node)} calls SynthDesc.{node.func.attr}, which holds a plain value (not a method): TypeError when reached', node, em)
    used = [n_ for n_ in ast.walk(em.tree) if isinstance(n_, ast.Attribute) and n_.attr in plain and 'desc' in norm(n_.value)]
    ctx.ob('C14.params', f'{em.name}:synth-desc-attributes', k == 0 and len(used) >= 3, f'{len(used)} reads of plain SynthDesc attributes, {k} called', None, em)
    sn = ctx.repo.func('sc3.seq.event:ServerKeys._synthdef_name')
    src = full(sn.node)
    js = [n_ for n_ in ast.walk(sn.node) if isinstance(n_, ast.JoinedStr)]
    okj = len(js) == 1 and [norm(v.value) for v in js[0].values if isinstance(v, ast.FormattedValue)] == ["self('instrument')", "self('variant')"]
    ctx.ob('C14.params', f'{sn.fq}', okj and "else: return self('instrument')" in src,
           'the definition name is instrument or instrument.variant', sn.node, em)


def rule_cmds(ctx):
    ctx.rule('C14.cmds', 'every command built in event.py conforms to the server command table (shared with C17.cmds)')
    from .c17 import table
    T = table()['commands']
    m = ctx.repo.module('sc3.seq.event')
    n = 0
    for node in ast.walk(m.tree):
        if isinstance(node, ast.List) and node.elts and U.is_str(node.elts[0]) and node.elts[0].value.startswith('/'):
            n += 1
            head = node.elts[0].value
            spec = T.get(head)
            fixed = [a for a in node.elts[1:] if not isinstance(a, ast.Starred)]
            star = any(isinstance(a, ast.Starred) for a in node.elts[1:])
            ok = spec is not None and (len(fixed) >= spec.get('header', spec['min']) if star else len(fixed) >= spec['min'])
            ctx.ob('C14.cmds', f'{m.name}:{qualname_of(node)}:{norm(node)[:60]}', ok, f'{head} with {len(fixed)} fixed argument(s)', node, m)
    ctx.require(n >= 5, 'C14.cmds', f'only {n} commands in event.py')


ROUNDERS = {'round', 'roundup', 'trunc', 'int', 'floor', 'ceil', 'rint'}


def accumulators(fnode):
    """Loop-carried running sums: a local X assigned inside a loop from an expression that (through single-assignment
    temporaries) contains `X + ...`.  Returns {X: [expression chain nodes feeding X]}."""
    loops = [n for n in walk_local(fnode) if isinstance(n, (ast.While, ast.For))]
    out = {}
    for lp in loops:
        assigns = [n for n in ast.walk(lp) if isinstance(n, ast.Assign) and len(n.targets) == 1 and isinstance(n.targets[0], ast.Name)]
        defs = {}
        for a in assigns:
            defs.setdefault(a.targets[0].id, []).append(a.value)
        for a in ast.walk(lp):
            if isinstance(a, ast.AugAssign) and isinstance(a.target, ast.Name) and isinstance(a.op, ast.Add):
                out.setdefault(a.target.id, []).append(a.value)
        for x, vals in defs.items():
            for v in vals:
                chain = [v]
                seen = {x}
                work = [v]
                selfref = False
                while work:
                    e = work.pop()
                    for n in ast.walk(e):
                        if isinstance(n, ast.Name):
                            if n.id == x and any(isinstance(b, ast.BinOp) and isinstance(b.op, ast.Add) and n in ast.walk(b) for b in ast.walk(e)):
                                selfref = True
                            elif n.id in defs and n.id not in seen and len(defs[n.id]) == 1:
                                seen.add(n.id)
                                chain.append(defs[n.id][0])
                                work.append(defs[n.id][0])
                if selfref:
                    out.setdefault(x, []).extend(chain)
    return out


def rule_accum(ctx, rid='C14.accum', modules=None, least=4):
    ctx.rule(rid, 'running sums carried around a loop in the pattern library (elapsed time, constrained sums, Ppar/Ptpar clocks) '
                  'are never assigned a rounded or truncated value: tolerance rounding may be used to compare, not to accumulate')
    n = 0
    for mname, m in sorted(ctx.repo.modules.items()):
        if not mname.startswith('sc3.seq'):
            continue
        if modules is not None and mname not in modules:
            continue
        for fi in m.functions.values():
            for x, chain in sorted(accumulators(fi.node).items()):
                n += 1
                bad = []
                for e in chain:
                    for c in ast.walk(e):
                        if isinstance(c, ast.Call):
                            nm = (U.call_name(c) or '').split('.')[-1]
                            if nm in ROUNDERS:
                                bad.append(norm(c))
                ctx.ob(rid, f'{fi.fq}:accumulator[{x}]', not bad,
                       f'the running sum `{x}` is fed from {bad}: each pass adds a rounding error, so the total drifts from the sum of '
                       f'the deltas (the cut-off lands early/late and the remaining time is wrong)', fi.node, m)
    ctx.require(n >= least, rid, f'only {n} loop-carried sums found')


def rule_scale(ctx):
    ctx.rule('C14.keys', 'scale and tuning objects given in an event reach the pitch chain unchanged: Scale keeps a Tuning instance '
                         '(octave ratio, name), and the event call protocol wraps only plain tuples as arrayed parameters')
    sc = ctx.repo.cls('sc3.seq.scale:Scale')
    i = sc.methods['__init__']
    src = full(i.node)
    rewrap = [norm(x) for x in walk_local(i.node) if isinstance(x, ast.Assign) and norm(x.value) == 'Tuning(tuning)']
    guarded = all(any(isinstance(p_, ast.If) and 'isinstance(tuning, Tuning)' in norm(p_.test) for p_ in U.parent_chain(x))
                  for x in walk_local(i.node) if isinstance(x, ast.Assign) and norm(x.value) == 'Tuning(tuning)')
    ctx.ob('C14.keys', f'{i.fq}:keeps-tuning', bool(rewrap) and guarded,
           'Tuning(tuning) on a Tuning instance resets the octave ratio to 2.0 and drops the name: it may only wrap a plain sequence', i.node, i.module)
    dk = sc.methods['degree_to_key']
    src = full(dk.node)
    subs = [norm(x) for x in walk_local(dk.node) if isinstance(x, ast.Subscript) and norm(x.value) == 'self']
    through_tuning = all(any(isinstance(p_, ast.Subscript) and norm(p_.value) == 'self.tuning' for p_ in U.parent_chain(x))
                         for x in walk_local(dk.node) if isinstance(x, ast.Subscript) and norm(x.value) == 'self')
    ctx.ob('C14.keys', f'{dk.fq}:through-tuning', bool(subs) and through_tuning,
           f'a scale stores indexes into its tuning: degree_to_key must look the pitch up in the tuning (self.tuning[self[i]]), '
           f'not add the index itself ({subs}); otherwise every tuning sounds like 12-tone equal temperament', dk.node, dk.module)
    # units: tuning values are semitones (Tuning.et: i * 12 / n), so the steps of one octave are 12 per doubling whatever the number of
    # pitch classes; the chain divides a key by the steps per octave and multiplies by 12 * log2(ratio)
    tn = ctx.repo.cls('sc3.seq.scale:Tuning')
    ti = tn.methods['__init__']
    sp = [x for x in walk_local(ti.node) if isinstance(x, ast.Assign) and norm(x.targets[0]) == 'self._spo']
    ok = len(sp) == 1 and not any(isinstance(y, ast.Call) and norm(y.func) == 'len' for y in ast.walk(sp[0].value)) and \
        any(U.is_num(y) and y.value in (12, 12.0) for y in ast.walk(sp[0].value)) and f'log2({ti.params[2]})' in norm(sp[0].value)
    ctx.ob('C14.keys', f'{ti.fq}:steps-per-octave', ok,
           f'steps per octave must be 12 * log2(octave ratio) (found `{norm(sp[0]) if sp else None}`): with len(tuning) a 24-tone tuning '
           f'resolves degree 12 to 63 instead of 66', ti.node, ti.module)
    et = tn.methods['et']
    ok = f'ratio = 12 / {et.params[1]}' in full(et.node) and f'tuple((i * ratio for i in range({et.params[1]})))' in full(et.node)
    ctx.ob('C14.keys', f'{et.fq}:semitone-units', ok, 'equal temperaments are expressed in semitones: step i is i * 12 / n', et.node, et.module)
    ed = ctx.repo.cls('sc3.seq.event:EventDict')
    c = ed.methods['__call__']
    tests = [norm(x.test) for x in walk_local(c.node) if isinstance(x, ast.If) and 'tuple' in norm(x.test)]
    ctx.ob('C14.keys', f'{c.fq}:plain-tuples-only', tests == ['type(value) is tuple'],
           f'arrayed_param must wrap plain tuples only (found tests {tests}): Scale and Tuning are tuple subclasses and lose their methods', c.node, c.module)


def rule_mono(ctx):
    ctx.rule('C14.rest', 'both Pmono variants latch the node id (and parameters, clean-up) only for a creating event that is not a rest: '
                         'a rest sends no /s_new, so nothing may be addressed to that id afterwards')
    ci = ctx.repo.cls('sc3.seq.patterns.eventpatterns:Pmono')
    for mname in ('_embed_mono', '_embed_mono_artic'):
        f = ci.methods[mname]
        latches = [x for x in walk_local(f.node) if isinstance(x, ast.Assign) and norm(x) == "node_id = event['node_id']"]
        ok = bool(latches)
        for x in latches:
            ok = ok and any(isinstance(p_, ast.If) and 'not evt.is_rest(event)' in norm(p_.test) and U.in_body(x, p_, 'body')
                            for p_ in U.parent_chain(x))
        ctx.ob('C14.rest', f'{f.fq}:latch-only-when-created', ok,
               f'{mname} keeps the node id of a creating event without testing that it is not a rest: later /n_set and the gate-off go to a '
               f'node that was never created', f.node, f.module)


def rule_pitch_chain(ctx):
    ctx.rule('C14.keys', 'degree/note -> midinote: key = degree_to_key(degree + mtranspose) (or the given note), plus gtranspose and root, '
                         'divided by the steps per octave of the tuning, plus octave - 5, times 12 * log2(octave ratio), plus 60; both paths '
                         'share the chain after their first line; freq = midicps(midinote [+ ctranspose]) then * harmonic + detune')
    pk = ctx.repo.cls('sc3.seq.event:PitchKeys')
    mod = pk.module
    a = [norm(x) for x in U.body_nodoc(pk.methods['_midinote_from_degree'].node)]
    b = [norm(x) for x in U.body_nodoc(pk.methods['_midi_from_note'].node)]
    want_tail = ['ret = ret / scale.tuning.spo + self(\'octave\') - 5.0', 'ret = ret * (12.0 * bi.log2(scale.tuning.octave_ratio)) + 60', 'return ret']
    ok = a == ["scale = self('scale')", "ret = scale.degree_to_key(self('degree') + self('mtranspose'))", "ret = ret + self('gtranspose') + self('root')"] + want_tail
    ctx.ob('C14.keys', f'{pk.fq}._midinote_from_degree:chain', ok, f'degree chain must be the documented one; found {a}', pk.methods['_midinote_from_degree'].node, mod)
    nb = [x.replace("self('scale')", 'scale') for x in b]
    ok = nb == ["ret = self['note'] + self('gtranspose') + self('root')"] + want_tail
    ctx.ob('C14.keys', f'{pk.fq}._midi_from_note:chain', ok, f'note chain must equal the degree chain after its first line; found {b}', pk.methods['_midi_from_note'].node, mod)
    nt = pk.methods.get('note')
    if nt is not None:
        ctx.ob('C14.keys', f'{nt.fq}', full(nt.node).endswith("return self('scale').degree_to_key(self('degree') + self('mtranspose'))"),
               'the derived note is the key of degree + mtranspose in the scale (the first step of the degree path)', nt.node, mod)
    checks = {'_detuned_freq': "return self('freq') * self('harmonic') + self('detune')", '_transposed_midinote': "return self('midinote') + self('ctranspose')",
              '_freq_from_midinote': 'return bi.midicps(self._transposed_midinote())', '_freq_from_degree': 'return bi.midicps(self._midinote_from_degree())',
              '_midinote_from_freq': 'return bi.cpsmidi(self._detuned_freq())'}
    for mn, want in checks.items():
        f = pk.methods[mn]
        ctx.ob('C14.keys', f'{f.fq}', full(f.node).endswith(want), f'{mn} must be `{want}`', f.node, mod)


def rule_detune(ctx):
    ctx.rule('C14.keys', 'harmonic and detune are applied where the frequency is fixed for sending: every function that collects the parameters '
                         'of a pitch-bearing event (_get_msg_params / _update_msg_params) first stores self[\'freq\'] = self._detuned_freq()')
    m = ctx.repo.module('sc3.seq.event')
    n = 0
    for q, f in sorted(m.functions.items()):
        collect = [c for c in U.calls(f.node) if U.is_self_attr(c.func) and c.func.attr in ('_get_msg_params', '_update_msg_params')]
        if not collect or f.cls is None or f.name in ('_get_msg_params', '_update_msg_params'):
            continue
        pitch = any(k.arg == 'partial_events' and 'PitchKeys' in norm(k.value) for c_ in ctx.repo.mro(f.cls) for k in c_.node.keywords)
        if not pitch:
            continue
        n += 1
        stores = [x for x in walk_local(f.node) if isinstance(x, ast.Assign) and norm(x.value).endswith('self._detuned_freq()')
                  and any(isinstance(t, ast.Subscript) and norm(t.value) == 'self' and U.literal(t.slice) == 'freq' for t in x.targets)]
        ok = bool(stores) and min(x.lineno for x in stores) < min(c.lineno for c in collect)
        ctx.ob('C14.keys', f'{f.fq}:detuned-before-params', ok,
               f'{q} collects the event parameters with {norm(collect[0])} without storing the detuned frequency first: the command carries '
               f'freq without harmonic and detune', f.node, m)
    ctx.require(n >= 3, 'C14.keys', f'only {n} parameter-collecting event functions found')


def rule_detune_once(ctx):
    ctx.rule('C14.keys', 'harmonic and detune are applied exactly once: _detuned_freq() is called only to store the result under the freq key '
                         '(before the parameters are collected) or to convert it back to a midinote; whoever collects parameters reads the stored key')
    m = ctx.repo.module('sc3.seq.event')
    n = 0
    for q, f in sorted(m.functions.items()):
        for c in U.calls(f.node):
            if not (U.is_self_attr(c.func) and c.func.attr == '_detuned_freq'):
                continue
            n += 1
            par = getattr(c, '_parent', None)
            stored = False
            for p_ in U.parent_chain(c):
                if isinstance(p_, ast.Assign):
                    stored = any(isinstance(t, ast.Subscript) and norm(t.value) == 'self' and U.literal(t.slice) == 'freq' for t in p_.targets)
                    break
                if isinstance(p_, ast.stmt):
                    break
            back = isinstance(par, ast.Call) and norm(par.func) in ('bi.cpsmidi', 'cpsmidi')
            ctx.ob('C14.keys', f'{f.fq}:_detuned_freq():stored-or-converted', stored or back,
                   f'{q} uses self._detuned_freq() as a value: play() has already stored the detuned frequency under the freq key, so '
                   f'harmonic and detune are applied a second time', c, m)
    ctx.require(n >= 5, 'C14.keys', f'only {n} calls of _detuned_freq found')


def rule_par(ctx):
    ctx.rule('C14.par', 'Ppar keeps a local clock: after every event it yields, `now` advances to exactly the time whose distance from '
                        '`now` was emitted as that event\'s delta, and that time was read from the queue in the same block')
    f = ctx.repo.func('sc3.seq.patterns.eventpatterns:Ppar.__embed__')
    m = f.module
    n = 0

    def blocks(node):
        for x in ast.walk(node):
            for fld in ('body', 'orelse', 'finalbody'):
                b = getattr(x, fld, None)
                if isinstance(b, list) and b and isinstance(b[0], ast.stmt):
                    yield b
            if isinstance(x, ast.Try):
                for h in x.handlers:
                    yield h.body
    for b in blocks(f.node):
        for i, st in enumerate(b):
            if not (isinstance(st, ast.Assign) and isinstance(st.value, ast.Yield)):
                continue
            n += 1
            # the emitted delta: nearest earlier statement of the block that sets it
            target = None
            def delta_target(stmt):
                t = norm(stmt)
                mm = re.fullmatch(r"outevent\['delta'\] = (?:evt\.Rest\()?(\w+) - now\)?(?: #.*)?", t) or \
                    re.fullmatch(r"outevent\['delta'\] = (\w+)", t) or \
                    re.fullmatch(r'outevent = evt\.silent\((\w+) - now, \w+\)', t) or re.fullmatch(r'outevent = evt\.silent\((\w+), \w+\)', t)
                return mm.group(1) if mm else None
            for prev in reversed(b[:i]):
                if isinstance(prev, ast.If):
                    ts = {delta_target(x) for br in (prev.body, prev.orelse) for x in br}
                    if len(ts) == 1 and None not in ts:
                        target = ts.pop()
                        break
                    continue
                tg = delta_target(prev)
                if tg:
                    target = tg
                    break
            nxt = norm(b[i + 1]) if i + 1 < len(b) else None
            fresh = target is not None and any(isinstance(p_, ast.Assign) and norm(p_.targets[0]) == target and 'queue.peek()[0]' in norm(p_.value)
                                               for p_ in b[:i])
            outer = target is not None and not fresh and any(
                isinstance(p_, ast.Assign) and norm(p_.targets[0]) == target and 'queue.peek()[0]' in norm(p_.value)
                for bb in blocks(f.node) if any(b is getattr(y, 'body', None) for y in bb if isinstance(y, ast.If)) for p_ in bb)
            ok = target is not None and nxt == f'now = {target}' and (fresh or outer)
            ctx.ob('C14.par', f'{f.fq}:yield#{n}', ok,
                   f'after yielding an event whose delta is `{target} - now`, the local clock must become `{target}`, read from the queue in this '
                   f'block (found next statement `{nxt}`, fresh read: {fresh or outer}): otherwise the clock lags and later siblings are shifted', st, m)
    ctx.require(n >= 3, 'C14.par', f'only {n} yields found in Ppar.__embed__')
    src = full(f.node)
    ctx.ob('C14.par', f'{f.fq}:requeue', "queue.add(now + float(outevent('delta')), stream)" in src,
           'a child is re-queued at the local time plus its own delta', f.node, m)
    # the gaps Ppar bridges are differences of queue times, i.e. already stretched: silent() multiplies by the in-event's stretch,
    # so the delta of each bridging rest is set to the gap itself afterwards
    sil = [x for x in walk_local_ordered(f.node) if isinstance(x, ast.Assign) and norm(x.value).startswith('evt.silent(')]
    # (a rest built by hand, without silent(), has nothing to reset: the clause is about every silent() call there is)
    allsil = [c for c in U.calls(f.node) if norm(c.func) == 'evt.silent']
    ok = len(sil) == len(allsil)
    for x in sil:
        gap = norm(x.value.args[0])
        blk = next(bb for bb in blocks(f.node) if x in bb)
        nxt = blk[blk.index(x) + 1] if blk.index(x) + 1 < len(blk) else None
        ok = ok and nxt is not None and norm(nxt) == f"outevent['delta'] = {gap}"
    ctx.ob('C14.par', f'{f.fq}:bridging-rest-not-restretched', ok,
           'after outevent = evt.silent(gap, inevent) the delta must be reset to the gap: silent() applies the in-event\'s stretch to a gap '
           'that is already measured in stretched time', f.node, m)
    # a child event that is a rest through its delta key stays a rest when Ppar rewrites the delta
    ok = "if isinstance(outevent('delta'), evt.Rest): outevent['delta'] = evt.Rest(nexttime - now) else: outevent['delta'] = nexttime - now" in src
    ctx.ob('C14.par', f'{f.fq}:rest-delta-kept', ok, 'rewriting the delta of a child event keeps a Rest a Rest (otherwise the rest is played)', f.node, m)
    # Pdur reads keys with the event call protocol: what the source stream yields is converted first (a Pbind over a dict proto yields dicts)
    pd = ctx.repo.func('sc3.seq.patterns.filterpatterns:Pdur.__embed__')
    srcd = full(pd.node)
    ok = U.before(srcd, 'inevent = evt.event(stream.next(inevent))', "delta = inevent('delta')")
    # the last event is cut to the time that remains: `limit - elapsed` reaches the stored delta, and a constructor call of the delta's
    # own type (kept so that a Rest stays a Rest) is not applied when that type is int, which floors the remainder
    stores = [x for x in walk_local(pd.node) if isinstance(x, ast.Assign) and isinstance(x.targets[0], ast.Subscript) and U.literal(x.targets[0].slice) == 'delta'
              and not any(isinstance(p_, ast.ExceptHandler) for p_ in U.parent_chain(x))]   # the padding rest after the end is decided below
    rem_ok = False
    why = 'no store to the delta key'
    if len(stores) == 1:
        loc = {}
        for a in walk_local(pd.node):
            if isinstance(a, ast.Assign) and isinstance(a.targets[0], ast.Name):
                loc.setdefault(a.targets[0].id, []).append(a)
        vnames = {n_.id for n_ in ast.walk(stores[0].value) if isinstance(n_, ast.Name)}
        exprs = [stores[0].value] + [a.value for v in vnames for a in loc.get(v, [])]
        has_diff = any(isinstance(y, ast.BinOp) and isinstance(y.op, ast.Sub) and norm(y) == 'local_dur - elapsed' for e in exprs for y in ast.walk(e))
        casts = [(a if isinstance(a, ast.AST) else None, y) for e, a in [(stores[0].value, stores[0])] + [(a.value, a) for v in vnames for a in loc.get(v, [])]
                 for y in ast.walk(e) if isinstance(y, ast.Call) and norm(y.func).startswith('type(')]
        unguarded = [norm(y) for a, y in casts if not any(isinstance(p_, ast.If) and 'int' in norm(p_.test) and 'isinstance' in norm(p_.test)
                                                         for p_ in U.parent_chain(a))]
        int_cast = any(isinstance(y, ast.Call) and norm(y.func) in ('int', 'round', 'bi.floor', 'math.floor') for e in exprs for y in ast.walk(e))
        rem_ok = has_diff and not unguarded and not int_cast
        why = f'remaining time {"found" if has_diff else "not found"}; unguarded type casts {unguarded}; integer casts {int_cast}'
    ctx.ob('C14.par', f'{pd.fq}:remaining-not-floored', rem_ok,
           f'the delta of the cut event must be limit - elapsed as a real number ({why}): type(delta)(remaining) with an int delta floors 0.5 to 0 and '
           f'Pdur(2.5, ...) lasts 2.0', pd.node, pd.module)
    # the quant padding of Pdur is a difference of sums of deltas, i.e. already stretched (same reasoning as Ppar's bridging rests)
    silc = [c for c in U.calls(pd.node) if norm(c.func) == 'evt.silent']
    okp = True      # a rest built by hand, without silent(), has nothing to reset
    for c in silc:
        a = getattr(c, '_parent', None)
        if not (isinstance(a, ast.Assign) and len(a.targets) == 1 and isinstance(a.targets[0], ast.Name)):
            okp = False
            continue
        blk = next(bb for bb in blocks(pd.node) if a in bb)
        nxt = blk[blk.index(a) + 1] if blk.index(a) + 1 < len(blk) else None
        okp = okp and nxt is not None and norm(nxt) == f"{a.targets[0].id}['delta'] = {norm(c.args[0])}"
    ctx.ob('C14.par', f'{pd.fq}:padding-rest-not-restretched', okp,
           'the rest that pads Pdur to its quant is evt.silent(gap, inevent) with the delta reset to the gap: the gap is measured in summed '
           '(stretched) deltas, silent() would apply the in-event\'s stretch to it again', pd.node, pd.module)
    ctx.ob('C14.par', f'{pd.fq}:as-event', ok, 'Pdur converts the yielded value to an event before calling it for its delta (as Ppar does)', pd.node, pd.module)


def run(ctx):
    from ..report import SubCtx
    from . import c07
    sub_c07 = SubCtx(ctx, 'C14.stamp', 'an event is played as a bundle stamped at logical time plus latency: the send-instant and timetag rules, as decided for C07')
    c07.rule_src(sub_c07)
    c07.rule_tag(sub_c07)
    rule_accum(ctx)
    rule_pitch_chain(ctx)
    rule_detune(ctx)
    rule_detune_once(ctx)
    rule_mono(ctx)
    rule_scale(ctx)
    rule_par(ctx)
    rule_note(ctx)
    rule_keys(ctx)
    rule_rest(ctx)
    rule_params(ctx)
    rule_cmds(ctx)


MUTANTS = [
    dict(rule='C14.par', name='(fix reverted) Pdur quant padding rest stretched twice', file='sc3/seq/patterns/filterpatterns.py',
         old="                    outevent = evt.silent(delta, inevent)\n                    outevent['delta'] = delta  # Already stretched.\n                    inevent = yield outevent",
         new="                    inevent = yield evt.silent(delta, inevent)"),
    dict(rule='C14.keys', name='fallback parameters apply harmonic and detune again (seed C14-h)', file='sc3/seq/event.py',
         old="        return ['freq', self('freq'), 'amp', self('amp'),", new="        return ['freq', self._detuned_freq(), 'amp', self('amp'),"),
    dict(rule='C14.keys', name='mono set events send the frequency without harmonic and detune (seed C14-g)', file='sc3/seq/event.py',
         old="        self['freq'] = self._detuned_freq()\n        self['server'] = self('server')\n        msg = ['/n_set',", new="        self['server'] = self('server')\n        msg = ['/n_set',"),
    dict(rule='C14.par', name='Pdur floors the remaining time of an int delta (fix reverted)', file='sc3/seq/patterns/filterpatterns.py',
         old="                    if not isinstance(delta, int):  # int floors it.\n                        remaining = type(delta)(remaining)\n                    inevent['delta'] = remaining\n",
         new="                    inevent['delta'] = type(delta)(remaining)\n"),
    dict(rule='C14.keys', name='steps per octave taken from the tuning length (fix reverted)', file='sc3/seq/scale.py',
         old="        self._spo = math.log2(octave_ratio) * 12.0", new="        self._spo = math.log2(octave_ratio) * len(tuning)"),
    dict(rule='C14.keys', name='octave offset of the degree path is 4', file='sc3/seq/event.py',
         old="        ret = ret / scale.tuning.spo + self('octave') - 5.0\n        ret = ret * (12.0 * bi.log2(scale.tuning.octave_ratio)) + 60\n        return ret\n\n    def _midinote_from_freq", new="        ret = ret / scale.tuning.spo + self('octave') - 4.0\n        ret = ret * (12.0 * bi.log2(scale.tuning.octave_ratio)) + 60\n        return ret\n\n    def _midinote_from_freq"),
    dict(rule='C14.keys', name='detune multiplied instead of added', file='sc3/seq/event.py',
         old="        return self('freq') * self('harmonic') + self('detune')", new="        return self('freq') * (self('harmonic') + self('detune'))"),
    dict(rule='C14.keys', name='(fix reverted) degree_to_key adds the tuning index, not the tuning value', file='sc3/seq/scale.py',
         old="self.tuning[self[int(degree) % l]]", new="self[int(degree) % l]"),
    dict(rule='C14.rest', name='(fix reverted) Pmono latches the node id of a rest', file='sc3/seq/patterns/eventpatterns.py',
         old="                    if not evt.is_rest(event):  # No synth is created.\n                        server = event['server']\n                        node_id = event['node_id']\n                        mono_params = event['msg_params'][::2]  # For _update_msg_params\n                        cleanup.add_event(evt.event(\n                            {k: event[k] for k in kept_keys}, type='_mono_off'))\n",
         new="                    server = event['server']\n                    node_id = event['node_id']\n                    mono_params = event['msg_params'][::2]  # For _update_msg_params\n                    cleanup.add_event(evt.event(\n                        {k: event[k] for k in kept_keys}, type='_mono_off'))\n"),
    dict(rule='C14.keys', name='(fix reverted) Scale re-wraps its Tuning', file='sc3/seq/scale.py',
         old="        elif not isinstance(tuning, Tuning):\n            tuning = Tuning(tuning)", new="        else:\n            tuning = Tuning(tuning)"),
    dict(rule='C14.keys', name='(fix reverted) every tuple value becomes an arrayed parameter', file='sc3/seq/event.py',
         old="            elif type(value) is tuple:  # Not Scale or other subclasses.", new="            elif isinstance(value, tuple):"),
    dict(rule='C14.par', name='(fix reverted) Pdur calls a plain dict for its delta', file='sc3/seq/patterns/filterpatterns.py',
         old="                inevent = evt.event(stream.next(inevent))  # as_event", new="                inevent = stream.next(inevent)"),
    dict(rule='C14.par', name='(fix reverted) bridging rest stretched twice', file='sc3/seq/patterns/eventpatterns.py',
         old="                    outevent['delta'] = nexttime - now  # Already stretched.\n", new=""),
    dict(rule='C14.par', name='(fix reverted) Ppar turns a rest delta into a number', file='sc3/seq/patterns/eventpatterns.py',
         old="                if isinstance(outevent('delta'), evt.Rest):\n                    outevent['delta'] = evt.Rest(nexttime - now)  # Still a rest.\n                else:\n                    outevent['delta'] = nexttime - now\n", new="                outevent['delta'] = nexttime - now\n"),
    dict(rule='C14.par', name='Ppar bridging rest leaves the local clock behind (seed C14-c)', file='sc3/seq/patterns/eventpatterns.py',
         old="                    nexttime = queue.peek()[0]\n                    outevent = evt.silent(nexttime - now, inevent)", new="                    outevent = evt.silent(queue.peek()[0] - now, inevent)"),
    dict(rule='C14.par', name='Ppar does not advance its clock after a child event', file='sc3/seq/patterns/eventpatterns.py',
         old="                inevent = yield outevent\n                now = nexttime\n            except stm.StopStream:", new="                inevent = yield outevent\n            except stm.StopStream:"),
    dict(rule='C14.accum', name='Pdur accumulates the rounded elapsed time (seed C14-b)', file='sc3/seq/patterns/filterpatterns.py',
         old="                next_elapsed = elapsed + float(delta)\n                if bi.roundup(next_elapsed, tolerance) >= local_dur:",
         new="                next_elapsed = bi.roundup(elapsed + float(delta), tolerance)\n                if next_elapsed >= local_dur:"),
    dict(rule='C14.note', name='second unconditional /n_set', file='sc3/seq/event.py',
         old="        if self('send_gate'):\n            server.addr.send_bundle(\n                server.latency + self('sustain'),\n                ['/n_set', node_id, 'gate', 0])",
         new="        server.addr.send_bundle(\n            server.latency + self('sustain'),\n            ['/n_set', node_id, 'gate', 0])"),
    dict(rule='C14.note', name='gate-off stamped without sustain', file='sc3/seq/event.py',
         old="                server.latency + self('sustain'),\n                ['/n_set', node_id, 'gate', 0])", new="                server.latency,\n                ['/n_set', node_id, 'gate', 0])"),
    dict(rule='C14.note', name='s_new without latency', file='sc3/seq/event.py',
         old="        server.addr.send_bundle(server.latency, msg)  # Missing ~latency, ~lag and ~timingOffset.\n        if self('send_gate'):",
         new="        server.addr.send_bundle(None, msg)\n        if self('send_gate'):"),
    dict(rule='C14.keys', name='amp prefers velocity over db', file='sc3/seq/event.py',
         old="        if 'db' in self:\n            return bi.dbamp(self['db'])\n        elif 'velocity' in self:\n            return self._amp_from_velocity()",
         new="        if 'velocity' in self:\n            return self._amp_from_velocity()\n        elif 'db' in self:\n            return bi.dbamp(self['db'])"),
    dict(rule='C14.keys', name='freq ignores an explicit note', file='sc3/seq/event.py',
         old="        if 'midinote' in self or 'note' in self:\n            return self._freq_from_midinote()", new="        if 'midinote' in self:\n            return self._freq_from_midinote()"),
    dict(rule='C14.keys', name='sustain without legato', file='sc3/seq/event.py',
         old="        return self('dur') * self('legato') * self('stretch')", new="        return self('dur') * self('stretch')"),
    dict(rule='C14.rest', name='rests are played', file='sc3/seq/eventstream.py',
         old="        if not (self._is_muted or evt.is_rest(outevent)):", new="        if not self._is_muted:"),
    dict(rule='C14.rest', name='(fix reverted) Rest delta yielded unchanged', file='sc3/seq/eventstream.py',
         old="        delta = outevent('delta')\n        if isinstance(delta, evt.Rest):\n            delta = delta.value  # Clocks only reschedule numbers.\n        return delta", new="        return outevent('delta')"),
    dict(rule='C14.params', name='(fix reverted) at() raises for unknown names', file='sc3/synth/synthdesc.py',
         old="        return self.synth_descs.get(name)  # None if not found.", new="        return self.synth_descs[name]"),
    dict(rule='C14.params', name='(fix reverted) has_variants called', file='sc3/seq/event.py',
         old="        and self('synth_desc').has_variants:\n", new="        and self('synth_desc').has_variants():\n"),
    dict(rule='C14.params', name='parameters not restricted to defined keys', file='sc3/seq/event.py',
         old="                    if arg in self:\n                        msg_params.extend([arg, self(arg)])", new="                    msg_params.extend([arg, self(arg)])"),
    dict(rule='C14.cmds', name='/n_set without id', file='sc3/seq/event.py',
         old="['/n_set', node_id, 'gate', 0])", new="['/n_set', *['gate', 0]])"),
]

REPAIRS = []


EQUIV = [
    dict(name='Pdur builds its padding rest by hand instead of through evt.silent', file='sc3/seq/patterns/filterpatterns.py',
         old="                    outevent = evt.silent(delta, inevent)\n                    outevent['delta'] = delta  # Already stretched.\n",
         new="                    outevent = inevent.copy()\n                    outevent['delta'] = delta\n                    outevent['dur'] = evt.Rest(delta)\n"),
]
