"""C08 - real-time clocks wake every task once, on time, in order, and survive errors."""

import ast

from ..loader import norm, full, walk_local, walk_local_ordered, dump_name
from .. import util as U
from ..locks import lock_classes, lexical_locks, with_attrs, entry_locks
from .c05 import roots_of
from ..flow import enumerate_paths

EXPLANATION = (
    'Lock identity is recovered from the source (threading.Condition(L) joins L\'s lock class, aliases propagate), '
    'then a lock-context analysis (lexical `with` + held-on-entry fixpoint over all call sites of the helper '
    'functions) decides that every mutation of a clock\'s task queue runs under that clock\'s lock; every '
    'Condition.wait is inside a `with` of the same condition and inside a loop that re-reads the state; every '
    'enqueue path ends in the notify-if-head-changed helper on the condition the clock thread waits on; the state '
    'deciding whether/how long a clock thread sleeps is read under the lock of the condition it waits on or is '
    'covered by a wake-up flag set under that lock before notify and tested under it before wait; every __awake__ '
    'call is wrapped by StopStream/Exception handlers that do not re-raise plus a finally, with nothing that can '
    'raise between pop() and the try; stop/clear clear, flip the flag and notify under the lock, and join outside it.')
LEVEL_TEXT = ('static lock-context (lock-set) analysis and condition-protocol typestate over SystemClock, TempoClock, '
              'AppClock and Scheduler; exception-handler structure of the wake-up sites. Actual wake-up instants and '
              'fairness are not decided.')
LEVEL_NOTE = 'assumes attribute loads and constant-index subscripts of a popped entry do not raise'
LEVEL_TEXT_ADD = ' Also: the scheduling base time is read under the main lock in the RT branch of sched; scheduler receivers are typed by the constructor assigned to the attribute.'
LEVEL_TEXT_ADD += ' Rounds e-f: no infinite time reaches a queue (every queueing site), timed waits bounded by threading.TIMEOUT_MAX, parked entries woken front to back, queue contract (shared with C09).'
LEVEL_TEXT = (globals().get('LEVEL_TEXT') or EXPLANATION) + LEVEL_TEXT_ADD
TECHNIQUE = 'static analysis: lock-set/lock-context analysis with call-site propagation + wait/notify protocol rules'

CLOCKS = ('SystemClock', 'TempoClock', 'AppClock', 'Scheduler')
QUEUE_MUT = {'add', 'pop', 'remove', 'clear'}


def clock_funcs(ctx):
    m = ctx.repo.module('sc3.base.clock')
    out = []
    for q, f in m.functions.items():
        if q.split('.')[0] in CLOCKS or q.startswith('MetaSystemClock') or q.startswith('MetaAppClock'):
            out.append(f)
    return m, out


def scheduler_attr_types(repo):
    """attribute name -> class name for every `<x>.<attr>_scheduler = <Class>(...)` in the repository (the receiver of a
    `.._scheduler.method()` call is typed by the constructor assigned to that attribute, not by its spelling)"""
    out = {}
    for mod in repo.modules.values():
        for n in ast.walk(mod.tree):
            if isinstance(n, ast.Assign) and isinstance(n.value, ast.Call):
                for t in n.targets:
                    if isinstance(t, ast.Attribute) and t.attr.endswith('_scheduler'):
                        out.setdefault(t.attr, set()).add(norm(n.value.func).split('.')[-1])
    return out


def make_resolver(ctx):
    m = ctx.repo.module('sc3.base.clock')
    sch_types = scheduler_attr_types(ctx.repo)

    def sched_class(recv):
        # only the RT Scheduler (AppClock's) is in scope; ClockScheduler is the single-threaded NRT queue
        types = sch_types.get(recv.split('.')[-1], set())
        return m.classes['Scheduler'] if types == {'Scheduler'} else None

    def resolve(node, caller):
        cname = caller.qualname.split('.')[0]
        ci = m.classes.get(cname)
        if isinstance(node, ast.Call) and isinstance(node.func, ast.Attribute):
            recv = norm(node.func.value)
            name = node.func.attr
            if recv in ('self', 'cls') and ci is not None:
                r = ctx.repo.resolve_method(ci, name)
                return [r] if r is not None and r.module is m else []
            if recv.endswith('_scheduler'):
                sch = sched_class(recv)
                return [sch.methods[name]] if sch is not None and name in sch.methods else []
        if isinstance(node, ast.Attribute) and isinstance(node.ctx, ast.Store):
            recv = norm(node.value)
            if recv.endswith('_scheduler'):
                sch = sched_class(recv)
                return [sch.setters[node.attr]] if sch is not None and node.attr in sch.setters else []
            if recv == 'self' and ci is not None and node.attr in ci.setters:
                return [ci.setters[node.attr]]
        return []
    return resolve


def is_queue_recv(node):
    s = norm(node)
    return s.endswith('_task_queue') or s.endswith('.queue') or s == 'self.queue'


def rule_guard(ctx):
    ctx.rule('C08.guard', 'every add/pop/remove/clear on a clock task queue runs with the main lock class held, lexically '
                          'or because every call site of the enclosing helper holds it')
    m, funcs = clock_funcs(ctx)
    cls_of = lock_classes(ctx.repo)
    ctx.require(cls_of.get('_sched_cond') is not None and cls_of.get('_sched_cond') == cls_of.get('_sched_lock') == cls_of.get('_main_lock'),
                'C08.guard', f'lock classes not bound as expected: {cls_of}')
    main_cls = cls_of['_main_lock']
    ctx.ob('C08.guard', f'{m.name}:lock-classes', cls_of.get('_tick_cond') not in (None, main_cls),
           f'lock classes: {cls_of}', None, m, nontrivial=False)
    # every lock attribute is bound to a real threading primitive (or to the main lock): the frozen forms of today's tree
    LOCK_VALUES = {'_main_lock': {'threading.RLock()', 'threading.Lock()'},
                   '_sched_cond': {'threading.Condition(_libsc3.main._main_lock)', 'None'},
                   '_tick_cond': {'threading.Condition()'},
                   '_sched_lock': {'_libsc3.main._main_lock'},
                   '_state_lock': {'_libsc3.main._main_lock'}}
    k = 0
    for fi in ctx.repo.functions.values():
        for x in walk_local(fi.node):
            if isinstance(x, ast.Assign):
                for t in x.targets:
                    if isinstance(t, ast.Attribute) and t.attr in LOCK_VALUES:
                        k += 1
                        ctx.ob('C08.guard', f'{fi.fq}:{norm(x)}:real-lock', norm(x.value) in LOCK_VALUES[t.attr],
                               f'{norm(x)}: a lock attribute must be one of {sorted(LOCK_VALUES[t.attr])}; a no-op or private lock lets clock '
                               f'threads and schedulers run unsynchronised', x, fi.module)
    ctx.require(k >= 6, 'C08.guard', f'only {k} lock bindings found')
    resolve = make_resolver(ctx)
    roots = set()
    for f in funcs:
        last = f.qualname.split('.')[-1]
        if f.qualname.startswith('Scheduler.'):
            continue
        if not last.startswith('_') or last in ('_run', '_stop', '_sched_stop', '__init__', '__new__') or last == 'setter':
            roots.add(f.fq)
    # reachable from roots
    reach = set()
    work = list(roots)
    byfq = {f.fq: f for f in funcs}
    while work:
        fq = work.pop()
        if fq in reach or fq not in byfq:
            continue
        reach.add(fq)
        f = byfq[fq]
        for c in U.calls(f.node):
            for cal in resolve(c, f):
                work.append(cal.fq)
        for s in walk_local(f.node):
            if isinstance(s, ast.Assign):
                for t in s.targets:
                    for cal in resolve(t, f):
                        work.append(cal.fq)
    unreachable = sorted(f.qualname for f in funcs if f.fq not in reach)
    ctx.note(f'not reachable from the clocks\' API, not analysed: {unreachable}')
    held, sites = entry_locks([f for f in funcs if f.fq in reach], resolve, cls_of, roots)
    n = 0
    for f in funcs:
        if f.fq not in reach:
            continue
        mode_nrt_only = False
        for c in U.calls(f.node):
            if U.method_name(c) in QUEUE_MUT and isinstance(c.func, ast.Attribute) and is_queue_recv(c.func.value):
                n += 1
                h = lexical_locks(c, cls_of) | held[f.fq]
                ctx.ob('C08.guard', f'{f.fq}:{norm(c)[:70]}', main_cls in h,
                       f'{norm(c)[:60]} mutates the task queue with locks {sorted(h)} held; the clock lock is required '
                       f'(helper call sites: {[s[0].qualname for s in sites.get(f.fq, [])]})', c, m)
    ctx.require(n >= 12, 'C08.guard', f'only {n} queue mutation sites found')
    # the scheduling base time: `main.current_tt` is a process-global that a clock thread swaps to the running routine while it
    # holds the main lock; a sched() from another thread must therefore read it under that lock (in RT mode), otherwise it can
    # pick up a routine's (past) logical time and the task wakes before call time + delta
    k = 0
    for f in funcs:
        if f.qualname.split('.')[-1] not in ('sched',) or f.qualname.startswith('Scheduler.'):
            continue
        sw = [t for t in f.node.body if isinstance(t, ast.If) and 'NRT_MODE' in norm(t.test) and '.mode' in norm(t.test)]
        if not sw:
            continue
        nrt_nodes = {id(x) for t in sw for b in t.body for x in ast.walk(b)}
        reads = []
        for x in ast.walk(f.node):
            if isinstance(x, ast.Attribute) and x.attr == 'current_tt' and id(x) not in nrt_nodes:
                reads.append((x, lexical_locks(x, cls_of)))
            if isinstance(x, ast.Call) and id(x) not in nrt_nodes:
                for cal in resolve(x, f):
                    if any(isinstance(y, ast.Attribute) and y.attr == 'current_tt' for y in ast.walk(cal.node)):
                        reads.append((x, lexical_locks(x, cls_of)))
        for x, h in reads:
            k += 1
            ctx.ob('C08.guard', f'{f.fq}:base-time-read[{norm(x)[:50]}]', main_cls in (h | held[f.fq]),
                   f'{norm(x)[:60]} reads the calling thread\'s logical time with locks {sorted(h)} held in real-time mode; outside the '
                   f'main lock another thread sees the routine a clock thread is running, and schedules relative to its past time', x, m)
    ctx.require(k >= 2, 'C08.guard', f'only {k} base-time reads found in sched()')
    ctx.extra['held_on_entry'] = {k.split(':')[1]: sorted(v) for k, v in held.items() if v}


def rule_wait(ctx):
    ctx.rule('C08.wait', 'every Condition.wait in the clocks is lexically inside `with` of the same condition and inside a '
                         'loop whose condition/body re-reads the queue or run flag after waking')
    m, funcs = clock_funcs(ctx)
    cls_of = lock_classes(ctx.repo)
    n = 0
    for f in funcs:
        for c in U.calls(f.node):
            if U.method_name(c) == 'wait' and isinstance(c.func, ast.Attribute) and isinstance(c.func.value, ast.Attribute) \
                    and c.func.value.attr in cls_of:
                n += 1
                cond = c.func.value.attr
                wa = with_attrs(c)
                ctx.ob('C08.wait', f'{f.fq}:{norm(c.func)}:inside-with', cond in wa,
                       f'{norm(c.func)} called without holding `with {cond}` (holds {wa})', c, m)
                loop = None
                for p in U.parent_chain(c):
                    if isinstance(p, ast.While):
                        loop = p
                        break
                    if isinstance(p, (ast.FunctionDef,)):
                        break
                ctx.ob('C08.wait', f'{f.fq}:{norm(c.func)}:inside-loop', loop is not None,
                       'a wait outside a loop acts on a stale predicate after a spurious or early wake-up', c, m)
                cur = c
                for p in U.parent_chain(c):
                    if isinstance(p, (ast.While, ast.FunctionDef)):
                        break
                    if isinstance(p, ast.If) and any(U.method_name(x) in ('empty', 'peek') for x in U.calls(p.test)):
                        ctx.ob('C08.wait', f'{f.fq}:{norm(c.func)}:if-guarded', False,
                               f'`if {norm(p.test)}: ... wait()` tests the queue once: after a spurious wake-up the clock '
                               f'proceeds on an empty queue; the queue predicate must be a `while`', p, m)
                if loop is not None:
                    # after the wait the run flag must be checked or the loop condition re-read state
                    blk = getattr(c, '_parent', None)
                    stmt = U.enclosing_stmt(c)
                    par = stmt._parent
                    body = par.body if any(s is stmt for s in getattr(par, 'body', [])) else getattr(par, 'orelse', [])
                    i = [j for j, s in enumerate(body) if s is stmt][0] if any(s is stmt for s in body) else -1
                    rereads = 'empty()' in norm(loop.test) or '_run_sched' in norm(loop.test) or norm(loop.test) == 'True'
                    ctx.ob('C08.wait', f'{f.fq}:{norm(c.func)}:recheck', rereads,
                           f'loop condition `{norm(loop.test)}` does not re-read the queue/run flag', loop, m)
    ctx.require(n >= 5, 'C08.wait', f'only {n} wait sites found')


def rule_notify(ctx):
    ctx.rule('C08.notify', 'enqueue helpers notify the condition the clock thread waits on whenever the head changed; '
                           'tempo/beats setters, clear and stop notify in RT mode; AppClock.sched notifies its tick condition')
    m = ctx.repo.module('sc3.base.clock')
    for cname in ('SystemClock', 'TempoClock'):
        ci = m.classes[cname]
        f = ci.methods['_sched_add']
        recv = 'cls' if f.is_classmethod else 'self'
        tparam, kparam = f.params[1], f.params[2]
        body = [norm(s) for s in U.body_nodoc(f.node)]
        pv = None
        for s in walk_local(f.node):
            if isinstance(s, ast.Assign) and isinstance(s.value, ast.Subscript) and 'peek()' in norm(s.value):
                pv = norm(s.targets[0])
        ok = pv is not None and len(body) == 3 and \
            body[0] == f'if {recv}._task_queue.empty(): {pv} = -10000000000.0 else: {pv} = {recv}._task_queue.peek()[0]' and \
            body[1] == f'{recv}._task_queue.add({tparam}, {kparam})' and \
            body[2] in (f'if {recv}._task_queue.peek()[0] != {pv}: {recv}._sched_cond.notify_all()',
                        f'if {recv}._task_queue.peek()[0] != {pv}: {recv}._sched_cond.notify()')
        ctx.ob('C08.notify', f'{f.fq}:notify-if-head-changed', ok,
               f'_sched_add must record the old head, add, and notify _sched_cond when the head changed; found {body}', f.node, m)
        run = ci.methods['_run']
        waits = {c.func.value.attr for c in U.calls(run.node) if U.method_name(c) == 'wait' and isinstance(c.func.value, ast.Attribute)}
        ctx.ob('C08.notify', f'{run.fq}:waits-on', waits == {'_sched_cond'}, f'clock thread waits on {sorted(waits)}', run.node, m)
        # enqueue paths
        for mn in ('sched', 'sched_abs'):
            g = ci.methods[mn]
            rt = [s for s in g.node.body if isinstance(s, ast.If) and 'NRT_MODE' in norm(s.test)]
            ok = bool(rt) and any(U.method_name(c) == '_sched_add' for c in U.calls(ast.Module(body=rt[0].orelse, type_ignores=[]))) and \
                not any(U.method_name(c) == 'add' and is_queue_recv(c.func.value) for c in U.calls(g.node))
            ctx.ob('C08.notify', f'{g.fq}:enqueue-through-helper', ok, 'RT enqueue must go through _sched_add (never add() directly)', g.node, m)
    tc = m.classes['TempoClock']
    for fq_, f in (('tempo.setter', tc.setters['tempo']), ('beats.setter', tc.setters['beats']), ('etempo', tc.methods['etempo']),
                   ('clear', tc.methods['clear'])):
        ok = False
        for g in U.self_closure(ctx.repo, tc, f).values():      # the function itself or a helper it delegates to
            src = full(g.node)
            ok = ok or ('with self._sched_cond:' in src and ('self._sched_cond.notify()' in src or 'self._sched_cond.notify_all()' in src))
        ctx.ob('C08.notify', f'{f.fq}:notify', ok, 'changing the time map or clearing must wake the clock thread to recompute its deadline', f.node, m)
    sc = m.classes['SystemClock']
    src = full(sc.methods['clear'].node)
    ctx.ob('C08.notify', f'{sc.methods["clear"].fq}:notify', 'cls._sched_cond.notify_all()' in src or 'cls._sched_cond.notify()' in src,
           'clear must wake the clock thread', sc.methods['clear'].node, m)
    ac = m.classes['AppClock']
    s = ac.methods['sched']
    src = full(s.node)
    ok = U.before(src, 'with cls._sched_lock: cls._scheduler.sched(', 'with cls._tick_cond:', 'cls._tick_cond.notify()')
    ctx.ob('C08.notify', f'{s.fq}:notify', ok, 'AppClock.sched enqueues under its lock and then notifies the tick condition', s.node, m)


def rule_pred(ctx):
    ctx.rule('C08.pred', 'the state deciding whether/how long a clock thread sleeps is read under the lock class of the '
                         'condition it waits on; otherwise a wake-up flag must be set under that lock by every notifier '
                         'before notify and tested (skipping the wait) and cleared under it by the sleeper')
    m = ctx.repo.module('sc3.base.clock')
    cls_of = lock_classes(ctx.repo)
    for cname in ('SystemClock', 'TempoClock', 'AppClock'):
        ci = m.classes[cname]
        run = ci.methods['_run']
        for c in U.calls(run.node):
            if not (U.method_name(c) == 'wait' and isinstance(c.func.value, ast.Attribute) and c.func.value.attr in cls_of):
                continue
            cond = c.func.value.attr
            wcls = cls_of[cond]
            # predicate reads: queue.empty()/peek(), _tick()
            reads = [x for x in U.calls(run.node) if (U.method_name(x) in ('empty', 'peek') and is_queue_recv(x.func.value))
                     or U.method_name(x) == '_tick']
            mism = [x for x in reads if wcls not in lexical_locks(x, cls_of)]
            key = f'{run.fq}:{norm(c.func)}:predicate-lock'
            if not mism:
                ctx.ob('C08.pred', key, True, f'predicate reads happen under the lock of {cond}', c, m)
                continue
            # flag protocol
            flag, why = _flag_protocol(ci, run, c, cond, cls_of)
            ctx.ob('C08.pred', key, flag is not None,
                   f'deadline/predicate ({", ".join(sorted({norm(x)[:40] for x in mism}))}) is read under another lock than '
                   f'{cond}: a task scheduled between the read and the wait is notified before the wait starts and sleeps '
                   f'through the stale timeout (lost wake-up); no wake-up flag protocol found: {why}'
                   if flag is None else f'covered by wake-up flag {flag} set under {cond} before notify and tested before wait', c, m)


def _flag_protocol(ci, run, wait_call, cond, cls_of):
    # sleeper side: `if not cls.F: cond.wait(...)` inside `with cond`, followed by `cls.F = False`
    par = U.enclosing_stmt(wait_call)._parent
    if not (isinstance(par, ast.If) and isinstance(par.test, ast.UnaryOp) and isinstance(par.test.op, ast.Not)
            and U.is_self_attr(par.test.operand)):
        return None, 'the wait is not guarded by `if not <flag>`'
    flag = par.test.operand.attr
    if cond not in with_attrs(par):
        return None, 'flag tested outside the condition lock'
    blk = par._parent.body
    idx_ = [j for j, s in enumerate(blk) if s is par]
    if not idx_:
        return None, 'the wait is not a direct statement of the block that tests the flag (the flag is not tested on every path to the wait)'
    i = idx_[0]
    cleared = any(isinstance(s, ast.Assign) and U.is_self_attr(s.targets[0], flag) and isinstance(s.value, ast.Constant)
                  and s.value.value is False for s in blk[i + 1:])
    if not cleared:
        return None, 'flag never cleared by the sleeper'
    # notifier side: every notify on cond outside _run/_stop must be preceded (same with-block) by flag = True
    for f in ci.methods.values():
        if f is run:
            continue
        for c in U.calls(f.node):
            if U.method_name(c) in ('notify', 'notify_all') and isinstance(c.func.value, ast.Attribute) and c.func.value.attr == cond:
                st = U.enclosing_stmt(c)
                b = st._parent.body
                j = [k for k, s in enumerate(b) if s is st][0]
                sets = any(isinstance(s, ast.Assign) and U.is_self_attr(s.targets[0]) and isinstance(s.value, ast.Constant)
                           for s in b[:j])
                if not sets:
                    return None, f'{f.qualname} notifies without setting a flag under the lock'
                if cond not in with_attrs(c):
                    return None, f'{f.qualname} notifies outside `with {cond}`'
    return flag, ''


def rule_exc(ctx):
    ctx.rule('C08.exc', 'each __awake__ call is inside a try with handlers for StopStream (drop) and Exception (log, no '
                        're-raise) and a finally; between pop() and the try only constant-index reads of the popped entry')
    m = ctx.repo.module('sc3.base.clock')
    sites = [('SystemClock', '_run'), ('TempoClock', '_run'), ('Scheduler', '_wakeup')]
    for cname, mn in sites:
        f = m.classes[cname].methods[mn]
        tries = [t for t in walk_local(f.node) if isinstance(t, ast.Try) and
                 any(U.method_name(c) == '__awake__' for c in U.calls(ast.Module(body=t.body, type_ignores=[])))]
        ctx.require(len(tries) == 1, 'C08.exc', f'{f.fq}: wake-up try not found')
        t = tries[0]
        hn = [norm(h.type) if h.type is not None else 'bare' for h in t.handlers]
        ctx.ob('C08.exc', f'{f.fq}:handlers', 'stm.StopStream' in hn and ('Exception' in hn or 'bare' in hn) and
               hn.index('stm.StopStream') < (hn.index('Exception') if 'Exception' in hn else hn.index('bare')),
               f'handlers must be StopStream then Exception; found {hn}', t, m)
        for h in t.handlers:
            rer = [s for s in walk_local(ast.Module(body=h.body, type_ignores=[])) if isinstance(s, ast.Raise)]
            ctx.ob('C08.exc', f'{f.fq}:handler[{norm(h.type) if h.type else "bare"}]:no-reraise', not rer,
                   'a failing task must not take the clock thread down', h, m)
        ctx.ob('C08.exc', f'{f.fq}:finally', bool(t.finalbody), 'wake-up must have a finally (state restored)', t, m)
        # between pop and try
        par = t._parent
        blk = par.body if any(s is t for s in getattr(par, 'body', [])) else []
        i = [j for j, s in enumerate(blk) if s is t][0] if blk else 0
        pre = blk[:i]
        bad = []
        seen_pop = False
        for s in pre:
            has_pop = any(U.method_name(c) == 'pop' for c in U.calls(s))
            if has_pop:
                seen_pop = True
                continue
            if not seen_pop:
                continue
            ok = isinstance(s, ast.Assign) and isinstance(s.value, ast.Subscript) and isinstance(s.value.slice, ast.Constant) \
                and isinstance(s.value.value, ast.Name) and not U.calls(s)
            if not ok:
                bad.append(norm(s))
        if mn == '_run':
            ctx.ob('C08.exc', f'{f.fq}:pop-to-try', seen_pop and not bad,
                   f'statements between pop() and the protected region may raise and lose the task: {bad}', t, m)
    # the scheduler wake-up call sites hand the popped task directly
    st = m.classes['Scheduler'].setters['seconds']
    cs = [norm(c) for c in U.calls(st.node) if U.method_name(c) == '_wakeup']
    ctx.ob('C08.exc', f'{st.fq}:wakeup-calls', sorted(cs) == ['self._wakeup(item)', 'self._wakeup(self.queue.pop()[1])'],
           f'scheduler wake-ups: {cs}', st.node, m)


def rule_stop(ctx):
    ctx.rule('C08.stop', 'stop paths clear the queue, flip the run flag and notify under the lock, then join outside it')
    m = ctx.repo.module('sc3.base.clock')
    for cname, mn, cond, recv in (('SystemClock', '_sched_stop', '_sched_cond', 'cls'), ('TempoClock', '_stop', '_sched_cond', 'self'),
                                  ('AppClock', '_stop', '_tick_cond', 'cls')):
        f = m.classes[cname].methods[mn]
        withs = [s for s in f.node.body if isinstance(s, ast.With)]
        ok = len(withs) == 1 and norm(withs[0].items[0].context_expr) == f'{recv}.{cond}'
        inner = [norm(s) for s in withs[0].body] if withs else []
        ok = ok and f'{recv}._run_sched = False' in inner and \
            (f'{recv}.{cond}.notify_all()' in inner or f'{recv}.{cond}.notify()' in inner) and \
            inner.index(f'{recv}._run_sched = False') < max(inner.index(x) for x in inner if 'notify' in x)
        if cname != 'AppClock':
            ok = ok and f'{recv}._task_queue.clear()' in inner
        ctx.ob('C08.stop', f'{f.fq}:under-lock', ok, f'flag flip{" + queue clear" if cname != "AppClock" else ""} + notify must happen under {cond}; found {inner}', f.node, m)
        joins = [c for c in U.calls(f.node) if U.method_name(c) == 'join']
        ok = len(joins) == 1 and cond not in with_attrs(joins[0])
        ctx.ob('C08.stop', f'{f.fq}:join-outside', ok, 'joining the clock thread while holding its lock deadlocks', f.node, m)
    # the run loops test the flag after every wait
    for cname in ('SystemClock', 'TempoClock'):
        run = m.classes[cname].methods['_run']
        waits = [c for c in U.calls(run.node) if U.method_name(c) == 'wait']
        for i, c in enumerate(waits):
            st = U.enclosing_stmt(c)
            b = st._parent.body
            j = [k for k, s in enumerate(b) if s is st][0]
            nxt = norm(b[j + 1]) if j + 1 < len(b) else ''
            ctx.ob('C08.stop', f'{run.fq}:wait#{i}:flag-after-wait', nxt.startswith('if not ') and '_run_sched: return' in nxt,
                   'after every wake-up the run flag must be tested', c, m)
    run = m.classes['AppClock'].methods['_run']
    src = full(run.node)
    ctx.ob('C08.stop', f'{run.fq}:flag-before-wait', U.before(src, 'with cls._tick_cond:', 'if not cls._run_sched: return', 'cls._tick_cond.wait('),
           'AppClock tests the run flag under the tick condition before waiting', run.node, m)


def rule_ready(ctx):
    ctx.rule('C08.ready', 'a task is performed only when the physical present has reached its time, compared in the unit of the queue '
                          '(seconds on SystemClock, beats on TempoClock); the sleep lasts head time - now in seconds')
    m = ctx.repo.module('sc3.base.clock')
    f = m.classes['SystemClock'].methods['_run']
    src = full(f.node)
    w_ = [c for c in U.calls(f.node) if U.method_name(c) == 'wait' and c.args]
    inner, bounded = _timeout(w_[0]) if len(w_) == 1 else (None, False)
    ok = U.before(src, 'now = _libsc3.main.elapsed_time()', 'sched_secs = cls._task_queue.peek()[0]', 'if now >= sched_secs: break') and \
        inner == 'sched_secs - now'
    ctx.ob('C08.ready', f'{f.fq}:sleep', ok, 'sleep until the head time: compare now >= head, wait(head - now)', f.node, m)
    ctx.ob('C08.ready', f'{f.fq}:sleep-bounded', bounded, _BOUND_MSG, f.node, m)
    ok = 'while not cls._task_queue.empty() and now >= cls._task_queue.peek()[0]:' in src
    ctx.ob('C08.ready', f'{f.fq}:perform', ok, 'perform exactly the tasks whose time is <= now, head first', f.node, m)
    f = m.classes['TempoClock'].methods['_run']
    src = full(f.node)
    w_ = [c for c in U.calls(f.node) if U.method_name(c) == 'wait' and c.args]
    inner, bounded = _timeout(w_[0]) if len(w_) == 1 else (None, False)
    ok = U.before(src, 'elapsed_beats = self.elapsed_beats()', 'qpeek = self._task_queue.peek()', 'if elapsed_beats >= qpeek[0]: break',
                  'sched_secs = self.beats2secs(qpeek[0])') and inner == 'sched_secs - _libsc3.main.elapsed_time()'
    ctx.ob('C08.ready', f'{f.fq}:sleep', ok, 'compare in beats, sleep in seconds: wait(beats2secs(head) - elapsed seconds)', f.node, m)
    ctx.ob('C08.ready', f'{f.fq}:sleep-bounded', bounded, _BOUND_MSG, f.node, m)
    ar = m.classes['AppClock'].methods['_run']
    w_ = [c for c in U.calls(ar.node) if U.method_name(c) == 'wait' and c.args]
    okb = False
    if len(w_) == 1 and isinstance(w_[0].args[0], ast.Name):
        nm = w_[0].args[0].id
        okb = any(isinstance(x, ast.Assign) and norm(x.targets[0]) == nm and _is_bounded(x.value, nm) for x in walk_local(ar.node))
    elif len(w_) == 1:
        okb = _timeout(w_[0])[1]
    ctx.ob('C08.ready', f'{ar.fq}:sleep-bounded', okb, _BOUND_MSG, ar.node, m)
    ok = 'while not self._task_queue.empty() and elapsed_beats >= self._task_queue.peek()[0]:' in src
    ctx.ob('C08.ready', f'{f.fq}:perform', ok, 'perform exactly the tasks whose beat is <= the elapsed beat, head first', f.node, m)
    st = m.classes['Scheduler'].setters['seconds']
    src = full(st.node)
    v = st.params[1]
    ok = src.count(f'while self._seconds <= {v}:') == 2
    ctx.ob('C08.ready', f'{st.fq}:perform', ok, 'the AppClock scheduler performs the entries whose time is <= the target time', st.node, m)
    # the non-recursive branch parks the expired entries in a list first: it is filled in queue order (append of pop) and must be
    # woken front to back (tasks of one tick in order of scheduled time, ties in scheduling order)
    fills = [c for c in U.calls(st.node) if U.method_name(c) == 'append' and norm(c.func.value) == 'self._expired']
    fwd = [lp for lp in walk_local(st.node) if isinstance(lp, ast.For) and norm(lp.iter) in ('self._expired', 'list(self._expired)', 'tuple(self._expired)')
           and any(U.method_name(c) == '_wakeup' for c in U.calls(lp))]
    takes = [c for c in U.calls(st.node) if U.method_name(c) in ('pop', 'popleft') and norm(c.func.value) == 'self._expired']
    front = all((U.method_name(c) == 'popleft') or (len(c.args) == 1 and U.literal(c.args[0]) == 0) for c in takes)
    backwards = [norm(c) for c in U.calls(st.node) if (U.call_name(c) in ('reversed', 'sorted') and c.args and '_expired' in norm(c.args[0]))
                 or (U.method_name(c) in ('reverse', 'sort') and norm(c.func.value) == 'self._expired')]
    ok = bool(fills) and all(norm(c.args[0]) == 'self.queue.pop()' for c in fills) and (bool(fwd) or (bool(takes) and front)) and front and not backwards
    ctx.ob('C08.ready', f'{st.fq}:expired-in-order', ok,
           f'the parked entries are filled with {[norm(c) for c in fills]} and taken with {[norm(c) for c in takes] or "a forward loop"}'
           f'{" / " + str(backwards) if backwards else ""}: they must be woken in the order they left the queue', st.node, m)
    # pop is the only way a task leaves the queue for execution and the item is executed once
    for cname in ('SystemClock', 'TempoClock'):
        g = m.classes[cname].methods['_run']
        pops = [c for c in U.calls(g.node) if U.method_name(c) == 'pop' and is_queue_recv(c.func.value)]
        aw = [c for c in U.calls(g.node) if U.method_name(c) == '__awake__']
        ctx.ob('C08.ready', f'{g.fq}:once', len(pops) == 1 and len(aw) == 1, 'one pop, one __awake__ per performed task', g.node, m)


_BOUND_MSG = ('a timed wait longer than threading.TIMEOUT_MAX raises OverflowError in the clock thread (a task scheduled 1e10 s ahead kills the '
              'clock); the timeout must be min(<remaining>, threading.TIMEOUT_MAX)')


def _is_bounded(e, *inner_names):
    return isinstance(e, ast.Call) and norm(e.func) == 'min' and len(e.args) == 2 and \
        any(norm(a) in ('threading.TIMEOUT_MAX', 'TIMEOUT_MAX') for a in e.args)


def _timeout(call):
    """(text of the remaining-time expression, bounded?) of a timed wait"""
    e = call.args[0]
    if _is_bounded(e):
        rest = [a for a in e.args if norm(a) not in ('threading.TIMEOUT_MAX', 'TIMEOUT_MAX')]
        return (norm(rest[0]) if rest else None), True
    return norm(e), False


def _numeric_guard(f, call):
    """the re-scheduling call sits under a test whose conjuncts include isinstance(delta, (int, float)) and not isinstance(delta, bool)"""
    for p_ in U.parent_chain(call):
        if isinstance(p_, ast.If) and any(call is y for x in p_.body for y in ast.walk(x)):
            cj = {norm(c) for c in U.conjuncts(p_.test)}
            if {'isinstance(delta, (int, float))', 'not isinstance(delta, bool)'} <= cj:
                return True
    return False


def rule_resched(ctx):
    ctx.rule('C08.resched', 'a numeric return re-schedules relative to the scheduled time (AppClock: relative to the '
                            'physical present, documented drift)')
    m = ctx.repo.module('sc3.base.clock')
    for cname in ('SystemClock', 'TempoClock'):
        f = m.classes[cname].methods['_run']
        rs = [c for c in U.calls(f.node) if U.method_name(c) == '_sched_add']
        r = roots_of(f.node, rs[0].args[0]) if rs else set()
        ctx.ob('C08.resched', f'{f.fq}:source', len(rs) == 1 and 'PHYSICAL' not in r and 'QUEUE-ENTRY' in r,
               f're-scheduling roots {sorted(r)}', f.node, m)
        src = full(f.node)
        ctx.ob('C08.resched', f'{f.fq}:numeric-delta', _numeric_guard(f, rs[0]) if rs else False,
               'only int/float (not bool) deltas re-schedule', f.node, m)
    w = m.classes['Scheduler'].methods['_wakeup']
    src = full(w.node)
    rs = [c for c in U.calls(w.node) if U.method_name(c) == '_sched_add']
    ctx.ob('C08.resched', f'{w.fq}:numeric-delta', len(rs) == 1 and _numeric_guard(w, rs[0]) and norm(rs[0]) == 'self._sched_add(delta, item)',
           'AppClock re-schedules numeric deltas through its scheduler', w.node, m)
    a = m.classes['Scheduler'].methods['_sched_add']
    src = full(a.node)
    ctx.ob('C08.resched', f'{a.fq}:drift', 'if self._drift: from_time = _libsc3.main.elapsed_time() else: from_time = self.seconds' in src and
           f'self.queue.add(from_time + {a.params[1]}, {a.params[2]})' in src, 'drifting scheduler: now + delta (documented)', a.node, m)


INF_SRC = ("float('inf')", 'float("inf")', 'math.inf', 'bi.inf', 'inf')


def _inf_test_subject(test, truth):
    """names whose value is known to be non-infinite when `test` evaluates to `truth`"""
    out = set()
    parts = U.conjuncts(test) if truth else ([test] if not isinstance(test, ast.BoolOp) else
                                             (test.values if isinstance(test.op, ast.Or) else []))
    for c in parts:
        neg = False
        while isinstance(c, ast.UnaryOp) and isinstance(c.op, ast.Not):
            c, neg = c.operand, not neg
        cp = U.compare_parts(c)
        if cp and norm(cp[2]) in INF_SRC and isinstance(cp[0], (ast.Name, ast.Attribute)):
            if (cp[1] is ast.NotEq and truth != neg) or (cp[1] is ast.Eq and truth == neg):
                out.add(norm(cp[0]))
        if isinstance(c, ast.Call) and U.call_name(c) in ('math.isinf', 'isinf', 'bi.isinf') and c.args:
            if truth == neg:
                out.add(norm(c.args[0]))
        if isinstance(c, ast.Call) and U.call_name(c) in ('math.isfinite', 'isfinite') and c.args:
            if truth != neg:
                out.add(norm(c.args[0]))
    return out


def rule_finite(ctx):
    ctx.rule('C08.resched', 'no infinite time enters a clock queue: every site that queues a task (scheduling calls and the re-scheduling of a '
                            'returned delta, rt and nrt) is reached only after the time, or the delta it is computed from, was tested against '
                            'infinity on that path; an infinite deadline makes the clock thread call wait(inf) and die')
    m = ctx.repo.module('sc3.base.clock')
    helpers = {'_sched_add', '_sched_add_nrt'}
    n = 0
    for q, f in sorted(m.functions.items()):
        last = q.split('.')[-1]
        if last in helpers or last in ('rekey', '__init__') or q == 'ClockScheduler.add':    # helpers: their callers are the sites
            continue
        sites = []
        for c in U.calls(f.node):
            mn = U.method_name(c) or U.call_name(c)
            if mn in helpers or (U.call_name(c) == 'ClockTask') or \
                    (mn == 'add' and isinstance(c.func, ast.Attribute) and norm(c.func.value) in ('self.queue', 'self.scheduler', 'cls._task_queue', 'self._task_queue')):
                sites.append(c)
        if not sites:
            continue
        assigns = {}
        for a in walk_local(f.node):
            if isinstance(a, ast.Assign) and isinstance(a.targets[0], (ast.Name, ast.Attribute)):
                assigns.setdefault(norm(a.targets[0]), []).append(a.value)
            elif isinstance(a, ast.AugAssign):
                assigns.setdefault(norm(a.target), []).append(a.value)

        def roots(e, seen=None):
            seen = seen if seen is not None else set()
            out = set()
            for x in ast.walk(e):
                if isinstance(x, (ast.Name, ast.Attribute)):
                    k = norm(x)
                    out.add(k)
                    if k in assigns and k not in seen:
                        seen.add(k)
                        for v in assigns[k]:
                            out |= roots(v, seen)
            return out
        for c in sites:
            n += 1
            targ = c.args[0]
            rs = roots(targ)
            ok_all, reached = True, False
            for ev, out in enumerate_paths(f.node, max_paths=4000):
                idx = next((i for i, (k, node, x) in enumerate(ev) if k in ('stmt', 'return', 'test') and any(y is c for y in ast.walk(node))), None)
                if idx is None:
                    continue
                reached = True
                known = set()
                for k, node, x in ev[:idx + 1]:
                    if k == 'test':
                        known |= _inf_test_subject(node, bool(x))
                if not (known & rs):
                    ok_all = False
                    break
            ctx.ob('C08.resched', f'{f.fq}:{norm(c.func)}({norm(targ)}):finite-time', reached and ok_all,
                   f'{norm(c)[:80]} queues a time derived from {sorted(rs)[:6]} that no test on the path compares with infinity '
                   f'(sched drops an infinite time; a returned float(\'inf\') must be dropped the same way)', c, m)
    ctx.require(n >= 14, 'C08.resched', f'only {n} queueing sites found')


def run(ctx):
    from ..report import SubCtx
    from . import c12
    sub_c12 = SubCtx(ctx, 'C08.map', 'a tempo change while the clock thread sleeps moves every pending deadline: the re-basing of the beats/seconds map (pivot at the current position, notify), as decided for C12')
    c12.rule_rebase(sub_c12)
    from . import c09
    sub = SubCtx(ctx, 'C08.queue', 'every clock wakes its tasks in queue order: the priority-queue contract of the task queue, as decided for C09')
    c09.rule_inv(sub)
    c09.rule_key(sub)
    from . import c11
    sub_c11 = SubCtx(ctx, 'C08.exc', 'a task that raises does not affect the others only if the failed routine stops being the current thread: restoring current_tt on every exit of Routine.next, as decided for C11 (a later relative sched would take the dead routine\'s frozen time as its base and wake tasks early)')
    c11.rule_restore(sub_c11)
    rule_finite(ctx)
    rule_guard(ctx)
    rule_wait(ctx)
    rule_notify(ctx)
    rule_pred(ctx)
    rule_exc(ctx)
    rule_stop(ctx)
    rule_resched(ctx)
    rule_ready(ctx)
    ctx.assume('Scheduler is used by AppClock only (its docstring says so): its methods are analysed as helpers of AppClock')


MUTANTS = [
    dict(rule='C08.ready', name='SystemClock sleeps an unbounded timeout (fix reverted)', file='sc3/base/clock.py',
         old="                    cls._sched_cond.wait(min(\n                        sched_secs - now, threading.TIMEOUT_MAX))", new="                    cls._sched_cond.wait(sched_secs - now)"),
    dict(rule='C08.ready', name='AppClock sleeps an unbounded timeout (fix reverted)', file='sc3/base/clock.py',
         old="                    if seconds is not None:\n                        seconds = min(seconds, threading.TIMEOUT_MAX)\n", new=""),
    dict(rule='C08.ready', name='AppClock wakes the tasks of one tick from the end of the list (seed C08-f)', file='sc3/base/clock.py',
         old="            for time, item in self._expired:\n                self._seconds = time\n                self._beats = self._clock.secs2beats(time)\n                self._wakeup(item)\n            self._expired.clear()",
         new="            while self._expired:\n                time, item = self._expired.pop()\n                self._seconds = time\n                self._beats = self._clock.secs2beats(time)\n                self._wakeup(item)"),
    dict(rule='C08.queue', name='queue re-insertion updates the entry in place (seeds C08-e, C05-f)', file='sc3/base/_taskq.py',
         old="        if task in self._entry_finder:\n            self.remove(task)\n        count = next(self._counter)\n        entry = [prio, count, task]\n        self._entry_finder[task] = entry\n        heapq.heappush(self._queue, entry)",
         new="        count = next(self._counter)\n        if task in self._entry_finder:\n            entry = self._entry_finder[task]\n            entry[0] = prio\n            entry[1] = count\n            return\n        entry = [prio, count, task]\n        self._entry_finder[task] = entry\n        heapq.heappush(self._queue, entry)"),
    dict(rule='C08.resched', name='SystemClock re-schedules an infinite delta (fix reverted)', file='sc3/base/clock.py',
         old="                        and not isinstance(delta, bool)\\\n                        and delta != float('inf'):  # As sched.\n                            time = sched_time + delta",
         new="                        and not isinstance(delta, bool):\n                            time = sched_time + delta"),
    dict(rule='C08.resched', name='AppClock re-schedules an infinite delta (fix reverted)', file='sc3/base/clock.py',
         old="            if isinstance(delta, (int, float)) and not isinstance(delta, bool)\\\n            and delta != float('inf'):  # As sched.\n                self._sched_add(delta, item)",
         new="            if isinstance(delta, (int, float)) and not isinstance(delta, bool):\n                self._sched_add(delta, item)"),
    dict(rule='C08.resched', name='sched_abs does not drop an infinite time', file='sc3/base/clock.py',
         old="        item._clock = cls\n        if time == float('inf'):\n            return\n        if cls.mode == _libsc3.main.NRT_MODE:\n            ClockTask(time, cls, item, _libsc3.main._clock_scheduler)",
         new="        item._clock = cls\n        if cls.mode == _libsc3.main.NRT_MODE:\n            ClockTask(time, cls, item, _libsc3.main._clock_scheduler)"),
    dict(rule='C08.guard', name='main lock replaced by a no-op context in one mode', file='sc3/base/main.py',
         old="        cls._clock_scheduler = clk.ClockScheduler()", new="        cls._clock_scheduler = clk.ClockScheduler()\n        cls._main_lock = contextlib.nullcontext()"),
    dict(rule='C08.guard', name='sched reads the base time before taking the lock (seed C08-c)', file='sc3/base/clock.py',
         old="        item._clock = cls\n        if cls.mode == _libsc3.main.NRT_MODE:\n            seconds = _libsc3.main.current_tt._seconds\n            seconds += delta\n            if seconds == float('inf'):\n                return\n            ClockTask(seconds, cls, item, _libsc3.main._clock_scheduler)\n        else:\n            with cls._sched_cond:\n                seconds = _libsc3.main.current_tt._seconds\n                seconds += delta\n                if seconds == float('inf'):\n                    return\n                cls._sched_add(seconds, item)",
         new="        item._clock = cls\n        seconds = _libsc3.main.current_tt._seconds\n        seconds += delta\n        if seconds == float('inf'):\n            return\n        if cls.mode == _libsc3.main.NRT_MODE:\n            ClockTask(seconds, cls, item, _libsc3.main._clock_scheduler)\n        else:\n            with cls._sched_cond:\n                cls._sched_add(seconds, item)"),
    dict(rule='C08.guard', name='TempoClock.sched computes the beat outside the lock', file='sc3/base/clock.py',
         old="            with self._sched_cond:\n                beats = self._calc_sched_beats(delta)\n                if beats == float('inf'):\n                    return\n                self._sched_add(beats, item)",
         new="            beats = self._calc_sched_beats(delta)\n            if beats == float('inf'):\n                return\n            with self._sched_cond:\n                self._sched_add(beats, item)"),
    dict(rule='C08.guard', name='sched_abs without the lock', file='sc3/base/clock.py',
         old="        else:\n            with cls._sched_cond:\n                cls._sched_add(time, item)", new="        else:\n            cls._sched_add(time, item)"),
    dict(rule='C08.guard', name='AppClock.clear without the lock', file='sc3/base/clock.py',
         old="            with cls._sched_lock:\n                cls._scheduler.clear()", new="            cls._scheduler.clear()"),
    dict(rule='C08.guard', name='TempoClock.sched enqueues outside the lock', file='sc3/base/clock.py',
         old="            with self._sched_cond:\n                beats = self._calc_sched_beats(delta)\n                if beats == float('inf'):\n                    return\n                self._sched_add(beats, item)",
         new="            beats = self._calc_sched_beats(delta)\n            if beats == float('inf'):\n                return\n            self._sched_add(beats, item)"),
    dict(rule='C08.wait', name='while -> if around wait', file='sc3/base/clock.py',
         old="                while cls._task_queue.empty():\n                    cls._sched_cond.wait()", new="                if cls._task_queue.empty():\n                    cls._sched_cond.wait()"),
    dict(rule='C08.notify', name='notify deleted in _sched_add', file='sc3/base/clock.py',
         old="        cls._task_queue.add(secs, task)\n        if cls._task_queue.peek()[0] != prev_time:\n            cls._sched_cond.notify_all()", new="        cls._task_queue.add(secs, task)"),
    dict(rule='C08.notify', name='tempo setter does not wake the thread', file='sc3/base/clock.py',
         old="        mdl.NotificationCenter.notify(self, 'tempo')\n        if self.mode == _libsc3.main.NRT_MODE:\n            _libsc3.main._clock_scheduler.rekey(self)\n        else:\n            with self._sched_cond:\n                self._sched_cond.notify()  # NOTE: is notify_one in C++.\n\n    def etempo",
         new="        mdl.NotificationCenter.notify(self, 'tempo')\n        if self.mode == _libsc3.main.NRT_MODE:\n            _libsc3.main._clock_scheduler.rekey(self)\n\n    def etempo"),
    dict(rule='C08.notify', name='sched adds directly to the queue', file='sc3/base/clock.py',
         old="                if seconds == float('inf'):\n                    return\n                cls._sched_add(seconds, item)", new="                if seconds == float('inf'):\n                    return\n                cls._task_queue.add(seconds, item)"),
    dict(rule='C08.pred', name='(fix reverted) AppClock waits without the pending flag', file='sc3/base/clock.py',
         old="                if not cls._tick_pending:\n                    if seconds is not None:\n                        seconds = min(seconds, threading.TIMEOUT_MAX)\n                    cls._tick_cond.wait(seconds)  # if seconds is None waits for notify\n                cls._tick_pending = False",
         new="                if seconds is not None:\n                    seconds = min(seconds, threading.TIMEOUT_MAX)\n                cls._tick_cond.wait(seconds)  # if seconds is None waits for notify"),
    dict(rule='C08.pred', name='notifier does not set the flag', file='sc3/base/clock.py',
         old="                cls._tick_pending = True\n", new=""),
    dict(rule='C08.exc', name='Exception narrowed to ValueError', file='sc3/base/clock.py',
         old="                    except Exception:\n                        # Always recover.", new="                    except ValueError:\n                        # Always recover."),
    dict(rule='C08.exc', name='handler re-raises', file='sc3/base/clock.py',
         old="                            id(self), exc_info=1)\n", new="                            id(self), exc_info=1)\n                        raise\n"),
    dict(rule='C08.exc', name='finally dropped', file='sc3/base/clock.py',
         old="                            exc_info=1)\n                    finally:\n                        _libsc3.main._in_awake_call = False\n\n    @classmethod\n    def clear",
         new="                            exc_info=1)\n                    _libsc3.main._in_awake_call = False\n\n    @classmethod\n    def clear"),
    dict(rule='C08.stop', name='flag set outside lock without notify', file='sc3/base/clock.py',
         old="        with cls._sched_cond:\n            cls._task_queue.clear()\n            cls._run_sched = False\n            cls._sched_cond.notify_all()\n        cls._thread.join()",
         new="        cls._run_sched = False\n        with cls._sched_cond:\n            cls._task_queue.clear()\n        cls._thread.join()"),
    dict(rule='C08.stop', name='join while holding the lock', file='sc3/base/clock.py',
         old="            self._run_sched = False\n            self._sched_cond.notify_all()\n        self._thread.join()", new="            self._run_sched = False\n            self._sched_cond.notify_all()\n            self._thread.join()"),
    dict(rule='C08.resched', name='bool deltas re-schedule', file='sc3/base/clock.py',
         old="            if isinstance(delta, (int, float)) and not isinstance(delta, bool)\\\n            and delta != float('inf'):  # As sched.\n                self._sched_add(delta, item)",
         new="            if isinstance(delta, (int, float))\\\n            and delta != float('inf'):  # As sched.\n                self._sched_add(delta, item)"),
    dict(rule='C08.ready', name='TempoClock sleeps beats as seconds', file='sc3/base/clock.py',
         old="                    sched_secs = self.beats2secs(qpeek[0])\n", new="                    sched_secs = qpeek[0]\n"),
    dict(rule='C08.ready', name='SystemClock performs tasks scheduled after now', file='sc3/base/clock.py',
         old="                and now >= cls._task_queue.peek()[0]:", new="                and now + 0.001 >= cls._task_queue.peek()[0]:"),
]

REPAIRS = []

# behaviour-preserving (for C08) edits that must stay silent
EQUIV = [
    dict(name='AppClock drains the parked entries from the front', file='sc3/base/clock.py',
         old="            for time, item in self._expired:\n                self._seconds = time\n                self._beats = self._clock.secs2beats(time)\n                self._wakeup(item)\n            self._expired.clear()",
         new="            while self._expired:\n                time, item = self._expired.pop(0)\n                self._seconds = time\n                self._beats = self._clock.secs2beats(time)\n                self._wakeup(item)"),
    dict(name='returned infinity filtered on the computed time inside the branch', file='sc3/base/clock.py',
         old="                        and not isinstance(delta, bool)\\\n                        and delta != float('inf'):  # As sched.\n                            time = sched_time + delta\n                            cls._sched_add(time, task)",
         new="                        and not isinstance(delta, bool):\n                            time = sched_time + delta\n                            if not math.isinf(time):\n                                cls._sched_add(time, task)"),
    dict(name='NRT-only queue method with the name of an RT helper is called without a lock', file='sc3/base/clock.py',
         old="            _libsc3.main._clock_scheduler.clear(self)\n            return\n",
         new="            _libsc3.main._clock_scheduler.clear(self)\n            _libsc3.main._clock_scheduler.clear(self)\n            return\n"),
    dict(name='tempo setter delegates its notify to a helper', file='sc3/base/clock.py',
         old="        # en tempo_\n        mdl.NotificationCenter.notify(self, 'tempo')\n        if self.mode == _libsc3.main.NRT_MODE:\n            _libsc3.main._clock_scheduler.rekey(self)\n        else:\n            with self._sched_cond:\n                self._sched_cond.notify()  # NOTE: is notify_one in C++.\n\n    def etempo",
         new="        # en tempo_\n        mdl.NotificationCenter.notify(self, 'tempo')\n        self._map_changed()\n\n    def _map_changed(self):\n        if self.mode == _libsc3.main.NRT_MODE:\n            _libsc3.main._clock_scheduler.rekey(self)\n        else:\n            with self._sched_cond:\n                self._sched_cond.notify()  # NOTE: is notify_one in C++.\n\n    def etempo"),
]
