"""C05 - logical time in routines is exact and independent of physical jitter."""

import ast

from ..loader import norm, full, walk_local, walk_local_ordered, qualname_of
from .. import util as U
from ..flow import enumerate_paths

EXPLANATION = (
    'A source-level taint analysis over the clock loops: every function that reads physical time is inventoried '
    'against a frozen, reasoned list; in each wake-up site the argument of _update_logical_time and the time passed '
    'to the re-scheduling call are traced through local assignments to their roots, which must be the popped queue '
    'entry and the returned delta and must not include a physical-time read (AppClock\'s drifting scheduler is the '
    'documented exception); every sched() branch (RT and NRT) must queue current-thread logical time + delta; '
    'Routine.next must copy the parent\'s time before the body on every path; the _in_awake_call flag is set after '
    'the logical-time update, before __awake__, and cleared in a finally.')
LEVEL_TEXT = ('static taint / def-use and ordering rules on SystemClock._run, TempoClock._run, Scheduler, ClockTask, '
              'ClockScheduler, every sched/sched_abs branch and Routine.next. Does not decide observed times under real '
              'jitter or float exactness.')
LEVEL_NOTE = 'timing itself is not decided; assumes local assignments are the only dataflow inside the analysed functions'
LEVEL_TEXT_ADD = ' Also: queued times are passed through untransformed (C05.exact).'
LEVEL_TEXT_ADD += ' Rounds e-f: the NRT task re-schedules from its stored beat; the scheduler queues keep the priority-queue contract (shared with C09).'
LEVEL_TEXT = (globals().get('LEVEL_TEXT') or EXPLANATION) + LEVEL_TEXT_ADD
TECHNIQUE = 'static analysis: intra-procedural taint (physical-time sources) + must-precede ordering on enumerated paths'

PHYS_CALLS = {'elapsed_time', 'elapsed_beats', 'osc_time'}
PHYS_TABLE = {
    'sc3.base.main:RtMain._init': 'records the process start instant',
    'sc3.base.main:RtMain.elapsed_time': 'definition of physical elapsed time',
    'sc3.base.main:RtMain.wait': 'timeout bookkeeping of the blocking helper for scripts',
    'sc3.base.clock:SystemClock.osc_time': 'public helper returning the physical present as timetag',
    'sc3.base.clock:SystemClock._run': 'sleep duration and readiness comparison only',
    'sc3.base.clock:Scheduler._sched_add': "AppClock's documented drifting scheduler",
    'sc3.base.clock:AppClock._tick': "AppClock's documented drifting scheduler advances to the physical present",
    'sc3.base.clock:TempoClock._run': 'sleep duration and readiness comparison only',
    'sc3.base.clock:TempoClock.etempo': 'documented: sets tempo at the physical present',
    'sc3.base.clock:TempoClock.elapsed_beats': 'definition of physical elapsed beats',
    'sc3.base._oscinterface:OscInterface._handle_request': 'arrival stamp of incoming messages without timetag',
    'sc3.base.stream:_MainTimeThread._seconds': 'documented: outside routines logical time is the physical present',
    'sc3.synth._serverstatus:ServerStatusWatcher.ping.<locals>.task': 'latency measurement for the user',
}


def phys_in(node):
    for c in U.calls(node):
        n = U.call_name(c) or ''
        if n == 'time.time' or n.split('.')[-1] in PHYS_CALLS or n in ('time.monotonic', 'time.perf_counter', 'time.time_ns'):
            return True
    return False


def rule_src(ctx):
    ctx.rule('C05.src', 'the set of functions that read physical time (time.time / elapsed_time / elapsed_beats / '
                        'osc_time) is exactly the frozen, reasoned list')
    seen = set()
    for fi in ctx.repo.functions.values():
        for c in U.calls(fi.node):
            n = U.call_name(c) or ''
            if n == 'time.time' or n.split('.')[-1] in PHYS_CALLS or n in ('time.monotonic', 'time.perf_counter', 'time.time_ns'):
                seen.add(fi.fq)
                ok = fi.fq in PHYS_TABLE
                ctx.ob('C05.src', f'{fi.fq}:reads-physical-time', ok,
                       PHYS_TABLE.get(fi.fq, f'{fi.fq} reads physical time ({norm(c)}) and is not in the reasoned '
                                             f'inventory: logical time may now depend on wake-up jitter'), c, fi.module)
    ctx.require(len(seen) >= 10, 'C05.src', f'only {len(seen)} physical-time readers found')
    ctx.extra['physical_time_readers'] = sorted(seen)


def roots_of(fnode, expr, extra_src=None, methods=None):
    """transitive roots of expr through local assignments (flow-insensitive)"""
    assigns = {}
    for s in walk_local(fnode):
        if isinstance(s, ast.Assign):
            for t in s.targets:
                for tt in U.assigned_targets(ast.Assign(targets=[t], value=s.value)):
                    assigns.setdefault(norm(tt), []).append(s.value)
        elif isinstance(s, ast.AugAssign):
            assigns.setdefault(norm(s.target), []).append(s.value)
            assigns.setdefault(norm(s.target), []).append(s.target)
        elif isinstance(s, ast.For):
            for tt in U.assigned_targets(ast.Assign(targets=[s.target], value=s.iter)):
                assigns.setdefault(norm(tt), []).append(s.iter)
    params = {a.arg for a in fnode.args.args + fnode.args.kwonlyargs}
    out = set()
    seen = set()

    def visit(e):
        if phys_in(e):
            out.add('PHYSICAL')
        for c in U.calls(e):
            mn = U.method_name(c)
            if mn == 'pop' or mn == 'peek':
                out.add('QUEUE-ENTRY')
            # a private one-expression helper of the same class is read through (its self.<attr> are this function's)
            if methods and U.is_self_attr(c.func) and c.func.attr in methods and ('helper', c.func.attr) not in seen:
                hb = U.body_nodoc(methods[c.func.attr].node)
                if len(hb) == 1 and isinstance(hb[0], ast.Return) and hb[0].value is not None:
                    seen.add(('helper', c.func.attr))
                    visit(hb[0].value)
        src = norm(e)
        if 'current_tt._seconds' in src:
            out.add('LOGICAL')
        for n in ast.walk(e):
            key = None
            if isinstance(n, ast.Name):
                key = n.id
            elif isinstance(n, ast.Attribute) and U.attr_chain(n) and U.attr_chain(n)[0] in ('self', 'cls'):
                key = norm(n)
            if key is None:
                continue
            if key in assigns:
                if key not in seen:
                    seen.add(key)
                    for v in assigns[key]:
                        visit(v)
                if isinstance(n, ast.Name) and key in params:
                    out.add(f'param:{key}')      # a parameter that is also re-bound (normalised) keeps its root
            elif isinstance(n, ast.Name) and key in params:
                out.add(f'param:{key}')
    visit(expr)
    return out


def rule_taint(ctx):
    ctx.rule('C05.taint', 'at every wake-up site the logical time installed and the re-scheduling time derive from the '
                          'popped queue entry (+ returned delta) and from no physical-time read')
    repo = ctx.repo
    sites = [('sc3.base.clock:SystemClock._run', '_sched_add'), ('sc3.base.clock:TempoClock._run', '_sched_add')]
    for fq, resched in sites:
        f = repo.func(fq)
        mod = f.module
        ul = [c for c in U.calls(f.node) if U.method_name(c) == '_update_logical_time']
        ctx.require(len(ul) == 1, 'C05.taint', f'{fq}: expected one _update_logical_time call')
        r = roots_of(f.node, ul[0].args[0], methods=(f.cls.methods if f.cls else None))
        ctx.ob('C05.taint', f'{fq}:logical-time-source', 'PHYSICAL' not in r and 'QUEUE-ENTRY' in r,
               f'logical time installed from roots {sorted(r)}; must be the popped entry only', ul[0], mod)
        rs = [c for c in U.calls(f.node) if U.method_name(c) == resched]
        ctx.require(len(rs) == 1, 'C05.taint', f'{fq}: expected one re-scheduling call')
        r = roots_of(f.node, rs[0].args[0], methods=(f.cls.methods if f.cls else None))
        ctx.ob('C05.taint', f'{fq}:reschedule-source', 'PHYSICAL' not in r and 'QUEUE-ENTRY' in r,
               f're-scheduling time has roots {sorted(r)}; must be scheduled time + delta, never now + delta', rs[0], mod)
        # delta is the __awake__ return
        aw = [s for s in walk_local(f.node) if isinstance(s, ast.Assign) and isinstance(s.value, ast.Call)
              and U.method_name(s.value) == '__awake__']
        ctx.ob('C05.taint', f'{fq}:delta-source', len(aw) == 1 and norm(aw[0].targets[0]) in U.names_in(rs[0].args[0]) or
               any(norm(aw[0].targets[0]) in norm(v) for v in [rs[0].args[0]]) or
               (len(aw) == 1 and _flows(f.node, norm(aw[0].targets[0]), rs[0].args[0])),
               'the re-scheduling delta must be the value returned by __awake__', rs[0], mod)
    # ClockTask._wakeup (NRT)
    f = repo.func('sc3.base.clock:ClockTask._wakeup')
    tparam = f.params[1]
    ul = [c for c in U.calls(f.node) if U.method_name(c) == '_update_logical_time']
    ok = len(ul) == 1 and norm(ul[0].args[0]) == tparam
    ctx.ob('C05.taint', f'{f.fq}:logical-time-source', ok, 'NRT wake-up must install exactly the scheduled time', f.node, f.module)
    rs = [c for c in U.calls(f.node) if U.method_name(c) == 'add' and norm(c.func.value) == 'self.scheduler']
    ok = len(rs) == 1
    chain = ''
    if ok:
        r = roots_of(f.node, rs[0].args[0])
        ok = 'PHYSICAL' not in r and 'LOGICAL' not in r and f'param:{tparam}' not in r
        chain = sorted(r)
    ctx.ob('C05.taint', f'{f.fq}:reschedule-source', ok,
           f'NRT re-scheduling must be the stored scheduled beat + delta (exact, as the rt clocks keep it), not a value re-derived from '
           f'the wake-up seconds (a seconds->beats->seconds round trip per wake-up accumulates error) nor a time read; roots {chain}', f.node, f.module)
    src = full(f.node)
    stores = [s_ for s_ in walk_local(f.node) if isinstance(s_, (ast.Assign, ast.AugAssign)) and
              norm(s_.targets[0] if isinstance(s_, ast.Assign) else s_.target) == 'self.beats']
    adv = len(stores) == 1 and (
        (isinstance(stores[0], ast.Assign) and norm(stores[0].value) in ('self.beats + delta', 'delta + self.beats')) or
        (isinstance(stores[0], ast.AugAssign) and isinstance(stores[0].op, ast.Add) and norm(stores[0].value) == 'delta'))
    ctx.ob('C05.taint', f'{f.fq}:unit-conversion',
           adv and len(rs) == 1 and norm(rs[0].args[0]) == 'self.clock.beats2secs(self.beats)' and 'secs2beats' not in src,
           'delta is added to the stored beat position (clock unit) and the sum converted to seconds with the same clock', f.node, f.module)
    ci_ = repo.cls('sc3.base.clock:ClockTask')
    init = ci_.methods['__init__']
    isrc = full(init.node)
    bp = init.params[1]
    ctx.ob('C05.taint', f'{init.fq}:stores-beats', f'self.beats = {bp}' in isrc and f'scheduler.add(clock.beats2secs({bp}), self)' in isrc,
           'the task stores the beat it is scheduled at and is queued at that beat converted to seconds', init.node, init.module)
    g = repo.func('sc3.base.clock:ClockScheduler.run')
    src = full(g.node)
    ok = 'time, clock_task = self.queue.pop()' in src and 'clock_task._wakeup(time)' in src
    ctx.ob('C05.taint', f'{g.fq}:dispatch', ok, 'NRT tasks are awakened with the time they were queued at', g.node, g.module)
    # ClockTask.__init__ queues beats2secs(beats)
    h = repo.func('sc3.base.clock:ClockTask.__init__')
    ctx.ob('C05.taint', f'{h.fq}:queue-time', f'scheduler.add(clock.beats2secs({h.params[1]}), self)' in full(h.node),
           'NRT tasks are queued at the clock-converted time', h.node, h.module)
    # Scheduler (AppClock): logical time = queue entry time
    f = repo.func('sc3.base.clock:Scheduler._wakeup')
    ul = [c for c in U.calls(f.node) if U.method_name(c) == '_update_logical_time']
    ctx.ob('C05.taint', f'{f.fq}:logical-time-source', len(ul) == 1 and norm(ul[0].args[0]) == 'self._seconds',
           'scheduler wake-up installs the scheduler\'s own time', f.node, f.module)
    st = repo.func('sc3.base.clock:Scheduler.seconds.setter')
    vparam = st.params[1]
    bad = 0
    npaths = 0
    for ev, out in enumerate_paths(st.node, unroll=2):
        last = None
        for k, n, x in ev:
            if k == 'stmt' and isinstance(n, ast.Assign) and norm(n.targets[0]) == 'self._seconds':
                last = norm(n.value)
            if k == 'stmt' and any(U.method_name(c) == '_wakeup' for c in U.calls(n)):
                npaths += 1
                if last not in ('self.queue.peek()[0]', 'time'):
                    bad += 1
    ctx.ob('C05.taint', f'{st.fq}:wakeup-time', bad == 0 and npaths > 0,
           f'every wake-up must happen with the scheduler time set to the entry\'s own time, never to the target '
           f'value {vparam!r} ({bad} of {npaths} wake-up paths deviate)', st.node, st.module)


def _flows(fnode, var, expr):
    seen = set()
    work = list(U.names_in(expr))
    assigns = {}
    for s in walk_local(fnode):
        if isinstance(s, ast.Assign) and isinstance(s.targets[0], ast.Name):
            assigns.setdefault(s.targets[0].id, []).append(s.value)
    while work:
        n = work.pop()
        if n == var:
            return True
        if n in seen:
            continue
        seen.add(n)
        for v in assigns.get(n, []):
            work.extend(U.names_in(v))
    return False


def rule_exact(ctx, rid='C05.exact'):
    ctx.rule(rid, 'the time under which a task is queued is passed through unmodified: queue insertions in the clocks take a '
                          'parameter, a sum of scheduled time and delta, or a beats<->seconds conversion - never a rounded, truncated or '
                          'otherwise transformed value (the queued time comes back as the task\'s logical time and as the base of the next '
                          'reschedule, so any rounding accumulates)')
    m = ctx.repo.module('sc3.base.clock')
    n = 0
    allowed_calls = {'beats2secs', 'secs2beats'}
    for fi in m.functions.values():
        for c in U.calls(fi.node):
            if U.method_name(c) == 'add' and isinstance(c.func, ast.Attribute) and len(c.args) == 2 and \
                    (norm(c.func.value).endswith('queue') or norm(c.func.value) in ('scheduler', 'self.scheduler')):
                n += 1
                t = c.args[0]
                bad = [norm(x) for x in ast.walk(t) if isinstance(x, ast.Call) and U.method_name(x) not in allowed_calls]
                badop = [norm(x) for x in ast.walk(t) if isinstance(x, ast.BinOp) and not isinstance(x.op, (ast.Add,))]
                ctx.ob(rid, f'{fi.fq}:{norm(c)[:60]}', not bad and not badop,
                       f'queued time {norm(t)} is transformed by {bad + badop}: logical time in NRT (and reschedule bases) drift away from '
                       f'start + sum of deltas', c, m)
    ctx.require(n >= 6, rid, f'only {n} queue insertions found in the clocks')


def rule_sched(ctx):
    ctx.rule('C05.sched', 'every sched() branch queues current-thread logical time + delta; sched_abs queues the given '
                          'time; AppClock RT (drifting scheduler) is the documented exception')
    repo = ctx.repo

    def branches(f):
        """-> [(tag, stmts)] splitting on `if <x>.mode == ...NRT_MODE`"""
        out = []
        for s in f.node.body:
            if isinstance(s, ast.If) and 'NRT_MODE' in norm(s.test) and '.mode' in norm(s.test):
                out.append(('nrt', s.body))
                out.append(('rt', s.orelse))
        return out

    def queue_call(stmts_):
        for s in stmts_:
            for c in U.calls(s):
                mn = U.method_name(c)
                if mn in ('ClockTask', '_sched_add', '_sched_add_nrt') or (mn == 'sched' and 'scheduler' in norm(c.func.value)):
                    return c
        return None

    for fq in ('sc3.base.clock:SystemClock.sched', 'sc3.base.clock:TempoClock.sched', 'sc3.base.clock:AppClock.sched'):
        f = repo.func(fq)
        dparam = f.params[1]
        br = branches(f)
        ctx.require(len(br) == 2, 'C05.sched', f'{fq}: mode switch not found')
        for tag, body in br:
            qc = queue_call(body)
            key = f'{fq}:{tag}:queued-time'
            if qc is None:
                ctx.ob('C05.sched', key, False, 'no queueing call in this branch', f.node, f.module)
                continue
            if fq.endswith('AppClock.sched') and tag == 'rt':
                ok = norm(qc) == f'cls._scheduler.sched({dparam}, {f.params[2]})'
                ctx.ob('C05.sched', key, ok, 'AppClock RT hands delta to its drifting scheduler (documented)', qc, f.module,
                       nontrivial=False)
                continue
            r = roots_of(f.node, qc.args[0])
            # TempoClock: through _calc_sched_beats
            if any(U.method_name(c) == '_calc_sched_beats' for c in U.calls(ast.Module(body=body, type_ignores=[]))):
                g = repo.func('sc3.base.clock:TempoClock._calc_sched_beats')
                src = full(g.node)
                okc = 'seconds = _libsc3.main.current_tt._seconds' in src and 'beats = self.secs2beats(seconds)' in src and \
                    src.endswith(f'return beats + {g.params[1]}')
                cc = [c for c in U.calls(ast.Module(body=body, type_ignores=[])) if U.method_name(c) == '_calc_sched_beats'][0]
                ok = okc and norm(cc.args[0]) == dparam and norm(qc.args[0]) == 'beats'
                ctx.ob('C05.sched', key, ok, 'must queue secs2beats(current logical time) + delta', qc, f.module)
                continue
            ok = 'LOGICAL' in r and f'param:{dparam}' in r and 'PHYSICAL' not in r
            ctx.ob('C05.sched', key, ok,
                   f'queued time has roots {sorted(r)}; must be the current thread\'s logical time + {dparam} '
                   f'(an absolute delta makes NRT logical time jump backwards)', qc, f.module)
    for fq in ('sc3.base.clock:SystemClock.sched_abs', 'sc3.base.clock:TempoClock.sched_abs'):
        f = repo.func(fq)
        tparam = f.params[1]
        for tag, body in branches(f):
            qc = queue_call(body)
            ok = qc is not None and norm(qc.args[0]) == tparam
            ctx.ob('C05.sched', f'{fq}:{tag}:queued-time', ok, 'sched_abs must queue exactly the given time', f.node, f.module)
    # MetaClock.play = sched(0, task)
    f = repo.func('sc3.base.clock:MetaClock.play')
    ctx.ob('C05.sched', f'{f.fq}:play', full(f.node).endswith(f'cls.sched(0, {f.params[1]})'), 'play schedules at the current logical time', f.node, f.module)


def rule_inherit(ctx):
    ctx.rule('C05.inherit', 'on every path of Routine.next that runs the body: parent = current_tt, current_tt = self, '
                            '_m_seconds = parent._seconds, in that order, before the protected region')
    f = ctx.repo.func('sc3.base.stream:Routine.next')
    n = 0
    bad = 0
    for ev, out in enumerate_paths(f.node, unroll=1):
        idx_try = next((i for i, e in enumerate(ev) if e[0] == 'try'), None)
        if idx_try is None:
            continue
        n += 1
        pre = [norm(e[1]) for e in ev[:idx_try] if e[0] == 'stmt']
        want = ['self.parent = _libsc3.main.current_tt', '_libsc3.main.current_tt = self', 'self._m_seconds = self.parent._seconds']
        pos = [pre.index(w) if w in pre else -1 for w in want]
        if not (all(p >= 0 for p in pos) and pos == sorted(pos)):
            bad += 1
    ctx.ob('C05.inherit', f'{f.fq}:copy-parent-time', n > 0 and bad == 0,
           f'{bad} of {n} resumption paths do not copy the parent\'s logical time before running the body', f.node, f.module)
    # the copy must not be conditional on first start
    for s in walk_local(f.node):
        if isinstance(s, ast.Assign) and norm(s.targets[0]) == 'self._m_seconds':
            par = s._parent
            ctx.ob('C05.inherit', f'{f.fq}:unconditional', isinstance(par, ast.With),
                   'time inheritance must happen on every resumption, not only the first', s, f.module)
    tt = ctx.repo.func('sc3.base.stream:TimeThread._seconds')
    ctx.ob('C05.inherit', f'{tt.fq}', full(tt.node).endswith('return self._m_seconds'), 'a routine\'s time is its stored logical time', tt.node, tt.module)


def rule_awake(ctx):
    ctx.rule('C05.awake', 'logical-time update precedes _in_awake_call = True precedes __awake__; the flag is cleared '
                          'in a finally (RT wake-up sites)')
    for fq in ('sc3.base.clock:SystemClock._run', 'sc3.base.clock:TempoClock._run', 'sc3.base.clock:Scheduler._wakeup'):
        f = ctx.repo.func(fq)
        tries = [t for t in walk_local(f.node) if isinstance(t, ast.Try) and any(U.method_name(c) == '__awake__' for c in U.calls(ast.Module(body=t.body, type_ignores=[])))]
        ctx.require(len(tries) == 1, 'C05.awake', f'{fq}: wake-up try block not found')
        t = tries[0]
        ss = [norm(s) for s in t.body]
        i_up = next((i for i, s in enumerate(ss) if '_update_logical_time(' in s), -1)
        i_set = next((i for i, s in enumerate(ss) if s == '_libsc3.main._in_awake_call = True'), -1)
        i_aw = next((i for i, s in enumerate(ss) if '__awake__(' in s), -1)
        ctx.ob('C05.awake', f'{fq}:order', 0 <= i_up < i_set < i_aw,
               'must update logical time, then freeze main-thread time, then run the task', t, f.module)
        fin = [norm(s) for s in t.finalbody]
        ctx.ob('C05.awake', f'{fq}:cleared-in-finally', '_libsc3.main._in_awake_call = False' in fin,
               'the freeze flag must be cleared in a finally', t, f.module)
    f = ctx.repo.func('sc3.base.main:RtMain._update_logical_time')
    src = full(f.node)
    ok = 'with cls._main_lock: if not cls._in_awake_call: cls.main_tt._m_seconds = ' + f.params[1] in src
    ctx.ob('C05.awake', f'{f.fq}', ok, 'main-thread time is frozen while a task runs', f.node, f.module)
    g = ctx.repo.func('sc3.base.main:NrtMain._update_logical_time')
    ctx.ob('C05.awake', f'{g.fq}', full(g.node).endswith(f'cls.main_tt._m_seconds = {g.params[1]}'),
           'NRT: logical time is the time of the executed task', g.node, g.module)
    h = ctx.repo.func('sc3.base.main:NrtMain.elapsed_time')
    ctx.ob('C05.awake', f'{h.fq}', full(h.node).endswith('return float(cls.main_tt._seconds)'),
           'NRT elapsed time is the logical time of the last executed task', h.node, h.module)


def run(ctx):
    from ..report import SubCtx
    from . import c12 as c12q
    subq = SubCtx(ctx, 'C05.quant', 'a routine started from a routine begins at its parent\'s logical time unless a quant moves it: the quant conversion, as decided for C12')
    c12q.rule_quant(subq)
    c12q.rule_play(subq)     # the grid time itself: at or after the reference beat for every phase (seed C05-i)
    from . import c12
    sub_c12 = SubCtx(ctx, 'C05.beats', 'a routine converts its deltas through the beats/seconds map of its clock: the affine map and its readers, as decided for C12')
    c12.rule_affine(sub_c12)
    from . import c09
    sub = SubCtx(ctx, 'C05.queue', 'logical time is exact only if the scheduler queues hand out the earliest entry: the priority-queue contract of the task queue (heap shape on every path, counters, re-insertion), as decided for C09')
    c09.rule_inv(sub)
    c09.rule_key(sub)
    rule_src(ctx)
    rule_taint(ctx)
    rule_exact(ctx)
    rule_sched(ctx)
    rule_inherit(ctx)
    rule_awake(ctx)
    ctx.assume('dataflow inside the analysed functions goes through local variables and self/cls attributes only')


MUTANTS = [
    dict(rule='C05.quant', name='a negative phase is wrapped for the rounding but added raw: the grid time lies before the reference beat (seed C05-i)', file='sc3/base/clock.py',
         old="        if phase < 0:\n            phase = bi.mod(phase, quant)\n\n        return bi.roundup(\n            refbeat - self._base_bar_beat - bi.mod(phase, quant),\n            quant\n        ) + self._base_bar_beat + phase",
         new="        offset = bi.mod(phase, quant)\n\n        return bi.roundup(\n            refbeat - self._base_bar_beat - offset, quant\n        ) + self._base_bar_beat + phase"),
    dict(rule='C05.queue', name='queue re-insertion updates the entry in place (seeds C08-e, C05-f)', file='sc3/base/_taskq.py',
         old="        if task in self._entry_finder:\n            self.remove(task)\n        count = next(self._counter)\n        entry = [prio, count, task]\n        self._entry_finder[task] = entry\n        heapq.heappush(self._queue, entry)",
         new="        count = next(self._counter)\n        if task in self._entry_finder:\n            entry = self._entry_finder[task]\n            entry[0] = prio\n            entry[1] = count\n            return\n        entry = [prio, count, task]\n        self._entry_finder[task] = entry\n        heapq.heappush(self._queue, entry)"),
    dict(rule='C05.taint', name='NRT wake-up re-derives beats from seconds (fix reverted)', file='sc3/base/clock.py',
         old="            delta = self.task.__awake__(self.clock)\n            if isinstance(delta, (int, float)) and not isinstance(delta, bool)\\\n            and delta != float('inf'):  # As sched.\n                self.beats = self.beats + delta\n",
         new="            beats = self.clock.secs2beats(time)\n            delta = self.task.__awake__(self.clock)\n            if isinstance(delta, (int, float)) and not isinstance(delta, bool)\\\n            and delta != float('inf'):  # As sched.\n                self.beats = beats + delta\n"),
    dict(rule='C05.taint', name='SystemClock reschedules at now + delta', file='sc3/base/clock.py',
         old="                            time = sched_time + delta\n                            cls._sched_add(time, task)",
         new="                            time = now + delta\n                            cls._sched_add(time, task)"),
    dict(rule='C05.taint', name='SystemClock installs now as logical time', file='sc3/base/clock.py',
         old="_libsc3.main._update_logical_time(sched_time)", new="_libsc3.main._update_logical_time(now)"),
    dict(rule='C05.taint', name='TempoClock reschedules from elapsed beats', file='sc3/base/clock.py',
         old="                            time = self._beats + delta\n", new="                            time = elapsed_beats + delta\n"),
    dict(rule='C05.taint', name='Scheduler wakes with target time', file='sc3/base/clock.py',
         old="            for time, item in self._expired:\n                self._seconds = time\n",
         new="            for time, item in self._expired:\n                self._seconds = value\n"),
    dict(rule='C05.taint', name='NRT wakeup adds delta to seconds', file='sc3/base/clock.py',
         old="self.scheduler.add(self.clock.beats2secs(self.beats), self)", new="self.scheduler.add(_libsc3.main.current_tt._seconds + delta, self)"),
    dict(rule='C05.src', name='new physical-time reader', file='sc3/base/clock.py',
         old="    def _calc_sched_beats(self, delta):\n        seconds = _libsc3.main.current_tt._seconds",
         new="    def _calc_sched_beats(self, delta):\n        seconds = _libsc3.main.elapsed_time()"),
    dict(rule='C05.sched', name='SystemClock.sched from physical time', file='sc3/base/clock.py',
         old="            with cls._sched_cond:\n                seconds = _libsc3.main.current_tt._seconds\n                seconds += delta",
         new="            with cls._sched_cond:\n                seconds = _libsc3.main.elapsed_time()\n                seconds += delta"),
    dict(rule='C05.sched', name='sched_abs adds current time', file='sc3/base/clock.py',
         old="            with cls._sched_cond:\n                cls._sched_add(time, item)", new="            with cls._sched_cond:\n                cls._sched_add(time + _libsc3.main.current_tt._seconds, item)"),
    dict(rule='C05.inherit', name='time copy deleted', file='sc3/base/stream.py',
         old="            self._m_seconds = self.parent._seconds\n", new=""),
    dict(rule='C05.inherit', name='time copy only at first start', file='sc3/base/stream.py',
         old="            self._m_seconds = self.parent._seconds\n\n            try:\n                self.state = self.State.Running\n                if self._iterator is None:\n",
         new="            try:\n                self.state = self.State.Running\n                if self._iterator is None:\n                    self._m_seconds = self.parent._seconds\n"),
    dict(rule='C05.awake', name='flag reset moved out of finally', file='sc3/base/clock.py',
         old="                    finally:\n                        _libsc3.main._in_awake_call = False\n\n    @classmethod\n    def clear(cls):",
         new="                    _libsc3.main._in_awake_call = False\n\n    @classmethod\n    def clear(cls):"),
    dict(rule='C05.awake', name='flag set before the time update', file='sc3/base/clock.py',
         old="                        _libsc3.main._update_logical_time(sched_time)\n                        _libsc3.main._in_awake_call = True",
         new="                        _libsc3.main._in_awake_call = True\n                        _libsc3.main._update_logical_time(sched_time)"),
    dict(rule='C05.sched', name='(fix reverted) AppClock NRT absolute delta', file='sc3/base/clock.py',
         old="            ClockTask(seconds, cls, item, _libsc3.main._clock_scheduler)\n        else:\n            with cls._sched_lock:",
         new="            ClockTask(delta, cls, item, _libsc3.main._clock_scheduler)\n        else:\n            with cls._sched_lock:"),
    dict(rule='C05.exact', name='NRT queue rounds the time', file='sc3/base/clock.py',
         old="        self.queue.add(time, clock_task)", new="        self.queue.add(round(time, 9), clock_task)"),
]

REPAIRS = []
