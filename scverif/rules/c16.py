"""C16 - bus, buffer and node-id allocation is safe and complete."""

import ast
import re

from ..loader import NormStr, norm, full, walk_local, walk_local_ordered
from .. import util as U

EXPLANATION = (
    'A dimension (unit) analysis over ContiguousBlockAllocator distinguishes absolute addresses (addr parameters, '
    'block.start, top, pos), relative table indices (absolute - addr_offset), lengths (sizes, counts) and the client '
    'offset; +/- a length keeps the unit, absolute - offset is relative, and every comparison and every subscript of '
    'the block table must have matching units (a table index is relative; an index is compared with the partition '
    'size only when relative). free() may change state only for a used block and every merge replaces both table slots '
    'and both free-list entries. Node ids: alloc returns id | (user << K), wraps inside [init, 2**K - 1], user <= 31. '
    'Per-client partitions pass (size, reserved, client_id * that very size).')
LEVEL_TEXT = ('static unit analysis (absolute/relative/length) of the block allocator, guard/pairing rules of free(), constant '
              'agreement of the node-id window, partition arithmetic of the server. Non-overlap and completeness over '
              'allocation histories are not decided.')
LEVEL_NOTE = 'roles of names are bound from parameter names and field names of the allocator; reserve() is unreachable from alloc/free and noted only'
LEVEL_TEXT_ADD = ' Also: address-in-partition test before free indexes the slot array; num_ids/id_offset/default-group ids agree with the id window; login count stored before the allocators are rebuilt.'
LEVEL_TEXT_ADD += ' Rounds e-f: a client-id change rebuilds every allocator family after the id is stored.'
LEVEL_TEXT_ADD += ' Rounds g-h: alloc refuses only after searching the free blocks; the id pairing rule of C17 is run as C16.pair.'
LEVEL_TEXT = (globals().get('LEVEL_TEXT') or EXPLANATION) + LEVEL_TEXT_ADD
TECHNIQUE = 'static analysis: dimension/unit type inference over expressions + guard and pairing rules'

ABS, REL, LEN, OFF, BLOCK, UNK = 'absolute', 'relative', 'length', 'offset', 'block', '?'
BLOCK_NAMES = {'block', 'avail_block', 'prev_block', 'tmp', 'next', 'prev', 'new', 'leftover'}


class Units:
    def __init__(self, ctx, f, is_init=False):
        self.ctx = ctx
        self.f = f
        self.env = {}
        for p in f.params[1:]:
            if p == 'addr':
                self.env[p] = ABS
            elif p in ('n', 'size', 'span'):
                self.env[p] = LEN
            elif p == 'pos':
                self.env[p] = REL
            elif p == 'addr_offset':
                self.env[p] = OFF
            elif p in BLOCK_NAMES:
                self.env[p] = BLOCK
        self.problems = []

    def unit(self, e):
        if isinstance(e, ast.Constant) and isinstance(e.value, (int, float)) and not isinstance(e.value, bool):
            return LEN
        if isinstance(e, ast.Name):
            if e.id in self.env:
                return self.env[e.id]
            if e.id in BLOCK_NAMES:
                return BLOCK
            return UNK
        if isinstance(e, ast.Attribute):
            s = norm(e)
            if s in ('self.top', 'self.pos'):
                return ABS
            if s == 'self.size':
                return LEN
            if s == 'self.addr_offset':
                return OFF
            if e.attr == 'start':
                return ABS
            if e.attr == 'size':
                return LEN
            return UNK
        if isinstance(e, ast.Subscript):
            if norm(e.value) == 'self._array':
                return BLOCK
            return UNK
        if isinstance(e, ast.BinOp) and isinstance(e.op, (ast.Add, ast.Sub)):
            l, r = self.unit(e.left), self.unit(e.right)
            add = isinstance(e.op, ast.Add)
            if l == UNK or r == UNK:
                return UNK
            if r == LEN:
                return l
            if l == LEN and add:
                return r
            if not add:
                if l == ABS and r == OFF:
                    return REL
                if l == r:
                    return LEN
            else:
                if (l, r) in ((REL, OFF), (OFF, REL)):
                    return ABS
            self.problems.append((e, f'{norm(e)}: {l} {"+" if add else "-"} {r} has no meaningful unit'))
            return UNK
        if isinstance(e, ast.Call):
            fn = norm(e.func)
            if fn in ('max', 'min') and e.args:
                us = {self.unit(a) for a in e.args}
                us.discard(UNK)
                if len(us) == 1:
                    return us.pop()
                if len(us) > 1:
                    self.problems.append((e, f'{norm(e)} mixes units {sorted(us)}'))
                return UNK
            if fn in ('self._find_previous', 'self._find_next', 'self._find_available', 'self._reserve'):
                return BLOCK
            return UNK
        return UNK

    def run(self):
        f = self.f
        for s in walk_local_ordered(f.node):
            if isinstance(s, ast.Assign) and len(s.targets) == 1 and isinstance(s.targets[0], ast.Name):
                self.env[s.targets[0].id] = self.unit(s.value)
            elif isinstance(s, ast.AugAssign) and isinstance(s.target, ast.Name):
                pass
            elif isinstance(s, ast.For) and isinstance(s.target, ast.Name):
                it = s.iter
                # reversed(range(a, b)) / range(a, b): loop var has the unit of the bounds
                while isinstance(it, ast.Call) and norm(it.func) == 'reversed':
                    it = it.args[0]
                if isinstance(it, ast.Call) and norm(it.func) == 'range' and it.args:
                    us = {self.unit(a) for a in it.args[:2]} - {UNK, LEN}
                    self.env[s.target.id] = us.pop() if len(us) == 1 else UNK
        out = []
        for n in walk_local(f.node):
            if isinstance(n, ast.Subscript) and norm(n.value) == 'self._array':
                u = self.unit(n.slice)
                out.append(('index', n, u, u == REL,
                            f'block table indexed with {norm(n.slice)} which is {u}; the table is indexed by relative address (absolute - addr_offset)'))
            elif isinstance(n, ast.Compare) and len(n.ops) == 1 and isinstance(n.ops[0], (ast.Lt, ast.LtE, ast.Gt, ast.GtE, ast.Eq, ast.NotEq)):
                l, r = self.unit(n.left), self.unit(n.comparators[0])
                if BLOCK in (l, r) or UNK in (l, r):
                    continue
                ok = l == r or {l, r} == {REL, LEN}
                # lengths compared with lengths, absolutes with absolutes, a relative index with a length (bound)
                out.append(('compare', n, f'{l} vs {r}', ok,
                            f'{norm(n)} compares {l} with {r}: an absolute address is only comparable with absolute addresses '
                            f'(for client offset > 0 the test is wrong)'))
        for e, why in self.problems:
            out.append(('arith', e, 'mixed', False, why))
        return out


REACH = ['alloc', 'free', '_find_available', '_reserve', '_split', '_find_previous', '_find_next', '_add_to_freed',
         '_remove_from_freed', '__init__', 'blocks']


def rule_units(ctx):
    ctx.rule('C16.xlate', 'every subscript of the block table in functions reachable from alloc/free is a relative index '
                          '(absolute - addr_offset)')
    ctx.rule('C16.units', 'comparisons and +/- in the allocator never mix absolute addresses with relative indices or lengths')
    ci = ctx.repo.cls('sc3.synth._engine:ContiguousBlockAllocator')
    nx = nu = 0
    # the frozen list plus whatever alloc/free reach through self-calls on today's tree (a new helper is analysed too)
    reach = list(REACH)
    for entry in ('alloc', 'free'):
        e = ci.methods.get(entry)
        if e is not None:
            for g in U.self_closure(ctx.repo, ci, e).values():
                if g.cls is ci and g.name not in reach:
                    reach.append(g.name)
    for name in reach:
        f = ci.methods.get(name)
        ctx.require(f is not None, 'C16.units', f'ContiguousBlockAllocator.{name} vanished')
        for kind, node, u, ok, why in Units(ctx, f).run():
            if kind == 'index':
                nx += 1
                ctx.ob('C16.xlate', f'{f.fq}:self._array[{norm(node.slice)}]', ok, why, node, f.module)
            else:
                nu += 1
                ctx.ob('C16.units', f'{f.fq}:{norm(node)}', ok, why, node, f.module)
    ctx.require(nx >= 6 and nu >= 4, 'C16.units', f'only {nx} subscripts / {nu} comparisons analysed')
    # reachability: reserve is not called by the library (noted, not alarmed)
    users = [fi.fq for fi in ctx.repo.functions.values() for c in U.calls(fi.node)
             if U.method_name(c) == 'reserve' and 'allocator' in norm(c.func.value).lower()]
    ctx.note(f'ContiguousBlockAllocator.reserve callers in the library: {users} (not analysed when empty)')
    if users:
        f = ci.methods['reserve']
        for kind, node, u, ok, why in Units(ctx, f).run():
            ctx.ob('C16.xlate' if kind == 'index' else 'C16.units', f'{f.fq}:{norm(node)}', ok, why, node, f.module)


def rule_free(ctx):
    ctx.rule('C16.free', 'free changes state only under `block is not None and block.used`; each merge replaces both table '
                         'slots and removes both free-list entries; freeing None is a no-op')
    ci = ctx.repo.cls('sc3.synth._engine:ContiguousBlockAllocator')
    f = ci.methods['free']
    mod = f.module
    body = U.body_nodoc(f.node)
    ok = isinstance(body[0], ast.If) and norm(body[0].test) == f'{f.params[1]} is None' and isinstance(body[0].body[0], ast.Return)
    ctx.ob('C16.free', f'{f.fq}:none-guard', ok, 'freeing None does nothing', f.node, mod)
    # a caller-supplied address indexes the slot array only after a two-sided range test: a negative slot index wraps around
    # (Python) and releases somebody else's live block
    p1 = f.params[1]
    rng = [i for i, s in enumerate(body) if isinstance(s, ast.If) and isinstance(s.body[0], ast.Return) and
           norm(s.test) in (f'not 0 <= {p1} - self.addr_offset < self.size', f'{p1} - self.addr_offset < 0 or {p1} - self.addr_offset >= self.size',
                            f'not self.addr_offset <= {p1} < self.addr_offset + self.size')]
    sub = [i for i, s in enumerate(body) if any(isinstance(x, ast.Subscript) and norm(x.value) == 'self._array' for x in ast.walk(s))]
    ctx.ob('C16.free', f'{f.fq}:address-in-partition', bool(rng) and bool(sub) and rng[0] < min(sub),
           f'free({p1}) must return for an address outside [addr_offset, addr_offset + size) before it indexes the slot array '
           f'(range test at {rng}, first use at {min(sub) if sub else None})', f.node, mod)
    guard = [s for s in body if isinstance(s, ast.If) and norm(s.test) == 'block is not None and block.used']
    ctx.ob('C16.free', f'{f.fq}:used-guard', len(guard) == 1, 'state changes only for a block that exists and is in use', f.node, mod)
    outside = []
    for s in body:
        if guard and s is guard[0]:
            continue
        for n in ast.walk(s):
            if isinstance(n, ast.Assign) and any(isinstance(t, (ast.Attribute, ast.Subscript)) for t in n.targets):
                outside.append(norm(n))
            if isinstance(n, ast.Call) and U.is_self_attr(n.func) and n.func.attr in ('_add_to_freed', '_remove_from_freed', '_split'):
                outside.append(norm(n))
    ctx.ob('C16.free', f'{f.fq}:no-effect-outside-guard', not outside, f'state-changing statements outside the guard: {outside}', f.node, mod)
    if guard:
        g = guard[0]
        first = [norm(s) for s in g.body[:2]]
        ctx.ob('C16.free', f'{f.fq}:mark-free', first == ['block.used = False', 'self._add_to_freed(block)'], 'the block is marked free and listed', g, mod)
        # role-bound: each neighbour step is `N = self._find_*(...)`, `if N is not None and not N.used:`,
        # `T = N.join(B)`, `if T is not None:` <merge body>; names N/T/B are read from the code
        blk = 'block'
        merges = []
        conds = []
        nb_of = {}
        for s in g.body:
            if isinstance(s, ast.Assign) and len(s.targets) == 1 and isinstance(s.targets[0], ast.Name) and isinstance(s.value, ast.Call) \
                    and U.is_self_attr(s.value.func) and s.value.func.attr in ('_find_previous', '_find_next'):
                nb_of[s.targets[0].id] = s.value.func.attr
            if not isinstance(s, ast.If):
                continue
            m = re.fullmatch(r'(\w+) is not None and \(not (\w+)\.used\)', norm(s.test))
            conds.append((nb_of.get(m.group(1)) if m and m.group(1) == m.group(2) else None))
            if not (m and m.group(1) == m.group(2)):
                continue
            nb = m.group(1)
            tname = None
            for t in s.body:
                if isinstance(t, ast.Assign) and len(t.targets) == 1 and isinstance(t.targets[0], ast.Name) and norm(t.value) == f'{nb}.join({blk})':
                    tname = t.targets[0].id
                if tname and isinstance(t, ast.If) and norm(t.test) == f'{tname} is not None':
                    merges.append((nb_of.get(nb), nb, tname, t))
                    if nb_of.get(nb) == '_find_previous':
                        # the joined block replaces `block` before the next neighbour is looked up
                        ctx.ob('C16.free', f'{f.fq}:merged-block-carried-on', any(norm(x) == f'{blk} = {tname}' for x in t.body),
                               'after merging with the previous neighbour the joined block must become `block`: the second merge otherwise '
                               'joins the stale block and registers a free block that overlaps the first result', t, mod)
                # merge delegated to a helper: self.h(lo, hi) whose result must be carried on the same way
                hc = [c for c in U.calls(t) if U.is_self_attr(c.func) and ci.methods.get(c.func.attr) is not None
                      and any(U.method_name(c2) == 'join' for c2 in U.calls(ci.methods[c.func.attr].node))]
                for c in hc:
                    h = ci.methods[c.func.attr]
                    hs = full(h.node)
                    lo_p, hi_p = h.params[1], h.params[2]
                    tn = next((norm(x.targets[0]) for x in walk_local(h.node) if isinstance(x, ast.Assign) and '.join(' in norm(x.value)), None)
                    body_ok = tn is not None and f'self._array[{tn}.start - self.addr_offset] = {tn}' in hs and \
                        f'self._remove_from_freed({lo_p})' in hs and f'self._remove_from_freed({hi_p})' in hs and \
                        f'if self.top > {tn}.start: self._add_to_freed({tn})' in hs and hs.rstrip().endswith(f'return {tn}')
                    carried = isinstance(t, ast.Assign) and norm(t.targets[0]) == blk
                    merges.append((nb_of.get(nb), nb, tn, None))
                    ctx.ob('C16.free', f'{f.fq}:merge-with-{"prev" if nb_of.get(nb) == "_find_previous" else "next"}', body_ok,
                           f'merge helper {h.name} must install the joined block, drop both free-list entries, list the joined block and return it',
                           h.node, mod)
                    if nb_of.get(nb) == '_find_previous':
                        ctx.ob('C16.free', f'{f.fq}:merged-block-carried-on', carried,
                               f'the result of {norm(c)} must be assigned to `{blk}`: the second merge otherwise joins the stale block', t, mod)
        ctx.ob('C16.free', f'{f.fq}:two-merges', [m[0] for m in merges] == ['_find_previous', '_find_next'],
               'previous and next neighbours are both considered, in that order', g, mod)
        for i, (which, nb, T, mg) in enumerate(merges):
            if mg is None:
                continue          # helper form, judged above
            src = NormStr(' ; '.join(norm(s) for s in mg.body))
            other = 'prev' if which == '_find_previous' else 'next'
            gone = blk if which == '_find_previous' else nb
            ok = f'self._array[{T}.start - self.addr_offset] = {T}' in src and f'self._array[{gone}.start - self.addr_offset] = None' in src and \
                f'self._remove_from_freed({nb})' in src and f'self._remove_from_freed({blk})' in src and \
                f'if self.top > {T}.start: self._add_to_freed({T})' in src
            ctx.ob('C16.free', f'{f.fq}:merge-with-{other}', ok,
                   'a merge installs the joined block, clears the absorbed slot, drops both free-list entries and lists the joined block', mg, mod)
        ctx.ob('C16.free', f'{f.fq}:neighbour-must-be-free', conds == ['_find_previous', '_find_next'],
               f'only free neighbours are merged; found {conds}', g, mod)
    # join only adjoining blocks
    cb = ctx.repo.cls('sc3.synth._engine:ContiguousBlock')
    j = cb.methods['join']
    ctx.ob('C16.free', f'{j.fq}', 'if self.adjoins(block):' in full(j.node) and 'size = max(self.start + self.size, block.start + block.size) - start' in full(j.node),
           'blocks are joined only when adjoining and span both', j.node, mod)
    ad = cb.methods['adjoins']
    rets = [x for x in walk_local(ad.node) if isinstance(x, ast.Return)]
    env = {norm(x.targets[0]): norm(x.value) for x in walk_local(ad.node) if isinstance(x, ast.Assign)}
    bp = ad.params[1]
    want_env = {'st': 'self.start', 'sz': 'self.size', 'st2': f'{bp}.start', 'sz2': f'{bp}.size'}
    ok = len(rets) == 1 and env == want_env and norm(rets[0].value) == 'st < st2 and st + sz >= st2 or (st > st2 and st2 + sz2 >= st)'
    ctx.ob('C16.free', f'{ad.fq}', ok,
           'two blocks adjoin when the lower one reaches (or overlaps) the start of the upper one, in either order; equal starts never adjoin',
           ad.node, mod)
    for hn, opname in (('_add_to_freed', 'add'), ('_remove_from_freed', 'remove')):
        h = ci.methods[hn]
        hp = h.params[1]
        src = full(h.node)
        keyed = re.findall(r'self\._freed\[([^\]]+)\]', src) + re.findall(r'self\._freed\.get\(([^)]+)\)', src)
        ok = bool(keyed) and all(k == f'{hp}.size' for k in keyed) and f'self._freed[{hp}.size].{opname}({hp})' in src
        ctx.ob('C16.free', f'{h.fq}:keyed-by-size', ok,
               f'the free list is a dict size -> set of blocks: {hn} must file the block under its own size (found keys {sorted(set(keyed))})', h.node, mod)
    a = ci.methods['alloc']
    src = full(a.node)
    ok = 'block = self._find_available(n)' in src and 'if block is not None: return self._reserve(block.start, n, block).start else: return None' in src
    ctx.ob('C16.free', f'{a.fq}', ok, 'alloc reserves n slots at the start of an available block or reports None', a.node, mod)
    fa = ci.methods['_find_available']
    src = full(fa.node)
    ok = 'if self.top + n - self.addr_offset > self.size or self._array[self.top - self.addr_offset].used: return None' in src
    ctx.ob('C16.free', f'{fa.fq}:top-bound', ok, 'allocation at the high-water mark must fit inside the partition', fa.node, mod)
    ok = 'if size >= n and len(set_) > 0' in src
    ctx.ob('C16.free', f'{fa.fq}:fit', ok, 'a freed block is reused only when it is large enough', fa.node, mod)
    sp = cb.methods['split']
    src = full(sp.node)
    ok = 'if span < self.size: return [type(self)(self.start, span), type(self)(self.start + span, self.size - span)]' in src and \
        'elif span == self.size: return [self, None]' in src
    ctx.ob('C16.free', f'{sp.fq}', ok, 'split partitions a block exactly (no overlap, no gap)', sp.node, mod)


def rule_next_reaches_top(ctx):
    ctx.rule('C16.free', '_find_next can return every block of the partition, the top block (the free tail, which starts exactly at `top`) '
                         'included: its scan runs up to and including `top` and the final lookup is refused only beyond the partition size '
                         '- otherwise a freed range next to the tail never merges with it and `top` never comes down')
    ci = ctx.repo.cls('sc3.synth._engine:ContiguousBlockAllocator')
    f = ci.methods['_find_next']
    rets = [r for r in walk_local(f.node) if isinstance(r, ast.Return) and isinstance(r.value, ast.Subscript) and norm(r.value.value) == 'self._array']
    ok, why = False, 'no `return self._array[...]` found'
    if rets:
        r = rets[-1]
        idx = norm(r.value.slice)
        tests = [p_.test for p_ in U.parent_chain(r) if isinstance(p_, ast.If) and U.in_body(r, p_, 'body')]
        ok = bool(tests) and all(isinstance(t, ast.Compare) and len(t.ops) == 1 and isinstance(t.ops[0], ast.Lt) and norm(t.left) == idx
                                 and norm(t.comparators[0]) == 'self.size' for t in tests[:1])
        why = f'the lookup self._array[{idx}] is guarded by {[norm(t) for t in tests]}'
    whiles = [w for w in walk_local(f.node) if isinstance(w, ast.While)]
    incl = all(any(isinstance(c, ast.Compare) and any(isinstance(o, ast.LtE) for o in c.ops) and 'self.top' in norm(c) for c in ast.walk(w.test))
               for w in whiles)
    ctx.ob('C16.free', f'{f.fq}:reaches-the-top-block', ok and incl,
           f'{why}; scan inclusive of top: {incl}. The guard must be `{"<index>"} < self.size` (every slot of the partition) and the scan '
           f'`<= self.top`', f.node, ci.module)


def rule_alloc_complete(ctx):
    ctx.rule('C16.free', 'alloc says "no space" only because _find_available found nothing: no return precedes that search (a shortcut '
                         'that looks at exact-size free lists or at the top alone misses a larger freed block that would serve the request)')
    ci = ctx.repo.cls('sc3.synth._engine:ContiguousBlockAllocator')
    f = ci.methods['alloc']
    calls = [c for c in U.calls(f.node) if U.is_self_attr(c.func) and c.func.attr == '_find_available']
    ctx.require(len(calls) == 1, 'C16.free', 'alloc: the call of _find_available vanished')
    # (an exit that depends on the argument alone - refusing n < 1, a non-integer - says nothing about space and is not meant)
    early = [norm(r)[:60] for r in walk_local(f.node) if isinstance(r, (ast.Return, ast.Raise)) and r.lineno < calls[0].lineno
             and (not [p_ for p_ in U.parent_chain(r) if isinstance(p_, ast.If)] or
                  any('self' in U.names_in(p_.test) for p_ in U.parent_chain(r) if isinstance(p_, ast.If)))]
    ctx.ob('C16.free', f'{f.fq}:search-before-refusal', not early,
           f'alloc leaves with {early} before it has searched the free blocks', f.node, ci.module)


def rule_node(ctx):
    ctx.rule('C16.node', 'NodeIDAllocator.alloc returns x | (user << K), wraps x+1 inside [init_temp, 2**K - 1], and users > 31 are refused')
    ci = ctx.repo.cls('sc3.synth._engine:NodeIDAllocator')
    mod = ci.module
    r = ci.methods['reset']
    shift = None
    for s in walk_local(r.node):
        if isinstance(s, ast.Assign) and norm(s.targets[0]) == 'self._mask' and isinstance(s.value, ast.BinOp) and isinstance(s.value.op, ast.LShift):
            shift = U.num_value(s.value.right)
            ctx.ob('C16.node', f'{r.fq}:mask', norm(s.value.left) == 'self.user', 'client prefix is user << K', s, mod)
    ctx.require(shift is not None, 'C16.node', 'mask shift not found')
    a = ci.methods['alloc']
    wrap = [c for c in U.calls(a.node) if norm(c.func) == 'bi.wrap']
    ok = len(wrap) == 1 and norm(wrap[0].args[0]) == 'x + 1' and norm(wrap[0].args[1]) == 'self._init_temp'
    hi = U.num_value(wrap[0].args[2]) if wrap else None
    ctx.ob('C16.node', f'{a.fq}:wrap', ok and hi == (1 << shift) - 1,
           f'ids wrap in [init_temp, {hi}]; must be 2**{shift} - 1 = {(1 << shift) - 1} so the id never spills into the client prefix', a.node, mod)
    src = full(a.node)
    ctx.ob('C16.node', f'{a.fq}:result', U.before(src, 'x = self._temp', 'self._temp = bi.wrap(', 'return x | self._mask'),
           'alloc returns the current id with the client prefix and advances', a.node, mod)
    i = ci.methods['__init__']
    lim = None
    for s in walk_local(i.node):
        if isinstance(s, ast.If):
            cp = U.compare_parts(s.test)
            if cp and norm(cp[0]) == i.params[1] and cp[1] is ast.Gt and isinstance(s.body[0], ast.Raise):
                lim = U.num_value(cp[2])
            if cp and norm(cp[2]) == i.params[1] and cp[1] is ast.Lt and isinstance(s.body[0], ast.Raise):      # canonical spelling: limit < user
                lim = U.num_value(cp[0])
    ctx.ob('C16.node', f'{i.fq}:user-limit', lim is not None and (lim + 1) << shift <= 1 << 31,
           f'user ids above {lim} are refused; (limit+1) << {shift} must stay inside a positive int32', i.node, mod)
    # the advertised id range of a client (id_offset, num_ids: used for the default group ids) is the same window
    nid = None
    for s in walk_local(i.node):
        if isinstance(s, ast.Assign) and norm(s.targets[0]) == 'self.num_ids':
            nid = U.num_value(s.value)
    ctx.ob('C16.node', f'{i.fq}:num_ids', nid == 1 << shift,
           f'num_ids = {nid}; must be 2**{shift} = {1 << shift}, the span alloc() keeps below the client prefix: otherwise ids lie outside '
           f'[id_offset, id_offset + num_ids) and reach the default group ids (num_ids * client + 1) of other clients', i.node, mod)
    io = ci.methods['id_offset']
    ctx.ob('C16.node', f'{io.fq}', full(io.node).endswith('return self.num_ids * self.user'), 'a client range starts at num_ids * user', io.node, mod)
    srv = ctx.repo.cls('sc3.synth.server:Server')
    dg = srv.methods['_make_default_groups']
    ctx.ob('C16.node', f'{dg.fq}:default-group-id', 'self._node_allocator.num_ids * client_id + 1' in full(dg.node),
           'default group of a client is the first permanent id of its window', dg.node, srv.module)
    fp = ci.methods['free_perm']
    ctx.ob('C16.node', f'{fp.fq}:mask', f'id &= {(1 << shift) - 1}' in full(fp.node) or f'id &= 0x{(1 << shift) - 1:08X}' in full(fp.node) or
           'id &= 67108863' in full(fp.node), 'the same window mask strips the client prefix', fp.node, mod)
    w = ctx.repo.func('sc3.base.builtins:wrap')
    ctx.ob('C16.node', f'{w.fq}:defined', w is not None, 'wrap kernel exists', w.node, w.module, nontrivial=False)


def rule_part(ctx):
    ctx.rule('C16.part', 'server partitions: allocator(size per client, reserved, client_id * that same size [+ io offset])')
    srv = ctx.repo.cls('sc3.synth.server:Server')
    mod = srv.module
    # a change of client id rebuilds every allocator family (a family left behind keeps handing out the previous client's range)
    na = srv.methods['_new_allocators']
    fams = sorted(n_ for n_ in srv.methods if n_.startswith('_new_') and n_.endswith('_allocators') and n_ != '_new_allocators')
    called = {U.method_name(c) for c in U.calls(na.node) if U.is_self_attr(c.func)}
    ctx.require(len(fams) >= 3, 'C16.part', f'allocator families not bound: {fams}')
    ctx.ob('C16.part', f'{na.fq}:all-families', set(fams) <= called, f'_new_allocators must rebuild {fams}; it calls {sorted(called)}', na.node, mod)
    sc_ = srv.methods['_set_client_id']
    st = [norm(x) for x in walk_local_ordered(sc_.node) if isinstance(x, (ast.Assign, ast.Expr))]
    def _pos(t):
        return next((i for i, x in enumerate(st) if x == t), None)
    a_, b_ = _pos(f'self._client_id = {sc_.params[1]}'), _pos('self._new_allocators()')
    ctx.ob('C16.part', f'{sc_.fq}:store-then-rebuild', a_ is not None and b_ is not None and a_ < b_,
           'the new client id is stored before the allocators are rebuilt from it', sc_.node, mod)
    for fn in ('_new_bus_allocators', '_new_buffer_allocators'):
        f = srv.methods[fn]
        env = {}
        for s in walk_local_ordered(f.node):
            if isinstance(s, ast.Assign) and isinstance(s.targets[0], ast.Name):
                env[s.targets[0].id] = s.value
        for s in walk_local_ordered(f.node):
            if isinstance(s, ast.Assign) and isinstance(s.value, ast.Call) and norm(s.value.func).endswith('_alloc_class'):
                c = s.value
                ctx.require(len(c.args) == 3, 'C16.part', f'{fn}: allocator constructed with {len(c.args)} args')
                size, res, off = c.args
                sz = norm(size)
                offexpr = off
                extra = None
                if isinstance(off, ast.BinOp) and isinstance(off.op, ast.Add):
                    offexpr, extra = off.left, off.right
                od = env.get(norm(offexpr))
                ok = od is not None and norm(od) in (f'{sz} * self.client_id', f'self.client_id * {sz}')
                ctx.ob('C16.part', f'{f.fq}:{norm(s.targets[0])}:offset', ok,
                       f'client offset {norm(offexpr)} = {norm(od) if od is not None else "?"} must be client_id * {sz} (the size passed)', s, mod)
                sd = env.get(sz)
                ok = sd is not None and '// self._status_watcher.max_logins' in norm(sd)
                ctx.ob('C16.part', f'{f.fq}:{norm(s.targets[0])}:size', ok, f'per-client size {norm(sd) if sd is not None else "?"} must divide the total by max_logins', s, mod)
                rd = env.get(norm(res))
                ok = rd is not None and 'reserved' in norm(rd)
                ctx.ob('C16.part', f'{f.fq}:{norm(s.targets[0])}:reserved', ok, 'reserved count comes from the options', s, mod)
    na = srv.methods['_new_node_allocators']
    ctx.ob('C16.part', f'{na.fq}', '_node_alloc_class(self.client_id, self.options.initial_node_id)' in full(na.node).replace('\n', ''),
           'node ids are allocated for this client id', na.node, mod)
    # the number of partitions is known before the partitions are cut: wherever the server's reply sets the number of logins
    # and the client id, the count is stored before the call that rebuilds the allocators (they read it through max_logins)
    sw = ctx.repo.cls('sc3.synth._serverstatus:ServerStatusWatcher')
    k = 0
    for mname, f in sorted(sw.methods.items()):
        ss = [x for x in walk_local_ordered(f.node) if isinstance(x, ast.stmt)]
        w = [i for i, x in enumerate(ss) if isinstance(x, ast.Assign) and any(U.is_self_attr(t, '_max_logins') for t in x.targets)
             and not (isinstance(x.value, ast.Constant) and x.value.value is None)]
        c = [i for i, x in enumerate(ss) if isinstance(x, ast.Expr) and isinstance(x.value, ast.Call)
             and norm(x.value.func) in ('self.server._set_client_id', 'self.server._new_allocators')]
        if w and c:
            k += 1
            ctx.ob('C16.part', f'{f.fq}:logins-before-allocators', max(w) < min(c),
                   f'{mname} rebuilds the allocators (statement {min(c)}) before it stores the number of logins reported by the server '
                   f'(statement {max(w)}): the partitions are cut with the stale local guess and belong to other clients', f.node, sw.module)
    ctx.require(k >= 1, 'C16.part', 'no function sets both the login count and the client id')
    mx = sw.methods['max_logins']
    ctx.ob('C16.part', f'{mx.fq}', full(mx.node).endswith('return self._max_logins or self.server.options.max_logins'),
           'the partition count is the server-reported number of logins, else the local option', mx.node, sw.module)
    init = ctx.repo.func('sc3.synth._engine:ContiguousBlockAllocator.__init__')
    src = full(init.node)
    ok = 'shifted_pos = pos + addr_offset' in src and 'self._array[pos] = ContiguousBlock(shifted_pos, size - pos)' in src and \
        'self.pos = shifted_pos' in src and 'self.top = shifted_pos' in src and 'self.addr_offset = addr_offset' in src and 'self._array = [None] * size' in src
    ctx.ob('C16.part', f'{init.fq}', ok, 'the initial free block starts after the reserved slots and spans the rest of the partition', init.node, init.module)


def run(ctx):
    from ..report import SubCtx
    from . import c17
    sub17 = SubCtx(ctx, 'C16.pair', 'an id goes back to its allocator exactly when its owner gives it up: the order of command building, release and clearing in the free() methods, as decided for C17')
    c17.rule_pair(sub17)
    rule_units(ctx)
    rule_free(ctx)
    rule_alloc_complete(ctx)
    rule_next_reaches_top(ctx)
    rule_node(ctx)
    rule_part(ctx)


MUTANTS = [
    dict(rule='C16.free', name='_find_next stops below top: the free tail is never found as upper neighbour (seed C16-l)', file='sc3/synth/_engine.py',
         old="        if i - self.addr_offset < self.size:\n            return self._array[i - self.addr_offset]\n        else:\n            return None\n\n    def _reserve(",
         new="        if i < self.top:\n            return self._array[i - self.addr_offset]\n        else:\n            return None\n\n    def _reserve("),
    dict(rule='C16.free', name='alloc refuses before searching the free blocks (seed C16-g)', file='sc3/synth/_engine.py',
         old="    def alloc(self, n=1):\n        block = self._find_available(n)",
         new="    def alloc(self, n=1):\n        if n not in self._freed and self.top + n - self.addr_offset > self.size:\n            return None\n        block = self._find_available(n)"),
    dict(rule='C16.part', name='client id change does not rebuild the buffer allocators', file='sc3/synth/server.py',
         old="        self._new_bus_allocators()\n        self._new_buffer_allocators()\n", new="        self._new_bus_allocators()\n"),
    dict(rule='C16.part', name='allocators rebuilt before the client id is stored', file='sc3/synth/server.py',
         old="        self._client_id = value\n        self._new_allocators()", new="        self._new_allocators()\n        self._client_id = value"),
    dict(rule='C16.free', name='adjoins requires a strict overlap', file='sc3/synth/_engine.py',
         old="        return (st < st2 and st + sz >= st2) or (st > st2 and st2 + sz2 >= st)", new="        return (st < st2 and st + sz > st2) or (st > st2 and st2 + sz2 > st)"),
    dict(rule='C16.free', name='free list entry removed under the wrong size', file='sc3/synth/_engine.py',
         old="            if block in self._freed[block.size]:\n                self._freed[block.size].remove(block)", new="            if block in self._freed[block.size]:\n                self._freed[block.size - 1].remove(block)"),
    dict(rule='C16.free', name='joined block not carried on to the second merge', file='sc3/synth/_engine.py',
         old="                    if self.top > tmp.start: self._add_to_freed(tmp)\n                    block = tmp\n", new="                    if self.top > tmp.start: self._add_to_freed(tmp)\n"),
    dict(rule='C16.free', name='(fix reverted) free indexes the slot array with an unchecked address', file='sc3/synth/_engine.py',
         old="        if not 0 <= addr - self.addr_offset < self.size:\n            return  # Not an address of this allocator.\n", new=""),
    dict(rule='C16.part', name='login count stored after the allocators are rebuilt (seed C16-c)', file='sc3/synth/_serverstatus.py',
         old="        if not self.server._in_process and new_max_logins is not None:\n            self._max_logins = new_max_logins\n        _logger.info(\n            f\"'{self.server.name}': setting client_id to {new_client_id}\")\n        self.server._set_client_id(new_client_id)",
         new="        _logger.info(\n            f\"'{self.server.name}': setting client_id to {new_client_id}\")\n        self.server._set_client_id(new_client_id)\n        if not self.server._in_process and new_max_logins is not None:\n            self._max_logins = new_max_logins"),
    dict(rule='C16.node', name='(fix reverted) num_ids is half the id window', file='sc3/synth/_engine.py',
         old="        self.num_ids = 0x04000000  # 2 ** 26, the id window of a user (see mask).", new="        self.num_ids = (2 ** 32 // 2 - 1) // 64"),
    dict(rule='C16.xlate', name='_find_previous forgets the offset', file='sc3/synth/_engine.py',
         old="            if self._array[i - self.addr_offset] is not None:\n                return self._array[i - self.addr_offset]", new="            if self._array[i] is not None:\n                return self._array[i]"),
    dict(rule='C16.xlate', name='_split stores at absolute address', file='sc3/synth/_engine.py',
         old="        self._array[new.start - self.addr_offset] = new", new="        self._array[new.start] = new"),
    dict(rule='C16.units', name='(fix reverted) absolute index compared with the size', file='sc3/synth/_engine.py',
         old="        if i - self.addr_offset < self.size:", new="        if i < self.size:"),
    dict(rule='C16.units', name='top bound without offset', file='sc3/synth/_engine.py',
         old="        if self.top + n - self.addr_offset > self.size\\", new="        if self.top + n > self.size\\"),
    dict(rule='C16.free', name='free without the used guard', file='sc3/synth/_engine.py',
         old="        if block is not None and block.used:\n            block.used = False", new="        if block is not None:\n            block.used = False"),
    dict(rule='C16.free', name='merge leaves the absorbed slot', file='sc3/synth/_engine.py',
         old="                    self._array[block.start - self.addr_offset] = None\n", new=""),
    dict(rule='C16.free', name='merge with a used neighbour', file='sc3/synth/_engine.py',
         old="            if next is not None and not next.used:", new="            if next is not None:"),
    dict(rule='C16.node', name='prefix shift 25', file='sc3/synth/_engine.py',
         old="        self._mask = self.user << 26", new="        self._mask = self.user << 25"),
    dict(rule='C16.node', name='wrap window too wide', file='sc3/synth/_engine.py',
         old="bi.wrap(x + 1, self._init_temp, 0x03FFFFFF)", new="bi.wrap(x + 1, self._init_temp, 0x07FFFFFF)"),
    dict(rule='C16.part', name='offset uses another size variable', file='sc3/synth/server.py',
         old="        audio_bus_client_offset = num_audio_per_client * self.client_id", new="        audio_bus_client_offset = num_ctrl_per_client * self.client_id"),
    dict(rule='C16.part', name='initial block ignores reserved slots', file='sc3/synth/_engine.py',
         old="ContiguousBlock(shifted_pos, size - pos)", new="ContiguousBlock(shifted_pos, size)"),
]

REPAIRS = []

EQUIV = [
    dict(name='alloc validates its argument before it searches', file='sc3/synth/_engine.py',
         old="    def alloc(self, n=1):\n        block = self._find_available(n)",
         new="    def alloc(self, n=1):\n        if not isinstance(n, int) or n < 1:\n            raise ValueError('n must be a positive int')\n        block = self._find_available(n)"),
    dict(name='the two merges factored into a helper whose result is carried on', file='sc3/synth/_engine.py',
         edits=[('sc3/synth/_engine.py', '                tmp = prev.join(block)\n                if tmp is not None:\n                    # // if block is the last one, reduce the top\n                    if block.start == self.top: self.top = tmp.start\n                    self._array[tmp.start - self.addr_offset] = tmp\n                    self._array[block.start - self.addr_offset] = None\n                    self._remove_from_freed(prev)\n                    self._remove_from_freed(block)\n                    if self.top > tmp.start: self._add_to_freed(tmp)\n                    block = tmp\n', "                block = self._merge(prev, block)\n"),
                ('sc3/synth/_engine.py', '                tmp = next.join(block)\n                if tmp is not None:\n                    # // if next is the last one, reduce the top\n                    if next.start == self.top: self.top = tmp.start\n                    self._array[tmp.start - self.addr_offset] = tmp\n                    self._array[next.start - self.addr_offset] = None\n                    self._remove_from_freed(next)\n                    self._remove_from_freed(block)\n                    if self.top > tmp.start: self._add_to_freed(tmp)\n', "                self._merge(block, next)\n"),
                ('sc3/synth/_engine.py', "                self._merge(block, next)\n\n    def blocks(self):", '                self._merge(block, next)\n\n    def _merge(self, low, high):\n        tmp = low.join(high)\n        if tmp is None:\n            return high\n        if high.start == self.top: self.top = tmp.start\n        self._array[tmp.start - self.addr_offset] = tmp\n        self._array[high.start - self.addr_offset] = None\n        self._remove_from_freed(low)\n        self._remove_from_freed(high)\n        if self.top > tmp.start: self._add_to_freed(tmp)\n        return tmp\n\n    def blocks(self):')]),
    dict(name='rename local of free', file='sc3/synth/_engine.py', start='        # // this \'if\' prevents an error if a Buffer object is freed twice', end='    def blocks(self):', rename=[('tmp', 'joined')]),
]
