"""C06 - OSC encoding round-trips, conforms to OSC 1.0 and is sized correctly."""

import ast
import re

from ..loader import norm, full, walk_local, walk_local_ordered, AnalysisError
from .. import util as U
from ..aeval import ev, CannotEval

EXPLANATION = (
    'Codec tables and arithmetic are decided from source: every struct format of the OSC type writers/readers is '
    'big-endian and each write_X/get_X pair agrees on format and length; the type-tag dispatch of the message builder '
    'and of the parser are extracted as decision tables and compared; string and blob padding arithmetic is evaluated '
    'over all residues mod 4; the sc3 coercion list of _build_msg is compared with the documented order; the size '
    'predictor is compared branch by branch with the writer for the same Python type (never below, over residues '
    'mod 4), the clump accumulator with the bundle size arithmetic (element prefix included), the shapes the '
    'predictor accepts with those the encoder accepts, and the sync path\'s reserved size with the real size of the '
    'appended /sync element.')
LEVEL_TEXT = ('static: codec format tables (writer vs reader vs OSC 1.0), padding arithmetic over Z/4Z, coercion decision '
              'list, predictor-vs-writer size expressions per type, clump arithmetic, accepted-shape comparison, /d_recv '
              'size test. Does not decide value round-trip or float32 coercion.')
LEVEL_NOTE = 'OSC 1.0 atom table in the rule module is the external oracle; struct semantics trusted'
LEVEL_TEXT_ADD = ' Also: writer/reader agreement on what cannot be carried (null bytes in strings, addresses the reader does not recognise).'
LEVEL_TEXT_ADD += " Rounds e-f: inferred tag widths never exceed the predictor's default; add_arg/add_content append-only; slice-style clumping tiles the element list; element handling of _build_bundle (shared with C07)."
LEVEL_TEXT = (globals().get('LEVEL_TEXT') or EXPLANATION) + LEVEL_TEXT_ADD
TECHNIQUE = 'static analysis: decision-table extraction + arithmetic evaluation of padding/size expressions over residues'

OSC_ATOMS = {  # tag -> (struct format, width) per OSC 1.0
    'int': ('>i', 4), 'float': ('>f', 4), 'double': ('>d', 8), 'timetag': ('>Q', 8), 'rgba': ('>I', 4), 'midi': ('>I', 4),
}
LEN_CONST = {'int': '_INT_DGRAM_LEN', 'float': '_FLOAT_DGRAM_LEN', 'double': '_DOUBLE_DGRAM_LEN',
             'timetag': '_TIMETAG_DGRAM_LEN', 'rgba': '_INT_DGRAM_LEN', 'midi': '_INT_DGRAM_LEN'}
TAGS = {'i': 'int', 'f': 'float', 'd': 'double', 's': 'string', 'b': 'blob', 'r': 'rgba', 'm': 'midi', 't': 'timetag'}


def consts(mod):
    out = {}
    for k, v in mod.assigns.items():
        val = U.literal(v)
        if isinstance(val, int) and not isinstance(val, bool):
            out[k] = val
    return out


def rule_codec(ctx):
    ctx.rule('C06.codec', 'all struct formats big-endian; write_X/get_X agree on format and length; tags the builder '
                          'can emit are read by the parser with the matching codec; payload-less tags agree')
    m = ctx.repo.module('sc3.base._osclib')
    K = consts(m)
    for name, (fmt, width) in OSC_ATOMS.items():
        w = m.functions.get(f'write_{name}')
        g = m.functions.get(f'get_{name}')
        ctx.require(w is not None and g is not None, 'C06.codec', f'write_{name}/get_{name} vanished')
        wp = [c for c in U.calls(w.node) if U.call_name(c) == 'struct.pack']
        gu = [c for c in U.calls(g.node) if U.call_name(c) == 'struct.unpack']
        wf = [U.literal(c.args[0]) for c in wp]
        gf = [U.literal(c.args[0]) for c in gu]
        ctx.ob('C06.codec', f'{m.name}:write_{name}:format', wf == [fmt], f'write_{name} must pack {fmt!r}; found {wf}', w.node, m)
        ctx.ob('C06.codec', f'{m.name}:get_{name}:format', gf == [fmt], f'get_{name} must unpack {fmt!r}; found {gf}', g.node, m)
        lc = LEN_CONST[name]
        ctx.ob('C06.codec', f'{m.name}:{lc}:width', K.get(lc) == width, f'{lc} must be {width}', g.node, m)
        src = full(g.node)
        ok = f'dgram[start_index:start_index + {lc}]' in src and f'start_index + {lc})' in src and \
            f'len(dgram[start_index:]) < {lc}' in src
        ctx.ob('C06.codec', f'{m.name}:get_{name}:advance', ok,
               f'get_{name} must check, slice and advance by {lc}', g.node, m)
    # every struct format anywhere in _osclib is big-endian
    for fi in m.functions.values():
        for c in U.calls(fi.node):
            if U.call_name(c) in ('struct.pack', 'struct.unpack'):
                f0 = U.literal(c.args[0])
                ctx.ob('C06.codec', f'{fi.fq}:{norm(c.args[0])}:big-endian', isinstance(f0, str) and f0.startswith('>'),
                       f'struct format {f0!r} is not big-endian', c, m)
    # builder dispatch
    b = ctx.repo.func('sc3.base._osclib:OscMessageBuilder.build')
    bc = ctx.repo.cls('sc3.base._osclib:OscMessageBuilder')
    tagconst = {}
    for k, v in bc.class_assigns.items():
        if k.startswith('ARG_TYPE_') and U.is_str(v):
            tagconst[k] = v.value
    emit = {}
    nopayload_w = set()
    for s in walk_local(b.node):
        if isinstance(s, ast.If):
            cp = U.compare_parts(s.test)
            if cp and norm(cp[0]) == 'arg_type':
                if cp[1] is ast.Eq and norm(cp[2]).startswith('self.ARG_TYPE_'):
                    tag = tagconst.get(norm(cp[2])[5:])
                    ws = [U.method_name(c) for c in U.calls(ast.Module(body=s.body, type_ignores=[]))]
                    emit[tag] = ws
                elif cp[1] is ast.In and isinstance(cp[2], ast.Tuple):
                    for e in cp[2].elts:
                        nopayload_w.add(tagconst.get(norm(e)[5:]))
    ctx.require(len(emit) >= 6, 'C06.codec', f'builder dispatch not bound: {emit}')
    # parser dispatch
    p = ctx.repo.func('sc3.base._osclib:OscMessage._parse_datagram')
    read = {}
    nopayload_r = set()
    for s in walk_local(p.node):
        if isinstance(s, ast.If):
            cp = U.compare_parts(s.test)
            if cp and norm(cp[0]) == 'param' and cp[1] is ast.Eq and U.is_str(cp[2]):
                rs = [U.method_name(c) for c in U.calls(ast.Module(body=s.body, type_ignores=[])) if (U.method_name(c) or '').startswith('get_')]
                if rs:
                    read[cp[2].value] = rs
                else:
                    nopayload_r.add(cp[2].value)
    for tag, ws in sorted(emit.items()):
        kind = TAGS.get(tag)
        ctx.ob('C06.codec', f'{m.name}:OscMessageBuilder.build:tag[{tag}]', ws == [f'write_{kind}'],
               f'tag {tag!r} must be written with write_{kind}; found {ws}', b.node, m)
        ctx.ob('C06.codec', f'{m.name}:OscMessage._parse_datagram:tag[{tag}]', read.get(tag) == [f'get_{kind}'],
               f'tag {tag!r} written with write_{kind} must be read with get_{kind}; parser has {read.get(tag)}', p.node, m)
    # payload-less tags: those sc3 can actually emit (None/bool are coerced by _build_msg before add_arg)
    reachable = {'[', ']'}
    ctx.ob('C06.codec', f'{m.name}:payloadless-tags', reachable <= nopayload_w and reachable <= nopayload_r and
           {'T', 'F'} <= nopayload_r and {'T', 'F', 'N'} <= nopayload_w,
           f'payload-less tags: writer {sorted(nopayload_w)}, reader {sorted(nopayload_r)}', p.node, m)
    # type tag string: ',' + tags ; address first
    src = full(b.node)
    ok = "dgram += write_string(self._address)" in src and "dgram += write_string(',' + arg_types)" in src and \
        U.before(src, "write_string(self._address)", "write_string(',' + arg_types)")
    ctx.ob('C06.codec', f'{m.name}:OscMessageBuilder.build:header', ok, 'address then ",tags" then arguments', b.node, m)
    # bundle: prefix, timetag, size-prefixed elements
    bb = ctx.repo.func('sc3.base._osclib:OscBundleBuilder.build')
    src = full(bb.node)
    ok = 'dgram = _BUNDLE_PREFIX_DGRAM' in src and 'dgram += write_timetag(self._timetag)' in src and \
        'size = content.size' in src and 'dgram += write_int(size)' in src and 'dgram += content.dgram' in src and \
        U.before(src, 'dgram += write_int(size)', 'dgram += content.dgram')
    ctx.ob('C06.codec', f'{m.name}:OscBundleBuilder.build', ok, '#bundle, timetag, then int32 size + element for each content', bb.node, m)
    ctx.ob('C06.codec', f'{m.name}:_BUNDLE_PREFIX_DGRAM', U.literal(m.assigns.get('_BUNDLE_PREFIX_DGRAM')) == b'#bundle\x00',
           'bundle prefix must be b"#bundle\\0"', None, m)
    for cname in ('OscMessage', 'OscBundle'):
        sz = ctx.repo.func(f'sc3.base._osclib:{cname}.size')
        ctx.ob('C06.codec', f'{sz.fq}', full(sz.node).endswith('return len(self._dgram)'), 'size is the datagram length', sz.node, m)
    # _get_arg_type: True/False before int
    g = ctx.repo.func('sc3.base._osclib:OscMessageBuilder._get_arg_type')
    order = []
    node = [s for s in g.node.body if isinstance(s, ast.If)][0]
    while True:
        order.append(norm(node.test))
        if len(node.orelse) == 1 and isinstance(node.orelse[0], ast.If):
            node = node.orelse[0]
        else:
            break
    def pos(t):
        return order.index(t) if t in order else 99
    ok = pos('arg_value is True') < pos('isinstance(arg_value, int)') and pos('arg_value is False') < pos('isinstance(arg_value, int)') \
        and pos('isinstance(arg_value, str)') < 99 and pos('isinstance(arg_value, float)') < 99
    ctx.ob('C06.codec', f'{g.fq}:bool-before-int', ok, f'booleans must be classified before ints; order {order}', g.node, m)


def rule_pad(ctx):
    ctx.rule('C06.pad', 'write_string output length is a multiple of 4 with at least one NUL; write_blob output is '
                        'int32 size + data padded to a multiple of 4; evaluated over all residues')
    m = ctx.repo.module('sc3.base._osclib')
    K = consts(m)
    w = m.functions['write_string']
    diff = None
    for s in walk_local(w.node):
        if isinstance(s, ast.Assign) and norm(s.targets[0]) == 'diff':
            diff = s.value
    ctx.require(diff is not None, 'C06.pad', 'cannot bind the padding expression of write_string')
    for n in range(0, 9):
        env = dict(K)
        env['len(dgram)'] = n
        try:
            d = ev(diff, env)
            ok = (n + d) % 4 == 0 and 1 <= d <= 4
            msg = f'len={n}: pad {d}'
        except CannotEval as e:
            ok, msg = False, f'cannot evaluate {e}'
        ctx.ob('C06.pad', f'{m.name}:write_string:len%4={n % 4}:n={n}', ok,
               f'string padding must give a multiple of 4 with 1..4 NULs ({msg})', diff, m)
    src = full(w.node)
    ctx.ob('C06.pad', f'{m.name}:write_string:encoding', "dgram = val.encode('utf-8')" in src and "dgram += b'\\x00' * diff" in src,
           'strings are UTF-8 bytes followed by the NUL padding', w.node, m)
    b = m.functions['write_blob']
    src = full(b.node)
    ok = 'dgram = write_int(len(val))' in src and 'dgram += val' in src and \
        "while len(dgram) % _BLOB_DGRAM_PAD != 0: dgram += b'\\x00'" in src and K.get('_BLOB_DGRAM_PAD') == 4
    ctx.ob('C06.pad', f'{m.name}:write_blob', ok, 'blob = int32 size + bytes + NULs to a multiple of 4', b.node, m)
    ctx.ob('C06.pad', f'{m.name}:_STRING_DGRAM_PAD', K.get('_STRING_DGRAM_PAD') == 4, 'string alignment is 4', None, m)
    # reader side alignment
    g = m.functions['get_blob']
    src = full(g.node)
    ctx.ob('C06.pad', f'{m.name}:get_blob:alignment', 'total_size = size + -size % _BLOB_DGRAM_PAD' in src and
           'return (dgram[int_offset:int_offset + size], int_offset + total_size)' in src,
           'blob reader returns size bytes and advances by the padded size', g.node, m)
    gs = m.functions['get_string']
    src = full(gs.node)
    ok = 'if offset % _STRING_DGRAM_PAD == 0: offset += _STRING_DGRAM_PAD else: offset += -offset % _STRING_DGRAM_PAD' in src
    ctx.ob('C06.pad', f'{m.name}:get_string:alignment', ok, 'string reader advances past 1..4 NULs to a multiple of 4', gs.node, m)


def rule_coerce(ctx):
    ctx.rule('C06.coerce', "_build_msg coerces in the documented order: None->0, bool->int (before any int test), "
                           "[]->0, str-headed list->message blob, number/None-headed list with list second->bundle blob, "
                           "other lists refused, '['/']' markers, else inferred")
    f = ctx.repo.func('sc3.base._oscinterface:OscInterface._build_msg')
    mod = f.module
    loop = [s for s in f.node.body if isinstance(s, ast.For)]
    ctx.require(len(loop) == 1, 'C06.coerce', '_build_msg loop vanished')
    var = norm(loop[0].target)
    ctx.ob('C06.coerce', f'{f.fq}:skips-address', norm(loop[0].iter) == f'{f.params[2]}[1:]',
           'arguments are everything after the address', loop[0], mod)
    chain = []
    node = loop[0].body[0]
    while isinstance(node, ast.If):
        chain.append((norm(node.test), node.body))
        if len(node.orelse) == 1 and isinstance(node.orelse[0], ast.If):
            node = node.orelse[0]
        else:
            chain.append(('else', node.orelse))
            break
    tests = [t for t, _ in chain]
    want = [f'{var} is None', f'isinstance({var}, bool)', f'isinstance({var}, list)', f"{var} == '['", f"{var} == ']'", 'else']
    ctx.ob('C06.coerce', f'{f.fq}:decision-order', tests == want, f'coercion order must be {want}; found {tests}', loop[0], mod)
    bodies = {t: [norm(s) for s in b] for t, b in chain}
    exp = {f'{var} is None': ['msg_builder.add_arg(0)'], f'isinstance({var}, bool)': [f'msg_builder.add_arg(int({var}))'],
           f"{var} == '['": ['msg_builder.args.append((msg_builder.ARG_TYPE_ARRAY_START, None))'],
           f"{var} == ']'": ['msg_builder.args.append((msg_builder.ARG_TYPE_ARRAY_STOP, None))'],
           'else': [f'msg_builder.add_arg({var})']}
    for t, b in exp.items():
        ctx.ob('C06.coerce', f'{f.fq}:{t}', bodies.get(t) == b, f'branch `{t}` must be {b}; found {bodies.get(t)}', loop[0], mod)
    lb = dict(chain).get(f'isinstance({var}, list)')
    sub = []
    if lb and isinstance(lb[0], ast.If):
        node = lb[0]
        while isinstance(node, ast.If):
            sub.append((norm(node.test), [norm(s) for s in node.body]))
            if len(node.orelse) == 1 and isinstance(node.orelse[0], ast.If):
                node = node.orelse[0]
            else:
                sub.append(('else', [norm(s)[:16] for s in node.orelse]))
                break
    p0, p1 = f.params[1], f.params[2]
    wantsub = [(f'not {var}', ['msg_builder.add_arg(0)']),
               (f'isinstance({var}[0], str)', [f'msg_builder.add_arg(self._build_msg({p0}, {var}).dgram)']),
               (f'isinstance({var}[0], (int, float, type(None))) and len({var}) > 1 and isinstance({var}[1], list)',
                [f'msg_builder.add_arg(self._build_bundle({p0}, {var}).dgram)']),
               ('else', ['raise ValueError'])]
    ctx.ob('C06.coerce', f'{f.fq}:list-branch', sub == wantsub, f'list coercions must be {wantsub}; found {sub}', loop[0], mod)


def rule_addarg(ctx):
    ctx.rule('C06.coerce', 'add_arg keeps arguments in call order as (tag, value) pairs: it only appends, infers the tag exactly when none is '
                           'given, and the tag string and the payloads are both produced from that one list')
    f = ctx.repo.func('sc3.base._osclib:OscMessageBuilder.add_arg')
    mod = f.module
    v, t = f.params[1], f.params[2]
    grows = [c for c in U.calls(f.node) if isinstance(c.func, ast.Attribute) and norm(c.func.value) == 'self._args']
    ctx.ob('C06.coerce', f'{f.fq}:append-only', bool(grows) and all(c.func.attr == 'append' for c in grows),
           f'arguments are appended in call order; found {[norm(c) for c in grows]}', f.node, mod)
    pairs = [norm(c.args[0]) for c in grows if c.args]
    ctx.ob('C06.coerce', f'{f.fq}:pair', f'({t}, {v})' in pairs, f'the scalar branch stores ({t}, {v}); found {pairs}', f.node, mod)
    src = full(f.node)
    ctx.ob('C06.coerce', f'{f.fq}:infer-when-absent', f'if not {t}: {t} = self._get_arg_type({v})' in src,
           'the tag is inferred from the value exactly when no tag was given', f.node, mod)
    ac = ctx.repo.func('sc3.base._osclib:OscBundleBuilder.add_content')
    grows = [c for c in U.calls(ac.node) if isinstance(c.func, ast.Attribute) and norm(c.func.value) == 'self._contents']
    ctx.ob('C06.coerce', f'{ac.fq}:append-only', [norm(c) for c in grows] == [f'self._contents.append({ac.params[1]})'],
           f'bundle elements are kept in the order they were added; found {[norm(c) for c in grows]}', ac.node, ac.module)
    b = ctx.repo.func('sc3.base._osclib:OscMessageBuilder.build')
    bsrc = full(b.node)
    ok = "arg_types = ''.join([arg[0] for arg in self._args])" in bsrc and 'for arg_type, value in self._args:' in bsrc
    ctx.ob('C06.coerce', f'{b.fq}:one-list', ok, 'the tag string and the payload loop both iterate self._args in order', b.node, mod)


def _strpad_fn(ctx):
    f = ctx.repo.func('sc3.base.netaddr:NetAddr._strpad4')
    ret = [s for s in f.node.body if isinstance(s, ast.Return)][0].value
    p = f.params[0]
    return lambda n: ev(ret, {p: n})


def _pad_fns(ctx):
    """name -> python callable evaluating the static helper body"""
    na = ctx.repo.cls('sc3.base.netaddr:NetAddr')
    out = {}
    for name, f in na.methods.items():
        if f.is_staticmethod and len(f.params) == 1:
            rets = [s for s in U.body_nodoc(f.node) if isinstance(s, ast.Return)]
            if len(rets) == 1 and len(U.body_nodoc(f.node)) == 1:
                out[name] = (lambda r, p: (lambda n: ev(r, {p: n})))(rets[0].value, f.params[0])
    return out


def rule_size(ctx):
    ctx.rule('C06.size', 'for every argument type the predicted contribution is >= the written one: strings by UTF-8 '
                         'byte length padded with terminator; blobs 4 + len padded; nested lists 4 + predicted blob; '
                         'everything else >= 4; evaluated for lengths 0..8')
    f = ctx.repo.func('sc3.base.netaddr:NetAddr._calc_msg_dgram_size')
    mod = f.module
    pads = _pad_fns(ctx)
    ctx.require('_strpad4' in pads, 'C06.size', '_strpad4 helper not bound')
    for n in range(0, 9):
        try:
            got = pads['_strpad4'](n)
            ok = got == n + (4 - n % 4)
        except CannotEval:
            got, ok = None, False
        ctx.ob('C06.size', f'{mod.name}:NetAddr._strpad4:n={n}', ok, f'_strpad4({n}) = {got}, string of {n} bytes occupies {n + (4 - n % 4)}', f.node, mod)
    src = full(f.node)
    mparam = f.params[1]
    ctx.ob('C06.size', f'{f.fq}:address', f"res = self._strpad4(len(bytes({mparam}[0], 'ascii')))" in src or
           f"res = self._strpad4(len(bytes({mparam}[0], 'utf-8')))" in src or f"res = self._strpad4(len({mparam}[0].encode('utf-8')))" in src,
           'address contribution is its padded byte length', f.node, mod)
    ctx.ob('C06.size', f'{f.fq}:typetags', f'res += self._strpad4(len({mparam}[1:]) + 1)' in src,
           'type tag string is "," plus one tag per argument, padded', f.node, mod)
    loop = [s for s in f.node.body if isinstance(s, ast.For)]
    ctx.require(len(loop) == 1, 'C06.size', 'argument loop vanished')
    var = norm(loop[0].target)
    chain = []
    node = loop[0].body[0]
    while isinstance(node, ast.If):
        chain.append((norm(node.test), node.body))
        if len(node.orelse) == 1 and isinstance(node.orelse[0], ast.If):
            node = node.orelse[0]
        else:
            chain.append(('else', node.orelse))
            break
    br = dict(chain)

    def contribution(body):
        if len(body) == 1 and isinstance(body[0], ast.AugAssign) and isinstance(body[0].op, ast.Add) and norm(body[0].target) == 'res':
            return body[0].value
        return None

    def calls(node, rec):
        if isinstance(node.func, ast.Attribute) and U.is_self_attr(node.func) and node.func.attr in pads and len(node.args) == 1:
            return pads[node.func.attr](rec(node.args[0]))
        return None
    # str
    sb = br.get(f'isinstance({var}, str)')
    expr = contribution(sb) if sb else None
    ok_bytes = expr is not None and any(x in norm(expr) for x in (f"len(bytes({var}, 'utf-8'))", f"len({var}.encode('utf-8'))",
                                                                  f"len(bytes({var}, 'utf8'))", f"len({var}.encode())"))
    ctx.ob('C06.size', f'{f.fq}:str:byte-length', ok_bytes,
           f'string contribution {norm(expr) if expr is not None else None} must use the UTF-8 byte length the encoder writes '
           f'(len({var}) counts characters: non-ASCII strings are under-predicted)', loop[0], mod)
    if expr is not None:
        for n in range(0, 9):
            env = {f"len(bytes({var}, 'utf-8'))": n, f"len({var}.encode('utf-8'))": n, f'len({var})': n,
                   f"len(bytes({var}, 'utf8'))": n, f"len({var}.encode())": n}
            try:
                got = ev(expr, env, calls)
                ok = got >= n + (4 - n % 4)
            except CannotEval as e:
                got, ok = f'? {e}', False
            ctx.ob('C06.size', f'{f.fq}:str:n={n}', ok, f'{n}-byte string predicted {got}, written {n + (4 - n % 4)}', loop[0], mod)
    # blob
    bb = br.get(f'isinstance({var}, (bytes, bytearray, memoryview))')
    expr = contribution(bb) if bb else None
    ctx.ob('C06.size', f'{f.fq}:blob:branch', expr is not None, 'bytes-like arguments must have a size branch', loop[0], mod)
    if expr is not None:
        for n in range(1, 10):
            try:
                got = ev(expr, {f'len({var})': n}, calls)
                want = 4 + n + (-n % 4)
                ok = got >= want
            except CannotEval as e:
                got, want, ok = f'? {e}', None, False
            ctx.ob('C06.size', f'{f.fq}:blob:n={n}', ok, f'{n}-byte blob predicted {got}, written {want} (size + data + padding)', loop[0], mod)
    # default
    eb = br.get('else')
    expr = contribution(eb) if eb else None
    try:
        dv = ev(expr, {}) if expr is not None else None
    except CannotEval:
        dv = None
    ctx.ob('C06.size', f'{f.fq}:default', dv is not None and dv >= 4, f'other arguments (int32/float32/midi) occupy 4 bytes; predicted {dv}', loop[0], mod)
    # every tag the builder can infer for a value that lands in the predictor's default branch is at most that wide
    g = ctx.repo.func('sc3.base._osclib:OscMessageBuilder._get_arg_type')
    bc = ctx.repo.cls('sc3.base._osclib:OscMessageBuilder')
    tagconst = {k: v.value for k, v in bc.class_assigns.items() if k.startswith('ARG_TYPE_') and U.is_str(v)}
    inferred = sorted({n_.attr for n_ in ast.walk(g.node) if isinstance(n_, ast.Attribute) and U.is_self_attr(n_) and n_.attr.startswith('ARG_TYPE_')})
    ctx.require(len(inferred) >= 6, 'C06.size', f'_get_arg_type tags not bound: {inferred}')
    for cn in inferred:
        tag = tagconst.get(cn)
        kind = TAGS.get(tag)
        if kind in ('string', 'blob'):
            continue
        width = OSC_ATOMS[kind][1] if kind in OSC_ATOMS else 0
        ctx.ob('C06.size', f'{g.fq}:infers[{cn}]:width', dv is not None and width <= dv,
               f'_get_arg_type can infer {cn} ({tag!r}), written with {width} bytes; the size predictor counts {dv} for such a value', g.node, g.module)
    # list branch
    lb = br.get(f'isinstance({var}, list)')
    lsrc = ' '.join(norm(s) for s in lb) if lb else ''
    ok = f'self._calc_msg_dgram_size({var}) + 4' in lsrc
    ctx.ob('C06.size', f'{f.fq}:list:message-blob', ok, 'a message-shaped list is a blob: 4 + predicted message size', loop[0], mod)
    # bundle predictor
    g = ctx.repo.func('sc3.base.netaddr:NetAddr._calc_bndl_dgram_size')
    src = full(g.node)
    ok = 'res = 16' in src and 'res += 4' in src and f'res += self._calc_msg_dgram_size(e)' in src and \
        'res += self._calc_bndl_dgram_size(e[1:])' in src
    ctx.ob('C06.size', f'{g.fq}:arithmetic', ok, 'bundle = 16 + sum(4 + element)', g.node, mod)
    lp = [s for s in g.node.body if isinstance(s, ast.For)]
    first = norm(lp[0].body[0]) if lp else ''
    ctx.ob('C06.size', f'{g.fq}:prefix-unconditional', first == 'res += 4', 'every element contributes its 4-byte size prefix', g.node, mod)


def rule_clump(ctx):
    ctx.rule('C06.clump', 'the clump accumulator adds, per element, what _calc_bndl_dgram_size adds (4-byte prefix '
                          'included), starts at 16 and flushes before exceeding the requested size; the sync path reserves '
                          'at least the size of the appended /sync element')
    f = ctx.repo.func('sc3.base.netaddr:NetAddr._clump_bundle')
    mod = f.module
    loops = [s for s in f.node.body if isinstance(s, ast.For)]
    ctx.require(len(loops) == 2, 'C06.clump', '_clump_bundle shape changed')
    l1, l2 = loops
    src1 = full(l1)
    ok = 'elist.append((self._calc_msg_dgram_size(e), e))' in src1 and 'elist.append((self._calc_bndl_dgram_size(e[1:]), e))' in src1
    ctx.ob('C06.clump', f'{f.fq}:element-size', ok, 'element sizes come from the same predictor', l1, mod)
    # slice style: `for i, (s, _) in enumerate(elist)` recording split points and slicing the element list afterwards.  The clumps
    # tile the list only if each slice starts where the previous one ended
    if isinstance(l2.target, ast.Tuple) and len(l2.target.elts) == 2 and isinstance(l2.target.elts[0], ast.Name) \
            and isinstance(l2.target.elts[1], ast.Tuple) and isinstance(l2.iter, ast.Call) and norm(l2.iter.func) == 'enumerate':
        idx = l2.target.elts[0].id
        lst = norm(l2.iter.args[0])
        slices = [x for x in walk_local(f.node) if isinstance(x, ast.Subscript) and isinstance(x.slice, ast.Slice) and norm(x.value) == lst]
        starts = {norm(x.slice.lower) for x in slices if x.slice.lower is not None}
        startv = next(iter(starts)) if len(starts) == 1 else None
        moves = [norm(a.value) for a in walk_local(l2) if isinstance(a, ast.Assign) and norm(a.targets[0]) == startv]
        inner_ok = all(x.slice.upper is None or norm(x.slice.upper) == idx for x in slices)
        ok = startv is not None and len(slices) >= 2 and inner_ok and moves == [idx] and \
            any(x.slice.upper is None for x in slices)
        ctx.ob('C06.clump', f'{f.fq}:tail', ok,
               f'clumps are slices {[norm(x) for x in slices]} of the element list with the start moved to {moves}: they tile the list only '
               f'if every slice ends at the split index and the next starts there (start = {idx}); otherwise the element at each split '
               f'point is in no clump (or in two)', l2, mod)
        svar = l2.target.elts[1].elts[0].id if isinstance(l2.target.elts[1].elts[0], ast.Name) else None
        accs = [s_.target.id for s_ in l2.body if isinstance(s_, ast.AugAssign) and isinstance(s_.op, ast.Add) and isinstance(s_.target, ast.Name)
                and svar in U.names_in(s_.value) and s_.target.id != svar]
        ctx.ob('C06.clump', f'{f.fq}:element-prefix', bool(accs) and any(norm(s_) == f'{svar} += 4' for s_ in l2.body),
               'the accumulator adds element size + 4 (int32 size prefix)', l2, mod)
        _clump_tail(ctx, f, mod)
        return
    # per-element contribution: simulate the loop body arithmetic symbolically for s -> accumulated delta
    svar = l2.target.elts[0].id if isinstance(l2.target, ast.Tuple) and isinstance(l2.target.elts[0], ast.Name) else None
    evar = l2.target.elts[1].id if isinstance(l2.target, ast.Tuple) and isinstance(l2.target.elts[1], ast.Name) else None
    ctx.require(svar is not None and evar is not None, 'C06.clump', f'cannot bind the loop variables of _clump_bundle ({norm(l2.target)})')
    # roles: accumulator = the name augmented by the element size in the loop; clump = list the element is appended to;
    # result = list the clump is appended to when flushing
    acc = None
    for s_ in l2.body:
        if isinstance(s_, ast.AugAssign) and isinstance(s_.op, ast.Add) and isinstance(s_.target, ast.Name) and svar in U.names_in(s_.value) \
                and s_.target.id != svar:
            acc = s_.target.id
    clump = None
    for s_ in l2.body:
        if isinstance(s_, ast.Expr) and isinstance(s_.value, ast.Call) and U.method_name(s_.value) == 'append' and s_.value.args \
                and norm(s_.value.args[0]) == evar:
            clump = norm(s_.value.func.value)
    ctx.require(acc is not None and clump is not None, 'C06.clump', f'cannot bind accumulator/clump roles in _clump_bundle (acc={acc}, clump={clump})')
    delta = 0
    flush_test = None
    pre_add = 0
    for s in l2.body:
        if isinstance(s, ast.AugAssign) and norm(s.target) == svar and isinstance(s.op, ast.Add) and U.is_num(s.value):
            pre_add += U.num_value(s.value)
        elif isinstance(s, ast.If) and flush_test is None:
            flush_test = s
        elif isinstance(s, ast.AugAssign) and norm(s.target) == acc and isinstance(s.op, ast.Add):
            try:
                delta = ev(s.value, {svar: 1000 + pre_add}) - 1000
            except CannotEval:
                delta = None
    ctx.ob('C06.clump', f'{f.fq}:element-prefix', delta is not None and delta >= 4,
           f'accumulator adds element size + {delta}; the encoder adds element size + 4 (int32 size prefix): clumps of many '
           f'small messages exceed the requested size', l2, mod)
    init = [s for s in f.node.body if isinstance(s, ast.Assign) and norm(s.targets[0]) == acc]
    ctx.ob('C06.clump', f'{f.fq}:initial', bool(init) and U.num_value(init[0].value) == 16, 'accumulator starts at 16 (#bundle + timetag)', f.node, mod)
    ok = False
    if flush_test is not None:
        t = norm(flush_test.test)
        sizep = f.params[2]
        ok = t in (f'{acc} + {svar} >= {sizep}', f'{acc} + {svar} > {sizep}')
        resets = [norm(s) for s in flush_test.body]
        flushed = [r for r in resets if r.endswith(f'.append({clump})')]
        ok = ok and len(flushed) == 1 and f'{clump} = []' in resets and f'{acc} = 16' in resets and \
            resets.index(flushed[0]) < resets.index(f'{clump} = []')
    ctx.ob('C06.clump', f'{f.fq}:flush', ok, 'flush the pending clump before the new element would reach the size, and restart at 16', l2, mod)
    tail = full(f.node)
    last = f.node.body[-2] if len(f.node.body) >= 2 else None
    ok_tail = isinstance(last, ast.If) and norm(last.test) == clump and len(last.body) == 1 and norm(last.body[0]).endswith(f'.append({clump})') \
        and isinstance(f.node.body[-1], ast.Return)
    ctx.ob('C06.clump', f'{f.fq}:tail', ok_tail and [norm(x) for x in l2.body][-1] == f'{clump}.append({evar})',
           'every element lands in exactly one clump, in order', f.node, mod)
    _clump_tail(ctx, f, mod)


def _clump_tail(ctx, f, mod):
    # sync reserve
    na = ctx.repo.cls('sc3.base.netaddr:NetAddr')
    K = {k: U.literal(v) for k, v in na.class_assigns.items()}
    sync = K.get('_SYNC_BNDL_DGRAM_SIZE')
    mx = K.get('_MAX_UDP_DGRAM_SIZE')
    # /sync element: 4 prefix + '/sync\0\0\0' (8) + ',i\0\0' (4) + int (4) = 20
    ctx.ob('C06.clump', f'{mod.name}:NetAddr._SYNC_BNDL_DGRAM_SIZE', isinstance(sync, int) and sync >= 20,
           f'reserved {sync} bytes for the appended /sync element (needs 20)', na.node, mod)
    ctx.ob('C06.clump', f'{mod.name}:NetAddr._MAX_UDP_DGRAM_SIZE', isinstance(mx, int) and mx <= 65507 and mx % 4 == 0,
           f'maximum datagram {mx} must be <= 65507 and a multiple of 4', na.node, mod)
    s = ctx.repo.func('sc3.base.netaddr:NetAddr.sync')
    src = full(s.node)
    ok = 'max_size = self._MAX_UDP_DGRAM_SIZE - sync_size' in src and 'self._clump_bundle(elements, max_size)' in src and \
        'if self._calc_bndl_dgram_size(elements) > max_size' in src
    ctx.ob('C06.clump', f'{s.fq}:reserve', ok, 'sync path clumps to the maximum minus the reserved /sync size', s.node, mod)
    c = ctx.repo.func('sc3.base.netaddr:NetAddr.send_clumped_bundles')
    src = full(c.node)
    ok = 'if self._calc_bndl_dgram_size(elements) > self._MAX_UDP_DGRAM_SIZE' in src and 'for item in self._clump_bundle(elements)' in src
    ctx.ob('C06.clump', f'{c.fq}', ok, 'oversized bundles are clumped', c.node, mod)
    dflt = f.node.args.defaults
    ctx.ob('C06.clump', f'{f.fq}:default-size', bool(dflt) and U.num_value(dflt[-1]) <= (mx or 0), 'default clump size within the UDP limit', f.node, mod)


def rule_shapes(ctx):
    ctx.rule('C06.shapes', 'the shapes the size predictor accepts include every shape the encoder accepts: empty lists, '
                           'message- and bundle-shaped blobs, nested bundles with None time')
    enc = ctx.repo.func('sc3.base._oscinterface:OscInterface._build_bundle')
    heads = None
    for s in walk_local(enc.node):
        if isinstance(s, ast.If) and 'isinstance(arg[0], (' in norm(s.test):
            heads = norm(s.test)
    ctx.require(heads is not None, 'C06.shapes', 'encoder bundle-head test not bound')
    enc_types = set(heads[heads.index('(', heads.index('arg[0]')) + 1:heads.rindex('))')].split(', '))
    for fq in ('sc3.base.netaddr:NetAddr._calc_bndl_dgram_size', 'sc3.base.netaddr:NetAddr._clump_bundle'):
        f = ctx.repo.func(fq)
        t = None
        for s in walk_local(f.node):
            if isinstance(s, ast.If) and 'isinstance(e[0], (' in norm(s.test):
                t = norm(s.test)
        got = set(t[t.index('(', t.index('e[0]')) + 1:t.rindex('))')].split(', ')) if t else set()
        ctx.ob('C06.shapes', f'{fq}:bundle-head-types', enc_types <= got,
               f'encoder accepts nested bundles headed by {sorted(enc_types)}, predictor only {sorted(got)}', f.node, f.module)
    f = ctx.repo.func('sc3.base.netaddr:NetAddr._calc_msg_dgram_size')
    lp_ = [s for s in f.node.body if isinstance(s, ast.For)]
    ctx.require(len(lp_) == 1, 'C06.shapes', 'predictor argument loop not bound')
    val = norm(lp_[0].target)
    lb = None
    for s in walk_local(f.node):
        if isinstance(s, ast.If) and norm(s.test) == f'isinstance({val}, list)':
            lb = s
    ctx.require(lb is not None, 'C06.shapes', 'predictor list branch not bound')
    src = ' '.join(norm(s) for s in lb.body)
    ctx.ob('C06.shapes', f'{f.fq}:list:empty', f'if not {val}' in src, 'encoder sends [] as 0; predictor must accept it', lb, f.module)
    ctx.ob('C06.shapes', f'{f.fq}:list:bundle-blob', f'_calc_bndl_dgram_size({val}[1:])' in src,
           'encoder accepts bundle-shaped completion messages; predictor must size them', lb, f.module)


def rule_send(ctx):
    ctx.rule('C06.send', '_do_send predicts the size of exactly the message it sends and falls back to the file path above the limit')
    f = ctx.repo.func('sc3.synth.synthdef:SynthDef._do_send')
    src = full(f.node)
    ok = "msg = ['/d_recv', self.as_bytes(), completion_msg]" in src and 'msg_size = server.addr._calc_msg_dgram_size(msg)' in src \
        and 'if msg_size <= server.addr._MAX_UDP_DGRAM_SIZE: server.addr.send_msg(*msg)' in src and "'/d_load'" in src
    ctx.ob('C06.send', f'{f.fq}', ok, 'size test and send must use the same message; oversize goes through /d_load', f.node, f.module)


def rule_refuse(ctx):
    ctx.rule('C06.refuse', 'what the wire format cannot carry is refused by the writer: a string with a null byte (the reader stops at the '
                           'first null), an address the reader does not recognise as a message (the writer accepts exactly what '
                           'dgram_is_message recognises)')
    m = ctx.repo.module('sc3.base._osclib')
    ws = m.functions['write_string']
    src = full(ws.node)
    ok = U.before(src, "dgram = val.encode('utf-8')", "if b'\\x00' in dgram: raise OscTypeBuildError(", 'diff = _STRING_DGRAM_PAD - ')
    ctx.ob('C06.refuse', f'{ws.fq}:null-byte', ok, 'get_string ends a string at its first null byte, so write_string must refuse one inside '
                                                   'the value (it would be truncated and shift every later argument)', ws.node, m)
    gs = m.functions['get_string']
    ctx.ob('C06.refuse', f'{gs.fq}:terminator', 'while dgram[start_index + offset] != 0: offset += 1' in full(gs.node),
           'the reader scans to the first null byte', gs.node, m)
    rec = m.functions['OscMessage.dgram_is_message']
    mm = re.search(r"return dgram\.startswith\(b'(.+?)'\)", full(rec.node))
    b = m.functions['OscMessageBuilder.build']
    src = full(b.node)
    ok = False
    if mm is not None:
        body = U.body_nodoc(b.node)
        for i, st in enumerate(body):
            if isinstance(st, ast.If) and f"not self._address.startswith('{mm.group(1)}')" in norm(st.test) and isinstance(st.body[0], ast.Raise):
                rest = ' '.join(norm(x) for x in body[i + 1:])
                ok = 'write_string(self._address)' in rest and not any('write_string(self._address)' in norm(x) for x in body[:i])
    ctx.ob('C06.refuse', f'{b.fq}:address-marker', ok,
           f'the reader recognises a message by its leading {mm.group(1) if mm else "?"!r}; the writer must refuse any other address '
           f'(inside a bundle such an element is dropped, and "#bundle" reads back as a bundle)', b.node, m)
    bp = m.functions['OscBundle.dgram_is_bundle']
    ctx.ob('C06.refuse', f'{bp.fq}', 'return dgram.startswith(_BUNDLE_PREFIX_DGRAM)' in full(bp.node), 'bundles are recognised by the #bundle prefix', bp.node, m)


def run(ctx):
    from ..report import SubCtx
    from . import c07
    sub = SubCtx(ctx, 'C06.nest', 'nested bundles and completion blobs are encoded by _build_bundle/_build_msg with one send instant: the element handling decided for C07')
    c07.rule_nest(sub)
    rule_refuse(ctx)
    rule_codec(ctx)
    rule_pad(ctx)
    rule_coerce(ctx)
    rule_addarg(ctx)
    rule_size(ctx)
    rule_clump(ctx)
    rule_shapes(ctx)
    rule_send(ctx)


MUTANTS = [
    dict(rule='C06.clump', name='clumps sliced with the split element dropped (seed C17-f)', file='sc3/base/netaddr.py',
         old="        res = []\n        clump = []\n        acc_size = 16  # Bundle prefix + Timetag bytes.\n        for s, e in elist:\n            s += 4  # Element size bytes.\n            if acc_size + s >= size:\n                res.append(clump)\n                clump = []\n                acc_size = 16  # Bundle prefix + Timetag bytes.\n            acc_size += s\n            clump.append(e)\n        if clump:\n            res.append(clump)\n        return res",
         new="        res = []\n        start = 0\n        acc_size = 16  # Bundle prefix + Timetag bytes.\n        for i, (s, _) in enumerate(elist):\n            s += 4  # Element size bytes.\n            if acc_size + s >= size:\n                res.append([e for _, e in elist[start:i]])\n                start = i + 1\n                acc_size = 16  # Bundle prefix + Timetag bytes.\n            acc_size += s\n        if start < len(elist):\n            res.append([e for _, e in elist[start:]])\n        return res"),
    dict(rule='C06.coerce', name='add_arg stores (value, tag)', file='sc3/base/_osclib.py',
         old="            self._args.append((arg_type, arg_value))", new="            self._args.append((arg_value, arg_type))"),
    dict(rule='C06.coerce', name='add_arg inserts at the front', file='sc3/base/_osclib.py',
         old="            self._args.append((arg_type, arg_value))", new="            self._args.insert(0, (arg_type, arg_value))"),
    dict(rule='C06.size', name='large floats inferred as doubles', file='sc3/base/_osclib.py',
         old="        elif isinstance(arg_value, float):\n            arg_type = self.ARG_TYPE_FLOAT\n",
         new="        elif isinstance(arg_value, float):\n            arg_type = self.ARG_TYPE_DOUBLE if abs(arg_value) > 3.4e38 else self.ARG_TYPE_FLOAT\n"),
    dict(rule='C06.refuse', name='(fix reverted) null bytes inside strings are written', file='sc3/base/_osclib.py',
         old="    if b'\\x00' in dgram:\n        raise OscTypeBuildError('OSC strings cannot contain null characters')\n", new=""),
    dict(rule='C06.refuse', name='(fix reverted) any non-empty address is accepted', file='sc3/base/_osclib.py',
         old="        if not isinstance(self._address, str)\\\n        or not self._address.startswith('/'):\n            raise OscMessageBuildError(\"OSC addresses must start with '/'\")\n", new=""),
    dict(rule='C06.codec', name='little-endian int', file='sc3/base/_osclib.py',
         old="        return struct.pack('>i', val)", new="        return struct.pack('<i', val)"),
    dict(rule='C06.codec', name='float read as double', file='sc3/base/_osclib.py',
         old="                '>f', dgram[start_index:start_index + _FLOAT_DGRAM_LEN])[0]", new="                '>d', dgram[start_index:start_index + _FLOAT_DGRAM_LEN])[0]"),
    dict(rule='C06.codec', name='parser reads r with get_int', file='sc3/base/_osclib.py',
         old="val, index = get_rgba(self._dgram, index)", new="val, index = get_int(self._dgram, index)"),
    dict(rule='C06.codec', name='bundle element without size prefix', file='sc3/base/_osclib.py',
         old="                    dgram += write_int(size)\n", new=""),
    dict(rule='C06.codec', name='bool classified after int', file='sc3/base/_osclib.py',
         old="        elif arg_value is True:\n            arg_type = self.ARG_TYPE_TRUE\n        elif arg_value is False:\n            arg_type = self.ARG_TYPE_FALSE\n        elif isinstance(arg_value, int):\n            arg_type = self.ARG_TYPE_INT",
         new="        elif isinstance(arg_value, int):\n            arg_type = self.ARG_TYPE_INT\n        elif arg_value is True:\n            arg_type = self.ARG_TYPE_TRUE\n        elif arg_value is False:\n            arg_type = self.ARG_TYPE_FALSE"),
    dict(rule='C06.pad', name='string padding drops terminator', file='sc3/base/_osclib.py',
         old="diff = _STRING_DGRAM_PAD - (len(dgram) % _STRING_DGRAM_PAD)", new="diff = -len(dgram) % _STRING_DGRAM_PAD"),
    dict(rule='C06.pad', name='blob not padded', file='sc3/base/_osclib.py',
         old="    while len(dgram) % _BLOB_DGRAM_PAD != 0:\n        dgram += b'\\x00'\n", new=""),
    dict(rule='C06.coerce', name='bool after generic branch', file='sc3/base/_oscinterface.py',
         old="            elif isinstance(arg, bool):\n                msg_builder.add_arg(int(arg))\n            elif isinstance(arg, list):",
         new="            elif isinstance(arg, list):"),
    dict(rule='C06.coerce', name='None not coerced', file='sc3/base/_oscinterface.py',
         old="            if arg is None:\n                msg_builder.add_arg(0)\n            elif isinstance(arg, bool):", new="            if isinstance(arg, bool):"),
    dict(rule='C06.size', name='(fix reverted) blob padding omitted', file='sc3/base/netaddr.py',
         old="res += self._pad4(len(val)) + 4  # Blob size bytes.", new="res += len(val) + 4  # Blob size bytes."),
    dict(rule='C06.size', name='(fix reverted) string counted in characters', file='sc3/base/netaddr.py',
         old="res += self._strpad4(len(bytes(val, 'utf-8')))", new="res += self._strpad4(len(val))"),
    dict(rule='C06.size', name='strpad without terminator', file='sc3/base/netaddr.py',
         old="        return n + 4 - (n & 3)", new="        return n + (-n & 3)"),
    dict(rule='C06.size', name='bundle element prefix omitted in predictor', file='sc3/base/netaddr.py',
         old="            res += 4  # Element size bytes.\n", new=""),
    dict(rule='C06.clump', name='(fix reverted) clump prefix omitted', file='sc3/base/netaddr.py',
         old="            s += 4  # Element size bytes.\n", new=""),
    dict(rule='C06.clump', name='sync reserve too small', file='sc3/base/netaddr.py',
         old="_SYNC_BNDL_DGRAM_SIZE = 36", new="_SYNC_BNDL_DGRAM_SIZE = 16"),
    dict(rule='C06.shapes', name='(fix reverted) None-headed bundles refused by predictor', file='sc3/base/netaddr.py',
         old="            elif isinstance(e[0], (int, float, type(None))):  # bundle\n                res += self._calc_bndl_dgram_size(e[1:])",
         new="            elif isinstance(e[0], (int, float)):  # bundle\n                res += self._calc_bndl_dgram_size(e[1:])"),
    dict(rule='C06.send', name='size of another message tested', file='sc3/synth/synthdef.py',
         old="msg_size = server.addr._calc_msg_dgram_size(msg)", new="msg_size = server.addr._calc_msg_dgram_size(['/d_recv', self.as_bytes()])"),
]

REPAIRS = []

EQUIV = [
    dict(name='clumps sliced at the split points (tiling)', file='sc3/base/netaddr.py',
         old="        res = []\n        clump = []\n        acc_size = 16  # Bundle prefix + Timetag bytes.\n        for s, e in elist:\n            s += 4  # Element size bytes.\n            if acc_size + s >= size:\n                res.append(clump)\n                clump = []\n                acc_size = 16  # Bundle prefix + Timetag bytes.\n            acc_size += s\n            clump.append(e)\n        if clump:\n            res.append(clump)\n        return res",
         new="        res = []\n        start = 0\n        acc_size = 16  # Bundle prefix + Timetag bytes.\n        for i, (s, _) in enumerate(elist):\n            s += 4  # Element size bytes.\n            if acc_size + s >= size and i > start:\n                res.append([e for _, e in elist[start:i]])\n                start = i\n                acc_size = 16  # Bundle prefix + Timetag bytes.\n            acc_size += s\n        if start < len(elist):\n            res.append([e for _, e in elist[start:]])\n        return res"),
    dict(name='rename locals of _clump_bundle', file='sc3/base/netaddr.py', start='    def _clump_bundle(self', end='    def _calc_bndl_dgram_size', rename=[('acc_size', 'total'), ('elist', 'sized'), ('clump', 'chunk')]),
    dict(name='rename locals of _calc_msg_dgram_size', file='sc3/base/netaddr.py', start='    def _calc_msg_dgram_size(self, msg):', end='    @staticmethod\n    def _strpad4', rename=[('val', 'item')]),
]
