"""C19 - envelopes encode to the server format and evaluate consistently."""

import ast
import re

from ..loader import norm, full, walk_local, walk_local_ordered
from .. import util as U
from ..symx import flat_commutative

EXPLANATION = (
    'The envelope encoders are compared with the server layout: the shape table must map every server shape name '
    '(reference table) to its number, contain every name the class docstring documents, and the client-side evaluator '
    'must have a branch for every shape number the encoder can produce; _envgen_format must append level0, segment '
    'count, release node or -99, loop node or -99 and then, per segment, target level, duration, shape number and '
    'curvature with curves wrapped modulo their length; _interpolation_format the IEnvGen order; __init__ wraps times to '
    'len(levels) - 1; _env_at reads stride-4 records at the offsets the writer used; each standard constructor returns '
    'the reference breakpoints (levels, times, curve, release node) after normalisation of commutative operands, and '
    'every optional node argument tolerates its documented default.')
LEVEL_TEXT = ('static: shape table vs reference and docstring, encoder append order, evaluator record offsets and branch '
              'exhaustiveness, constructor breakpoints after AST normalisation, None-default discipline. Interpolation '
              'values between breakpoints are not decided.')
LEVEL_NOTE = 'reference shapes/breakpoints from the server (SC_Env / EnvGen help) kept in the rule module'
LEVEL_TEXT_ADD = ' Also: formats are not memoized, constructors tolerate list parameters and copy their point lists.'
LEVEL_TEXT_ADD += ' Rounds e-f: the evaluator advances over every stage unconditionally (no skipped zero-duration stage).'
LEVEL_TEXT = (globals().get('LEVEL_TEXT') or EXPLANATION) + LEVEL_TEXT_ADD
TECHNIQUE = 'static analysis: table agreement + append-order extraction + AST normal-form comparison of constructor breakpoints'

SHAPES = {'step': 0, 'lin': 1, 'linear': 1, 'exp': 2, 'exponential': 2, 'sin': 3, 'sine': 3, 'wel': 4, 'welch': 4,
          'sqr': 6, 'squared': 6, 'cub': 7, 'cubed': 7, 'hold': 8}
CURVATURE = 5

CTORS = {
    # name -> (levels, times, curve, release node) as normalised text; DUR2 = dur * 0.5 bound before
    'triangle': ('[0, level, 0]', '[dur, dur]', None, None),
    'sine': ('[0, level, 0]', '[dur, dur]', "'sine'", None),
    'perc': ('[0, level, 0]', '[attack_time, release_time]', 'curve', None),
    'linen': ('[0, level, level, 0]', '[attack_time, sustain_time, release_time]', 'curve', None),
    'cutoff': ('[level, release_level]', '[release_time]', 'curve', '0'),
    'asr': ('[0, sustain_level, 0]', '[attack_time, release_time]', 'curve', '1'),
    'adsr': (None, '[attack_time, decay_time, release_time]', 'curve', '2'),
    'dadsr': (None, '[delay_time, attack_time, decay_time, release_time]', 'curve', '3'),
}


def env(ctx):
    return ctx.repo.cls('sc3.synth.envelope:Env')


def rule_shapes(ctx):
    ctx.rule('C19.shapes', '_SHAPE_NAMES maps every server shape name to its number and only to server numbers; every name the '
                           'docstring documents is a key; _env_at has a branch for each shape number _shape_number can produce')
    ci = env(ctx)
    mod = ci.module
    node = ci.class_assigns.get('_SHAPE_NAMES')
    tab = U.literal(node)
    ctx.require(isinstance(tab, dict), 'C19.shapes', '_SHAPE_NAMES is not a literal dict')
    for name, num in SHAPES.items():
        ctx.ob('C19.shapes', f'{ci.fq}:_SHAPE_NAMES[{name}]', tab.get(name) == num,
               f"shape name {name!r} must map to server shape {num}; table has {tab.get(name)!r}" +
               ("" if name in tab else f" (Env(curves={name!r}) raises although the name is documented)"), node, mod)
    for name, num in tab.items():
        ctx.ob('C19.shapes', f'{ci.fq}:_SHAPE_NAMES:value[{name}]', num in set(SHAPES.values()), f'{name!r} -> {num} is not a server shape number', node, mod)
    doc = ast.get_docstring(ci.node) or ''
    documented = set(re.findall(r"'([a-z]+)'", doc[doc.find('curves'):doc.find('curves') + 1200]))
    documented = {d for d in documented if len(d) <= 11 and d not in ('lin',) or d == 'lin'}
    cand = {d for d in documented if d in SHAPES or d in tab or d.startswith('sq') or d.startswith('cub')}
    for d in sorted(cand):
        ctx.ob('C19.shapes', f'{ci.fq}:documented[{d}]', d in tab, f'documented shape name {d!r} is not accepted by the table', node, mod)
    ctx.require(len(cand) >= 10, 'C19.shapes', f'only {len(cand)} documented shape names found in the docstring')
    # _shape_number: numbers -> 5, names -> table
    sn = ci.methods['_shape_number']
    src = full(sn.node)
    ok = 'if gpp.ugen_param(item)._is_valid_ugen_input(): ret.append(5)' in src and 'shape = cls._SHAPE_NAMES[item]' in src and 'raise ValueError' in src
    ctx.ob('C19.shapes', f'{sn.fq}', ok, 'numeric curves are shape 5 (curvature), names go through the table, unknown names are refused', sn.node, mod)
    # evaluator exhaustiveness
    ea = ci.methods['_env_at']
    handled = set()
    for s in walk_local(ea.node):
        if isinstance(s, ast.If):
            cp = U.compare_parts(s.test)
            if cp and norm(cp[0]) == 'shape' and cp[1] is ast.Eq:
                r = cp[2]
                if isinstance(r, ast.Subscript) and U.is_str(r.slice):
                    handled.add(tab.get(r.slice.value))
                elif U.is_num(r):
                    handled.add(U.num_value(r))
    need = set(tab.values()) | {CURVATURE}
    ctx.ob('C19.shapes', f'{ea.fq}:branches', need <= handled, f'evaluator handles shapes {sorted(x for x in handled if x is not None)}; encoder can produce {sorted(need)}', ea.node, mod)


def appended(fnode, listname=None):
    """[(where, expanded-arg-text)] for every append to the output list, with local names replaced by what they were
    last assigned (so the comparison does not depend on local variable names); loop variable normalised to `i`."""
    if listname is None:
        cands = [s.targets[0].id for s in walk_local_ordered(fnode) if isinstance(s, ast.Assign) and isinstance(s.value, ast.List)
                 and not s.value.elts and isinstance(s.targets[0], ast.Name)]
        listname = cands[0] if cands else 'contents'
    defs = {}
    out = []

    def subst(node):
        src = norm(node)
        for nm in sorted(set(U.names_in(node)), key=len, reverse=True):
            if nm in defs:
                src = re.sub(rf'(?<![.\w]){nm}\b', defs[nm], src)
        return src

    def visit(stmts, where):
        for s in stmts:
            if isinstance(s, ast.Assign) and len(s.targets) == 1 and isinstance(s.targets[0], ast.Name):
                defs[s.targets[0].id] = '(' + subst(s.value) + ')' if not isinstance(s.value, (ast.Name, ast.Constant, ast.Call, ast.Attribute)) else subst(s.value)
            elif isinstance(s, ast.If) and len(s.body) == 1 and isinstance(s.body[0], ast.Assign) and isinstance(s.body[0].targets[0], ast.Name) \
                    and norm(s.test) == f'{s.body[0].targets[0].id} is None' and not s.orelse:
                nm = s.body[0].targets[0].id
                defs[nm] = f'({defs.get(nm, nm)} ?? {norm(s.body[0].value)})'
            elif isinstance(s, ast.For):
                if isinstance(s.target, ast.Name):
                    defs[s.target.id] = 'i'
                visit(s.body, 'loop')
            elif isinstance(s, ast.Expr) and isinstance(s.value, ast.Call) and U.method_name(s.value) == 'append' and norm(s.value.func.value) == listname:
                out.append((where, subst(s.value.args[0])))
    visit(fnode.body, 'head')
    return out


LV = 'gpp.ugen_param(self.levels)._as_ugen_input()'
TM = 'gpp.ugen_param(self.times)._as_ugen_input()'
CV = 'gpp.ugen_param(utl.as_list(self.curves))._as_ugen_input()'


def rule_fmt(ctx):
    ctx.rule('C19.fmt', '_envgen_format: level0, size, release|-99, loop|-99 then per segment level, time, shape, curve with '
                        'curves[i % len(curves)]; _interpolation_format: offset|0, level0, size, total time then per segment '
                        'time, shape, curve, level; __init__ wraps times to len(levels) - 1')
    ci = env(ctx)
    mod = ci.module
    f = ci.methods['_envgen_format']
    ap = appended(f.node)
    head = [a for k, a in ap if k == 'head']
    loop = [a for k, a in ap if k == 'loop']
    want_head = [f'{LV}[0]', 'len(self.times)', '(gpp.ugen_param(self.release_node)._as_ugen_input() ?? -99)',
                 '(gpp.ugen_param(self.loop_node)._as_ugen_input() ?? -99)']
    ctx.ob('C19.fmt', f'{f.fq}:header', head == want_head, f'header appends {head}; must be level0, segment count, release node or -99, loop node or -99', f.node, mod)
    want_seg = [f'{LV}[i + 1]', f'{TM}[i]', f'type(self)._shape_number({CV}[i % len({CV})])', f'type(self)._curve_value({CV}[i % len({CV})])']
    ctx.ob('C19.fmt', f'{f.fq}:segment', loop == want_seg, f'segment appends {loop}; must be target level, duration, shape number, curvature with curves wrapped', f.node, mod)
    ctx.ob('C19.fmt', f'{f.fq}:nodes', head[2:] == want_head[2:], 'release node then loop node, each -99 when absent', f.node, mod)
    loops_ = [x for x in walk_local(f.node) if isinstance(x, ast.For)]
    okr = len(loops_) == 1 and isinstance(loops_[0].iter, ast.Call) and norm(loops_[0].iter.func) == 'range' and len(loops_[0].iter.args) == 1
    szn = norm(loops_[0].iter.args[0]) if okr else None
    okr = okr and any(isinstance(x, ast.Assign) and norm(x.targets[0]) == szn and norm(x.value) == 'len(self.times)' for x in walk_local(f.node))
    ctx.ob('C19.fmt', f'{f.fq}:size', okr, 'one record per duration: the loop runs over range(len(self.times))', f.node, mod)
    g = ci.methods['_interpolation_format']
    ap = appended(g.node)
    head = [a for k, a in ap if k == 'head']
    loop = [a for k, a in ap if k == 'loop']
    ctx.ob('C19.fmt', f'{g.fq}:header', head == ['(gpp.ugen_param(self.offset)._as_ugen_input() ?? 0)', f'{LV}[0]', 'len(self.times)', f'utl.list_sum({TM})'],
           f'header appends {head}; must be offset or 0, level0, segment count, total duration', g.node, mod)
    ctx.ob('C19.fmt', f'{g.fq}:segment', loop == [f'{TM}[i]', f'type(self)._shape_number({CV}[i % len({CV})])',
                                                    f'type(self)._curve_value({CV}[i % len({CV})])', f'{LV}[i + 1]'], f'segment appends {loop}', g.node, mod)
    i = ci.methods['__init__']
    src = full(i.node)
    ctx.ob('C19.fmt', f'{i.fq}:times-wrap', 'self.times = utl.wrap_extend(utl.as_list(times or [1, 1]), len(self.levels) - 1)' in src,
           'times are wrapped to the number of segments', i.node, mod)
    cv = ci.methods['_curve_value']
    src = full(cv.node)
    ctx.ob('C19.fmt', f'{cv.fq}', 'elif gpp.ugen_param(curve)._is_valid_ugen_input(): return curve else: return 0' in src, 'named shapes carry curvature 0', cv.node, mod)
    # EnvGen passes the format as the trailing spec
    eg = ctx.repo.cls('sc3.synth.ugens.envgen:EnvGen')
    for mn in ('ar', 'kr'):
        m = eg.methods[mn]
        src = full(m.node)
        ok = 'if isinstance(env, evp.Env): env = utl.unbubble(env._envgen_format())' in src and \
            'gate, level_scale, level_bias, time_scale, done_action, env)' in src
        ctx.ob('C19.fmt', f'{m.fq}', ok, 'EnvGen inputs: gate, levelScale, levelBias, timeScale, doneAction, then the envelope array', m.node, eg.module)


def rule_fresh(ctx):
    ctx.rule('C19.fmt', 'the two server formats are functions of the current fields: no memoized result is returned (nothing resets a '
                        'cache when levels, times, curves, nodes or offset change, or when range()/copy.copy duplicate the envelope)')
    ci = env(ctx)
    for mname in ('_envgen_format', '_interpolation_format'):
        f = ci.methods[mname]
        stored = {t.attr for x in walk_local(f.node) if isinstance(x, ast.Assign) for t in x.targets if U.is_self_attr(t)}
        memo = [norm(r) for r in walk_local(f.node) if isinstance(r, ast.Return) and r.value is not None and U.is_self_attr(r.value)
                and r.value.attr in stored]
        ctx.ob('C19.fmt', f'{f.fq}:not-memoized', not memo,
               f'{mname} returns a stored result ({memo}) that no setter ever invalidates: after range(), duration = x or any assignment '
               f'the first encoding keeps being sent, and _at() evaluates it', f.node, ci.module)


def rule_no_format_cache(ctx):
    ctx.rule('C19.at', 'no method of Env keeps a computed format (or anything derived from the levels/times/curves) in an attribute of '
                       'the envelope: copies made by range()/copy.copy and plain assignments to the fields would leave it stale')
    ci = env(ctx)
    n = 0
    for mname, f in sorted(ci.methods.items()):
        if mname == '__init__':
            continue
        for x in walk_local(f.node):
            if isinstance(x, ast.Assign) and any(U.is_self_attr(t) for t in x.targets):
                src = norm(x.value)
                derived = '_envgen_format(' in src or '_interpolation_format(' in src
                n += 1
                if derived:
                    ctx.ob('C19.at', f'{f.fq}:{norm(x)[:60]}:no-stored-format', False,
                           f'Env.{mname} stores a computed format in {norm(x.targets[0])}: nothing invalidates it when the envelope is copied '
                           f'(range, exprange) or a field is assigned, so later evaluations use the old breakpoints', x, ci.module)
    a = ci.methods['_at']
    calls = [c for c in U.calls(a.node) if U.is_self_attr(c.func, '_envgen_format')]
    stores = [x for x in walk_local(a.node) if isinstance(x, ast.Assign) and any(U.is_self_attr(t) for t in x.targets)]
    ctx.ob('C19.at', f'{a.fq}:evaluates-current-format', len(calls) == 1 and not stores,
           '_at computes the format of the current fields on every call and keeps nothing on the object', a.node, ci.module)


def rule_derived(ctx):
    ctx.rule('C19.ctor', 'derived envelopes: duration = x scales every time by x / total duration; range/exprange/curverange map the levels of '
                         'a copy from [min, max] of the levels to [lo, hi] with the mapping of their name and leave the receiver untouched')
    ci = env(ctx)
    mod = ci.module
    d = ci.setters['duration']
    src = full(d.node)
    v = d.params[1]
    ok = U.before(src, 'res = utl.list_binop(operator.mul, self.times, 1 / self.total_duration())', f'self.times = utl.list_binop(operator.mul, res, {v})')
    ctx.ob('C19.ctor', f'{d.fq}', ok, 'the duration setter rescales the times proportionally (times / total * value)', d.node, mod)
    for name, kernel in (('range', 'bi.linlin'), ('exprange', 'bi.linexp'), ('curverange', 'bi.lincurve')):
        f = ci.methods[name]
        src = full(f.node)
        extra = ', curve' if name == 'curverange' else ''
        ok = U.before(src, 'obj = copy.copy(self)', 'min = utl.list_min(obj.levels)', 'max = utl.list_max(obj.levels)',
                      f'obj.levels = utl.list_narop({kernel}, obj.levels, min, max, lo, hi{extra})', 'return obj') and \
            not any(isinstance(x, ast.Assign) and any(U.is_self_attr(t) for t in x.targets) for x in walk_local(f.node))
        ctx.ob('C19.ctor', f'{f.fq}', ok, f'{name} maps the levels of a copy with {kernel} from their own [min, max] to [lo, hi]', f.node, mod)
    rt = ci.methods['release_time']
    ok = 'if self.release_node is None: return 0.0 else: return utl.list_sum(self.times[self.release_node:])' in full(rt.node)
    ctx.ob('C19.ctor', f'{rt.fq}', ok, 'release time is the sum of the times from the release node on', rt.node, mod)


def rule_at(ctx):
    ctx.rule('C19.at', '_env_at reads stride-4 records: level at i, duration at i+1, shape at i+2, curvature at i+3, starting at 4; '
                       'holds the last level afterwards')
    ci = env(ctx)
    f = ci.methods['_env_at']
    src = full(f.node)
    mod = ci.module
    checks = {'start': 'start_level = float(data[0])', 'count': 'num_stages = data[1]', 'stride': 'for i in range(4, num_stages * 4 + 1, 4)',
              'level': 'target_level = float(data[i])', 'dur': 'target_dur = data[i + 1]', 'shape': 'shape = data[i + 2]', 'curve': 'curve = data[i + 3]',
              'advance': 'else: start_level = target_level begin_time = end_time', 'hold-last': 'return start_level'}
    for k, v in checks.items():
        ctx.ob('C19.at', f'{f.fq}:{k}', v in src, f'evaluator must contain `{v}`', f.node, mod)
    # every stage that does not contain the time is passed over by advancing the state (its target becomes the next start level, its
    # end the next begin time) - unconditionally: a stage that is skipped (continue) or left early makes the following stage
    # interpolate from the wrong level (a zero-duration stage is an instant jump, not nothing)
    loops = [l for l in walk_local(f.node) if isinstance(l, ast.For) and 'num_stages' in norm(l.iter)]
    adv_ok, why = False, 'stage loop not found'
    if len(loops) == 1:
        lp = loops[0]
        skips = [norm(x) for x in ast.walk(lp) if isinstance(x, (ast.Continue, ast.Break))]
        tests = [x for x in lp.body if isinstance(x, ast.If) and any(norm(a) == 'end_time' for a in ast.walk(x.test) if isinstance(a, ast.Name))]
        if skips:
            why = f'the stage loop contains {skips}'
        elif len(tests) != 1:
            why = 'the containment test `time < end_time` is not a direct statement of the loop'
        else:
            adv = {norm(x) for x in tests[0].orelse}
            early = [norm(x) for x in lp.body[:lp.body.index(tests[0])] if isinstance(x, (ast.If, ast.Return))]
            adv_ok = {'start_level = target_level', 'begin_time = end_time'} <= adv and not early
            why = f'else-branch {sorted(adv)}; conditional statements before the test: {early}'
    ctx.ob('C19.at', f'{f.fq}:advance-unconditional', adv_ok, f'a stage that does not contain the time must always advance start level and begin time; {why}', f.node, mod)
    ctx.ob('C19.at', f'{f.fq}:linear', 'return pos * (target_level - start_level) + start_level' in src, 'linear segment interpolates between the neighbouring levels', f.node, mod)
    ctx.ob('C19.at', f'{f.fq}:step-hold', "if shape == shape_names['step']: return target_level elif shape == shape_names['hold']: return start_level" in src,
           'step jumps to the target, hold keeps the start level', f.node, mod)
    a = ci.methods['_at']
    ctx.ob('C19.at', f'{a.fq}', 'data = self._envgen_format()' in full(a.node) and 'time = max(0, time - self.offset)' in full(a.node),
           'evaluation reads the encoder output (same layout) and applies the offset', a.node, mod)


def rule_ctor(ctx):
    ctx.rule('C19.ctor', 'triangle, sine, perc, linen, cutoff, asr, adsr, dadsr, step, pairs, xyc return their reference breakpoints; '
                         'optional node arguments tolerate their None defaults')
    ci = env(ctx)
    mod = ci.module
    for name, (lv, tm, cv, rn) in CTORS.items():
        f = ci.methods.get(name)
        ctx.require(f is not None, 'C19.ctor', f'Env.{name} vanished')
        rets = [s for s in walk_local(f.node) if isinstance(s, ast.Return)]
        if not (len(rets) == 1 and isinstance(rets[0].value, ast.Call)):
            # the constructor was restructured (e.g. built from a sibling and patched up): the table cannot be matched, but one
            # necessary condition still can: with a `bias` parameter every level written into `.levels` carries the bias
            bad = []
            if 'bias' in f.params:
                for st in walk_local(f.node):
                    if isinstance(st, ast.Assign) and any(isinstance(t, ast.Attribute) and t.attr == 'levels' for t in st.targets) \
                            and isinstance(st.value, (ast.List, ast.Tuple)):
                        for el in st.value.elts:
                            if not isinstance(el, ast.Starred) and 'bias' not in U.names_in(el):
                                bad.append(norm(el))
            if bad:
                ctx.ob('C19.ctor', f'{f.fq}:breakpoints', False,
                       f'Env.{name} writes the level(s) {bad} without the bias: the reference breakpoints are {lv}', f.node, mod)
                continue
            ctx.require(False, 'C19.ctor', f'Env.{name}: single constructor return expected')
        c = rets[0].value
        args = [norm(a) for a in c.args]
        key = f'{f.fq}:breakpoints'
        ok = True
        why = []
        if lv is not None and (len(args) < 1 or args[0] != lv):
            ok = False
            why.append(f'levels {args[0] if args else None} != {lv}')
        if len(args) < 2 or args[1] != tm:
            ok = False
            why.append(f'times {args[1] if len(args) > 1 else None} != {tm}')
        if cv is not None and (len(args) < 3 or args[2] != cv):
            ok = False
            why.append(f'curve {args[2] if len(args) > 2 else None} != {cv}')
        if cv is None and len(args) > 2:
            ok = False
            why.append('unexpected curve')
        if rn is not None and (len(args) < 4 or args[3] != rn):
            ok = False
            why.append(f'release node {args[3] if len(args) > 3 else None} != {rn}')
        if rn is None and len(args) > 3:
            ok = False
            why.append('unexpected release node')
        ctx.ob('C19.ctor', key, ok, f'Env.{name} returns Env({", ".join(args)})' + ('; ' + '; '.join(why) if why else ''), c, mod)
    # parameters are documented as list | float | int: arithmetic on them goes through utl.list_binop, never a bare operator
    # (list * float raises TypeError, list + list concatenates)
    for name in CTORS:
        f = ci.methods[name]
        params = set(f.params[1:])
        bare = [norm(b) for b in ast.walk(f.node) if isinstance(b, ast.BinOp) and isinstance(b.op, (ast.Mult, ast.Add, ast.Sub, ast.Div))
                and (set(U.names_in(b.left)) | set(U.names_in(b.right))) & params
                and not any(isinstance(p_, ast.Subscript) for p_ in U.parent_chain(b))]
        ctx.ob('C19.ctor', f'{f.fq}:list-parameters', not bare,
               f'Env.{name} applies a bare arithmetic operator to its parameters ({bare}); they may be lists (multichannel envelopes)', f.node, mod)
    pr = ci.methods['pairs']
    src = full(pr.node)
    pp = pr.params[1]
    ok = U.before(src, f'{pp} = [list(i) for i in {pp}]', f'{pp}[i].append(')
    ctx.ob('C19.ctor', f'{pr.fq}:copies-points', ok,
           'pairs appends the curve to each point: the points must be copied first (the caller\'s lists are otherwise extended and a '
           'second call with the same list is refused)', pr.node, mod)
    for name in ('triangle', 'sine'):
        f = ci.methods[name]
        ctx.ob('C19.ctor', f'{f.fq}:half-duration', 'dur = utl.list_binop(operator.mul, dur, 0.5)' in full(f.node), 'each half lasts dur / 2', f.node, mod)
    for name, pre in (('adsr', '[0, peak_level, utl.list_binop(operator.mul, peak_level, sustain_level), 0]'), ('dadsr', '[0, 0, peak_level, utl.list_binop(operator.mul, peak_level, sustain_level), 0]')):
        f = ci.methods[name]
        c = [s for s in walk_local(f.node) if isinstance(s, ast.Return)][0].value
        if not (isinstance(c, ast.Call) and c.args):
            continue        # restructured constructor: judged by the breakpoints clause above
        a0 = c.args[0]
        got = flat_commutative(a0)
        want1 = f'utl.list_binop(operator.add,{flat_commutative(ast.parse(pre, mode="eval").body)},bias)'
        ctx.ob('C19.ctor', f'{f.fq}:levels', got == want1, f'levels must be {pre} + bias; found {norm(a0)}', c, mod)
    co = ci.methods['cutoff']
    src = full(co.node)
    ctx.ob('C19.ctor', f'{co.fq}:release-level', 'curve_no = cls._shape_number(curve)' in src and 'release_level = bi.dbamp(-100) if curve_no == 2 else 0' in src,
           'exponential cutoff ends at -100 dB instead of 0', co.node, mod)
    st = ci.methods['step']
    src = full(st.node)
    ok = 'levels = levels[:]' in src and 'levels.insert(0, levels[0])' in src and "'step'" in src and 'if len(levels) != len(times): raise ValueError' in src
    ctx.ob('C19.ctor', f'{st.fq}:breakpoints', ok, 'step duplicates the first level and uses step segments', st.node, mod)
    # None-default discipline: a parameter whose default is None must not be used in arithmetic without a None test
    for name, f in ci.methods.items():
        if not f.is_classmethod:
            continue
        a = f.node.args
        defaults = dict(zip([x.arg for x in a.args][-len(a.defaults):], a.defaults)) if a.defaults else {}
        for p, d in defaults.items():
            if isinstance(d, ast.Constant) and d.value is None:
                uses = [n for n in walk_local(f.node) if isinstance(n, ast.BinOp) and isinstance(n.op, (ast.Add, ast.Sub, ast.Mult, ast.Div))
                        and p in [x.id for x in (n.left, n.right) if isinstance(x, ast.Name)]]
                for u in uses:
                    guarded = False
                    for par in U.parent_chain(u):
                        if isinstance(par, ast.If) and (f'{p} is not None' in norm(par.test) or f'{p} is None' in norm(par.test)):
                            guarded = True
                        if isinstance(par, ast.IfExp) and f'{p} is' in norm(par.test):
                            guarded = True
                    rebound = any(isinstance(s, ast.Assign) and norm(s.targets[0]) == p and s.lineno < u.lineno for s in walk_local(f.node)
                                  if not any(isinstance(q, ast.If) and f'{p} is not None' in norm(q.test) for q in U.parent_chain(s)))
                    ctx.ob('C19.ctor', f'{f.fq}:{p}:{norm(u)}:none-default', guarded or rebound,
                           f'Env.{name}: parameter {p!r} defaults to None but `{norm(u)}` computes with it unconditionally (TypeError with the documented defaults)', u, mod)
    x = ci.methods['xyc']
    src = full(x.node)
    ok = U.before(src, 'times, levels, curves = utl.flop(xyc)', 'offset = times[0]', 'times = [b - a for a, b in utl.pairwise(times)]', 'curves.pop(-1)',
                  'return cls(levels, times, curves, offset=offset)')
    ctx.ob('C19.ctor', f'{x.fq}:breakpoints', ok, 'xyc: times are successive differences, offset the first time, last curve dropped', x.node, mod)
    ctx.ob('C19.ctor', f'{x.fq}:sorted', 'sorted(' in src or '.sort(' in src, 'xyc points must be ordered by time before differencing', x.node, mod)
    p = ci.methods['pairs']
    ctx.ob('C19.ctor', f'{p.fq}:delegates', full(p.node).endswith('return cls.xyc(pairs)'), 'pairs delegates to xyc', p.node, mod)


def run(ctx):
    rule_fresh(ctx)
    rule_derived(ctx)
    rule_no_format_cache(ctx)
    rule_shapes(ctx)
    rule_fmt(ctx)
    rule_at(ctx)
    rule_ctor(ctx)


MUTANTS = [
    dict(rule='C19.at', name='zero-duration stages skipped by the evaluator (seed C19-f)', file='sc3/synth/envelope.py',
         old="            end_time += target_dur\n\n            if time < end_time:", new="            end_time += target_dur\n            if target_dur <= 0:\n                continue\n\n            if time < end_time:"),
    dict(rule='C19.ctor', name='range maps from [0, max] instead of [min, max]', file='sc3/synth/envelope.py',
         old="        obj.levels = utl.list_narop(bi.linlin, obj.levels, min, max, lo, hi)", new="        obj.levels = utl.list_narop(bi.linlin, obj.levels, 0, max, lo, hi)"),
    dict(rule='C19.ctor', name='duration setter divides by the plain sum of one channel', file='sc3/synth/envelope.py',
         old="            operator.mul, self.times, 1 / self.total_duration())", new="            operator.mul, self.times, 1 / len(self.times))"),
    dict(rule='C19.at', name='_at caches the format on the object (seed C19-d)', file='sc3/synth/envelope.py',
         old="        data = self._envgen_format()", new="        if getattr(self, '_data', None) is None:\n            self._data = self._envgen_format()\n        data = self._data"),
    dict(rule='C19.fmt', name='(fix reverted) _envgen_format memoizes its first result', file='sc3/synth/envelope.py',
         edits=[('sc3/synth/envelope.py', "    def _envgen_format(self):  # Was asMultichannelArray.\n", "    def _envgen_format(self):  # Was asMultichannelArray.\n        if getattr(self, '_fmt', None):\n            return self._fmt\n"),
                ('sc3/synth/envelope.py', "        return [tuple(i) for i in utl.flop(contents)]\n\n    def _interpolation_format", "        self._fmt = [tuple(i) for i in utl.flop(contents)]\n        return self._fmt\n\n    def _interpolation_format")]),
    dict(rule='C19.ctor', name='(fix reverted) adsr multiplies list parameters with *', file='sc3/synth/envelope.py',
         old="                [0, peak_level, utl.list_binop(\n                    operator.mul, peak_level, sustain_level), 0], bias),", new="                [0, peak_level, peak_level * sustain_level, 0], bias),"),
    dict(rule='C19.ctor', name='(fix reverted) pairs extends the caller\'s points', file='sc3/synth/envelope.py',
         old="        pairs = [list(i) for i in pairs]  # Ensures internal state.", new="        pairs = pairs[:]  # Ensures internal state."),
    dict(rule='C19.ctor', name='dadsr built from adsr with an unbiased first level (seed C19-c)', file='sc3/synth/envelope.py',
         old="        return cls(\n            utl.list_binop(\n                operator.add,\n                [0, 0, peak_level, utl.list_binop(\n                    operator.mul, peak_level, sustain_level), 0], bias),\n            [delay_time, attack_time, decay_time, release_time], curve, 3)",
         new="        env = cls.adsr(\n            attack_time, decay_time, sustain_level,\n            release_time, peak_level, curve, bias)\n        env.levels = [0, *env.levels]\n        env.times = [delay_time, *env.times]\n        env.release_node += 1\n        return env"),
    dict(rule='C19.shapes', name="'wel' mapped to 3", file='sc3/synth/envelope.py', old="        'wel': 4,", new="        'wel': 3,"),
    dict(rule='C19.shapes', name="(fix reverted) 'sqr' missing", file='sc3/synth/envelope.py', old="        'sqr': 6,\n", new=""),
    dict(rule='C19.shapes', name='hold branch deleted from evaluator', file='sc3/synth/envelope.py',
         old="                elif shape == shape_names['hold']:\n                    return start_level\n", new=""),
    dict(rule='C19.fmt', name='time and level appends swapped', file='sc3/synth/envelope.py',
         old="            contents.append(levels[i + 1])\n            contents.append(times[i])\n            contents.append(type(self)._shape_number(curves[i % len(curves)]))\n            contents.append(type(self)._curve_value(curves[i % len(curves)]))\n\n        return [tuple(i) for i in utl.flop(contents)]\n\n    def _interpolation_format",
         new="            contents.append(times[i])\n            contents.append(levels[i + 1])\n            contents.append(type(self)._shape_number(curves[i % len(curves)]))\n            contents.append(type(self)._curve_value(curves[i % len(curves)]))\n\n        return [tuple(i) for i in utl.flop(contents)]\n\n    def _interpolation_format"),
    dict(rule='C19.fmt', name='absent node encoded as -1', file='sc3/synth/envelope.py',
         old="        aux_input = gpp.ugen_param(self.loop_node)._as_ugen_input()\n        if aux_input is None:\n            aux_input = -99", new="        aux_input = gpp.ugen_param(self.loop_node)._as_ugen_input()\n        if aux_input is None:\n            aux_input = -1"),
    dict(rule='C19.fmt', name='curves not wrapped', file='sc3/synth/envelope.py',
         old="            contents.append(type(self)._shape_number(curves[i % len(curves)]))\n            contents.append(type(self)._curve_value(curves[i % len(curves)]))\n\n        return [tuple(i) for i in utl.flop(contents)]\n\n    def _interpolation_format",
         new="            contents.append(type(self)._shape_number(curves[i]))\n            contents.append(type(self)._curve_value(curves[i % len(curves)]))\n\n        return [tuple(i) for i in utl.flop(contents)]\n\n    def _interpolation_format"),
    dict(rule='C19.at', name='shape read at i + 1', file='sc3/synth/envelope.py', old="                shape = data[i + 2]", new="                shape = data[i + 1]"),
    dict(rule='C19.at', name='records start at 3', file='sc3/synth/envelope.py', old="        for i in range(4, num_stages * 4 + 1, 4):", new="        for i in range(3, num_stages * 4 + 1, 4):"),
    dict(rule='C19.ctor', name='adsr release node 1', file='sc3/synth/envelope.py',
         old="            [attack_time, decay_time, release_time], curve, 2)", new="            [attack_time, decay_time, release_time], curve, 1)"),
    dict(rule='C19.ctor', name='linen loses the sustain level', file='sc3/synth/envelope.py',
         old="            [0, level, level, 0],", new="            [0, level, 0, 0],"),
    dict(rule='C19.ctor', name='(fix reverted) step computes with None', file='sc3/synth/envelope.py',
         old="        if release_level is not None:\n            release_level = release_level - 1\n        return Env(\n            levels, times, 'step', release_level, loop_level, offset)",
         new="        return Env(\n            levels, times, 'step', release_level - 1, loop_level, offset)"),
    dict(rule='C19.ctor', name='triangle not halved', file='sc3/synth/envelope.py',
         old="        dur = utl.list_binop(operator.mul, dur, 0.5)\n        return cls([0, level, 0], [dur, dur])", new="        return cls([0, level, 0], [dur, dur])"),
]

REPAIRS = []

EQUIV = [
    dict(name='rename locals of _envgen_format', file='sc3/synth/envelope.py', start='    def _envgen_format(self):', end='    def _interpolation_format(self):', rename=[('aux_input', 'node'), ('size', 'nseg')]),
]
