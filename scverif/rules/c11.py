"""C11 - routines, conditions and flow variables obey their state machine."""

import ast

from ..loader import norm, full, walk_local, walk_local_ordered
from .. import util as U
from ..flow import enumerate_paths
from ..locks import lock_classes, lexical_locks

EXPLANATION = (
    'The life-cycle methods of Routine (play, next, reset, pause, resume, stop) and the overrides of '
    'EventStreamPlayer are executed abstractly over the enum domain of `state`: for each entry state every path is '
    'enumerated (the body call forks into StopStream, StopIteration, YieldAndReset, AlwaysYield and "any other '
    'exception"), state tests are decided, state writes tracked, and the set of (exit state, return | raised '
    'exception) collected. The extracted transition relation is compared with the documented one; equality of '
    'relations covers every history. Separately: state is written only in these methods under the main lock; from '
    '`main.current_tt = self` every path (normal, every handler, re-raise) reaches `main.current_tt = parent`; '
    'Condition.signal/unhang swap the waiting list under the lock before scheduling each routine once; wait parks '
    'by yielding a non-number on the false branch; FlowVar refuses rebinding before storing.')
LEVEL_TEXT = ('static typestate: extracted transition relation == documented relation for all entry states; ownership of '
              '`state`; must-pass-through restore of the current thread on every exit path; structural protocol of '
              'Condition and FlowVar. Exactly-once resumption across clocks is not decided.')
LEVEL_NOTE = 'reference relation is written from the property statement and the docstrings (DESIGN appendix A.6)'
LEVEL_TEXT_ADD = ' Also: failures that are not Exception subclasses, re-entrant next(), terminal value cleared by reset.'
LEVEL_TEXT_ADD += ' Rounds e-f: the parked routine is the root of the parent chain (thread_player).'
LEVEL_TEXT = (globals().get('LEVEL_TEXT') or EXPLANATION) + LEVEL_TEXT_ADD
TECHNIQUE = 'static analysis: enum-domain abstract interpretation over enumerated paths (typestate) + must-pass-through'

STATES = ['Init', 'Running', 'Suspended', 'Paused', 'Done']
# '*' = any other Exception; KeyboardInterrupt stands for the failures that are not Exception subclasses
BODY_TAGS = ['StopStream', 'StopIteration', 'YieldAndReset', 'AlwaysYield', '*', 'KeyboardInterrupt']

# documented relation: method -> entry state -> set of (exit state, outcome)
REF = {
    'play': {'Init': {('Suspended', 'return')}, 'Paused': {('Suspended', 'return')}, 'Running': {('Running', 'return')},
             'Suspended': {('Suspended', 'return')}, 'Done': {('Done', 'return')}},
    'pause': {'Running': {('Running', 'raise RoutineException')}, 'Init': {('Paused', 'return')}, 'Suspended': {('Paused', 'return')},
              'Paused': {('Paused', 'return')}, 'Done': {('Done', 'return')}},
    'resume': {'Paused': {('Suspended', 'return')}, 'Init': {('Init', 'return')}, 'Running': {('Running', 'return')},
               'Suspended': {('Suspended', 'return')}, 'Done': {('Done', 'return')}},
    'stop': {'Running': {('Running', 'raise RoutineException')}, 'Init': {('Done', 'return')}, 'Suspended': {('Done', 'return')},
             'Paused': {('Done', 'return')}, 'Done': {('Done', 'return')}},
    'reset': {'Running': {('Running', 'raise RoutineException')}, 'Init': {('Init', 'return')}, 'Suspended': {('Init', 'return')},
              'Paused': {('Init', 'return')}, 'Done': {('Init', 'return')}},
    'next': {'Paused': {('Paused', 'raise PausedStream')},
             'Running': {('Running', 'raise RoutineException')},
             'Done': {('Done', 'raise StopStream'), ('Done', 'return')},
             'Init': {('Suspended', 'return'), ('Done', 'raise StopStream'), ('Init', 'return'), ('Done', 'return'), ('Done', 'raise *'),
                      ('Done', 'raise KeyboardInterrupt')},
             'Suspended': {('Suspended', 'return'), ('Done', 'raise StopStream'), ('Init', 'return'), ('Done', 'return'), ('Done', 'raise *'),
                           ('Done', 'raise KeyboardInterrupt')}},
}


def state_of(node):
    """`self.State.X` / `self.state.X` -> 'X'"""
    if isinstance(node, ast.Attribute) and node.attr in STATES and isinstance(node.value, ast.Attribute) \
            and node.value.attr in ('State', 'state'):
        return node.attr
    return None


def eval_test(test, cur):
    """True/False/None(unknown)"""
    if isinstance(test, ast.BoolOp):
        vals = [eval_test(v, cur) for v in test.values]
        if isinstance(test.op, ast.Or):
            if any(v is True for v in vals):
                return True
            if all(v is False for v in vals):
                return False
            return None
        if any(v is False for v in vals):
            return False
        if all(v is True for v in vals):
            return True
        return None
    if isinstance(test, ast.UnaryOp) and isinstance(test.op, ast.Not):
        v = eval_test(test.operand, cur)
        return None if v is None else (not v)
    cp = U.compare_parts(test)
    if cp and norm(cp[0]) == 'self.state' and state_of(cp[2]):
        eq = cur == state_of(cp[2])
        if cp[1] in (ast.Eq, ast.Is):
            return eq
        if cp[1] in (ast.NotEq, ast.IsNot):
            return not eq
    return None


def body_may_raise(s):
    for c in U.calls(s):
        n = norm(c.func)
        if n in ('next', 'self.func') or n.endswith('.send'):
            return BODY_TAGS
    return False


def relation(ctx, f, inline=None):
    """entry state -> set((exit state, outcome)) ; inline: name -> relation of super() method"""
    rel = {}
    paths = enumerate_paths(f.node, may_raise=body_may_raise, unroll=1, repo=ctx.repo)
    for entry in STATES:
        res = set()
        for ev, out in paths:
            curs = {entry}
            feasible = True
            pend_exc = None
            for k, node, x in ev:
                if k == 'test':
                    nxt = set()
                    for c in curs:
                        v = eval_test(node, c)
                        if v is None or v == x:
                            nxt.add(c)
                    curs = nxt
                    if not curs:
                        feasible = False
                        break
                elif k == 'except':
                    # '*' means "any other exception": only a bare/Exception handler may take it
                    tag = x
                    if tag == '*' and node.type is not None and norm(node.type) not in ('Exception', 'BaseException'):
                        feasible = False
                        break
                elif k in ('stmt',):
                    if isinstance(node, ast.Assign) and any(norm(t) == 'self.state' for t in node.targets):
                        st = state_of(node.value)
                        if st is None:
                            ctx.ob('C11.fsm', ctx.key(f.module, node), False, 'state assigned a non-literal value', node, f.module)
                        else:
                            curs = {st}
                    for c in U.calls(node):
                        if inline and norm(c.func).startswith('super().') and c.func.attr in inline:
                            nxt = set()
                            for cc in curs:
                                for (ex, oc) in inline[c.func.attr].get(cc, set()):
                                    if oc == 'return':
                                        nxt.add(ex)
                                    else:
                                        res.add((ex, oc))
                            curs = nxt
            if not feasible or not curs:
                continue
            if out[0] == 'return' or out[0] == 'fall':
                oc = 'return'
            elif out[0] == 'raise':
                oc = f'raise {out[1]}'
            else:
                continue
            for c in curs:
                res.add((c, oc))
        rel[entry] = res
    return rel


def rule_fsm(ctx):
    ctx.rule('C11.fsm', 'for every entry state the set of (exit state, outcome) of play/next/reset/pause/resume/stop equals '
                        'the documented transition relation (also for EventStreamPlayer overrides)')
    r = ctx.repo.cls('sc3.base.stream:Routine')
    rels = {}
    for name in ('play', 'pause', 'resume', 'stop', 'reset', 'next'):
        f = r.methods.get(name)
        ctx.require(f is not None, 'C11.fsm', f'Routine.{name} vanished')
        rel = relation(ctx, f)
        rels[name] = rel
        for entry, want in REF[name].items():
            got = rel.get(entry, set())
            ok = got == want
            missing = sorted(want - got)
            extra = sorted(got - want)
            ctx.ob('C11.fsm', f'{f.fq}:{entry}', ok,
                   f'Routine.{name} from {entry}: allows {sorted(got)}; documented {sorted(want)}'
                   + (f'; missing {missing}' if missing else '') + (f'; undocumented {extra}' if extra else ''), f.node, f.module)
    ctx.extra['routine_transition_relation'] = {m: {e: sorted(map(list, v)) for e, v in rel.items()} for m, rel in rels.items()}
    # side conditions of the transitions
    f = r.methods['play']
    cs = [c for c in U.calls(f.node) if norm(c.func) == 'clock.play']
    ctx.ob('C11.fsm', f'{f.fq}:schedules-once', len(cs) == 1, 'play schedules the routine exactly once when it starts it', f.node, f.module)
    f = r.methods['resume']
    cs = [c for c in U.calls(f.node) if norm(c.func) == 'clock.play']
    ctx.ob('C11.fsm', f'{f.fq}:schedules-once', len(cs) == 1, 'resume re-schedules the routine exactly once', f.node, f.module)
    for name in ('stop', 'reset'):
        f = r.methods[name]
        ctx.ob('C11.fsm', f'{f.fq}:drops-iterator', 'self._iterator = None' in full(f.node), f'{name} drops the generator', f.node, f.module)
    # the recorded terminal value belongs to one run: every writer of _terminal_value other than reset records a value raised in
    # this run, and reset clears it (otherwise a later normal exhaustion is followed by the stale value instead of StopStream)
    f = r.methods['reset']
    ctx.ob('C11.fsm', f'{f.fq}:clears-terminal-value', 'self._terminal_value = self._SENTINEL' in full(f.node),
           'reset() must forget the terminal value of the previous run', f.node, f.module)
    nx = r.methods['next']
    src = full(nx.node)
    ctx.ob('C11.fsm', f'{nx.fq}:terminal-value',
           'if self._terminal_value is self._SENTINEL: raise StopStream else: return self._terminal_value' in src,
           'a done routine raises StopStream or returns the recorded terminal value', nx.node, nx.module)
    ctx.ob('C11.fsm', f'{nx.fq}:returns-yielded', src.rstrip().endswith('return self._last_value') and
           'self._last_value = self._iterator.send(inval)' in src and 'self._last_value = next(self._iterator)' in src,
           'next returns the yielded value', nx.node, nx.module)
    # EventStreamPlayer
    esp = ctx.repo.cls('sc3.seq.eventstream:EventStreamPlayer')
    for name in ('reset', 'resume', 'stop'):
        f = esp.methods.get(name)
        if f is None:
            continue
        rel = relation(ctx, f, inline=rels)
        for entry, want in REF[name].items():
            got = rel.get(entry, set())
            ctx.ob('C11.fsm', f'{f.fq}:{entry}', got == want,
                   f'EventStreamPlayer.{name} from {entry}: allows {sorted(got)}; documented {sorted(want)}', f.node, f.module)


def rule_own(ctx):
    ctx.rule('C11.own', 'Routine.state is written only in __init__ and the life-cycle methods, always under the main lock class')
    cls_of = lock_classes(ctx.repo)
    main = cls_of.get('_main_lock')
    allowed = {'play', 'next', 'reset', 'pause', 'resume', 'stop', '__init__'}
    n = 0
    tt = ctx.repo.cls('sc3.base.stream:TimeThread')
    for fi in ctx.repo.functions.values():
        for s in walk_local(fi.node):
            if isinstance(s, (ast.Assign, ast.AugAssign)):
                for t in U.assigned_targets(s):
                    if isinstance(t, ast.Attribute) and t.attr == 'state' and state_of(s.value) is not None:
                        n += 1
                        last = fi.qualname.split('.')[-1]
                        inrt = fi.cls is not None and ctx.repo.is_subclass(fi.cls, tt)
                        if last == '__init__':
                            ctx.ob('C11.own', f'{fi.fq}:{norm(s)}', inrt, 'initial state', s, fi.module, nontrivial=False)
                            continue
                        ok = inrt and last in allowed
                        ctx.ob('C11.own', f'{fi.fq}:{norm(s)}:writer', ok,
                               f'state written in {fi.qualname}, outside the life-cycle methods', s, fi.module)
                        held = lexical_locks(s, cls_of)
                        ctx.ob('C11.own', f'{fi.fq}:{norm(s)}:locked', main in held,
                               f'state written without the main lock (held: {sorted(held)})', s, fi.module)
    ctx.require(n >= 12, 'C11.own', f'only {n} state writes found')


def rule_restore(ctx):
    ctx.rule('C11.restore', 'from `main.current_tt = self` every path out of Routine.next passes through '
                            '`main.current_tt = self.parent`; only non-raising statements sit between the assignment and '
                            'the protecting try; current_tt has no other writers')
    f = ctx.repo.func('sc3.base.stream:Routine.next')

    def mr(s):
        if isinstance(s, ast.stmt) and norm(s).startswith('self._m_seconds = self.parent._seconds'):
            return False   # property read of the parent's time: attribute load (stated assumption)
        return body_may_raise(s) or (['*'] if any(True for _ in U.calls(s)) else False)
    n = bad = 0
    for ev, out in enumerate_paths(f.node, may_raise=mr, unroll=1, repo=ctx.repo):
        idx = next((i for i, e in enumerate(ev) if e[0] == 'stmt' and norm(e[1]) == '_libsc3.main.current_tt = self'), None)
        if idx is None:
            continue
        n += 1
        rest = [norm(e[1]) for e in ev[idx + 1:] if e[0] == 'stmt']
        if '_libsc3.main.current_tt = self.parent' not in rest:
            bad += 1
    ctx.ob('C11.restore', f'{f.fq}:restore-on-every-exit', n >= 8 and bad == 0,
           f'{bad} of {n} paths leave next() with the routine still installed as the current thread', f.node, f.module)
    # the restore is in a finally of the try that directly follows
    tries = [t for t in walk_local(f.node) if isinstance(t, ast.Try)]
    ok = len(tries) == 1 and '_libsc3.main.current_tt = self.parent' in [norm(s) for s in tries[0].finalbody]
    ctx.ob('C11.restore', f'{f.fq}:in-finally', ok, 'the caller\'s thread is restored in a finally', f.node, f.module)
    if tries:
        blk = tries[0]._parent.body
        i = [j for j, s in enumerate(blk) if s is tries[0]][0]
        j = next((k for k, s in enumerate(blk) if norm(s) == '_libsc3.main.current_tt = self'), None)
        between = blk[j + 1:i] if j is not None else None
        ok = between is not None and all(isinstance(s, ast.Assign) and not U.calls(s) for s in between)
        ctx.ob('C11.restore', f'{f.fq}:nothing-raises-before-try', ok,
               'between installing the routine and the protected region only attribute assignments may occur', f.node, f.module)
        ctx.ob('C11.restore', f'{f.fq}:parent-cleared', 'self.parent = None' in [norm(s) for s in tries[0].finalbody],
               'parent link is dropped on exit', f.node, f.module)
    # writers of current_tt
    writers = []
    for fi in ctx.repo.functions.values():
        for s in walk_local(fi.node):
            if isinstance(s, ast.Assign):
                for t in s.targets:
                    if isinstance(t, ast.Attribute) and t.attr == 'current_tt':
                        writers.append(fi.fq)
    want = sorted(['sc3.base.main:RtMain._init', 'sc3.base.main:NrtMain._init', 'sc3.base.stream:Routine.next', 'sc3.base.stream:Routine.next'])
    ctx.ob('C11.restore', 'current_tt:writers', sorted(writers) == want, f'current_tt writers: {sorted(writers)}', None, f.module)


def rule_cond(ctx):
    ctx.rule('C11.cond', 'signal/unhang swap the waiting list for a fresh one under the lock and schedule each parked routine '
                         'once; wait parks by yielding a non-number when the test is false and a number when true; signal '
                         'acts only when the test holds; FlowVar.value refuses rebinding before storing and signals')
    c = ctx.repo.cls('sc3.base.stream:Condition')
    mod = c.module
    for name in ('signal', 'unhang'):
        f = c.methods[name]
        src = full(f.node)
        ok = U.before(src, 'with self._state_lock:', 'tmp_wtt = self._waiting_threads', 'self._waiting_threads = []',
                      'for tt in tmp_wtt: tt._clock.sched(0, tt)')
        ctx.ob('C11.cond', f'{f.fq}:swap-then-schedule', ok,
               'the waiting list must be swapped for a fresh one under the lock before each parked routine is scheduled once', f.node, mod)
        loops = [s for s in walk_local(f.node) if isinstance(s, ast.For)]
        ctx.ob('C11.cond', f'{f.fq}:iterates-snapshot', len(loops) == 1 and norm(loops[0].iter) != 'self._waiting_threads',
               'must not iterate the live waiting list (a routine re-parking itself would be rescheduled forever)', f.node, mod)
    # who is parked: the routine the clock plays, i.e. the root of the parent chain (a routine nested three deep must park its
    # outermost caller, not its immediate parent, which the clock would then wake on its own)
    tt = ctx.repo.cls('sc3.base.stream:TimeThread')
    tp = tt.properties.get('thread_player') if hasattr(tt, 'properties') else None
    tp = tp or tt.methods.get('thread_player')
    ctx.require(tp is not None, 'C11.cond', 'TimeThread.thread_player getter not found')
    rets = [r for r in walk_local(tp.node) if isinstance(r, ast.Return) and r.value is not None]
    vals = [norm(r.value) for r in rets]
    loc = {}
    for a in walk_local(tp.node):
        if isinstance(a, ast.Assign) and isinstance(a.targets[0], ast.Name):
            loc[a.targets[0].id] = norm(a.value)
    climbs_rec = any(isinstance(r.value, ast.Attribute) and r.value.attr == 'thread_player' and
                     (norm(r.value.value) == 'self.parent' or loc.get(norm(r.value.value)) == 'self.parent') for r in rets)
    climbs_loop = any(isinstance(w, ast.While) and any(isinstance(a, ast.Assign) and isinstance(a.targets[0], ast.Name) and
                                                       norm(a.value) == f'{a.targets[0].id}.parent' for a in ast.walk(w))
                      for w in walk_local(tp.node))
    stops_short = [v for v in vals if v not in ('self', 'self._thread_player') and not v.endswith('.thread_player') and not climbs_loop]
    ctx.ob('C11.cond', f'{tt.fq}.thread_player:climbs-to-root', 'self._thread_player' in vals and 'self' in vals and (climbs_rec or climbs_loop)
           and not stops_short,
           f'the player of a nested routine is its parent\'s player, recursively up to the routine whose parent is the main thread '
           f'(returns found: {vals}); stopping at the immediate parent parks the wrong routine at depth 3', tp.node, tt.module)
    f = c.methods['signal']
    ifs = [s for s in walk_local(f.node) if isinstance(s, ast.If)]
    ok = len(ifs) == 1 and norm(ifs[0].test) == 'self.test' and any(isinstance(s, ast.For) for s in ifs[0].body)
    ctx.ob('C11.cond', f'{f.fq}:only-when-true', ok, 'signal resumes the routines only when the condition holds (never before)', f.node, mod)
    w = c.methods['wait']
    ifs = [s for s in w.node.body if isinstance(s, ast.If) and norm(s.test) in ('not self.test', 'self.test')]
    ok = False
    if len(ifs) == 1:
        # tb: the branch taken when the test is false (the loader writes `if not c: A else: B` as `if c: B else: A`)
        tb, fb = (ifs[0].body, ifs[0].orelse) if norm(ifs[0].test) == 'not self.test' else (ifs[0].orelse, ifs[0].body)
        ytrue = [s.value.value for s in tb if isinstance(s, ast.Expr) and isinstance(s.value, ast.Yield)]
        yfalse = [s.value.value for s in fb if isinstance(s, ast.Expr) and isinstance(s.value, ast.Yield)]
        park = any(norm(s) == 'self._waiting_threads.append(current_tt.thread_player)' for s in tb)
        ok = park and len(ytrue) == 1 and isinstance(ytrue[0], ast.Constant) and isinstance(ytrue[0].value, str) and \
            len(yfalse) == 1 and U.is_num(yfalse[0]) and \
            [norm(s) for s in tb].index('self._waiting_threads.append(current_tt.thread_player)') == 0
    ctx.ob('C11.cond', f'{w.fq}:park', ok,
           'false test: park the routine and yield a non-number (clocks do not reschedule it); true test: yield a number', w.node, mod)
    src = full(w.node)
    ctx.ob('C11.cond', f'{w.fq}:outside-routine', 'if _libsc3.main.current_tt is _libsc3.main.main_tt: raise Exception' in src,
           'waiting outside a routine is refused', w.node, mod)
    fv = ctx.repo.cls('sc3.base.stream:FlowVar')
    st = fv.setters['value']
    b = [norm(s) for s in U.body_nodoc(st.node)]
    ok = len(b) == 3 and b[0].startswith('if self._value is not self._UNBOUND: raise Exception(') and \
        b[1] == f'self._value = {st.params[1]}' and b[2] == 'self.condition.signal()'
    ctx.ob('C11.cond', f'{st.fq}', ok, f'FlowVar setter must refuse rebinding, then store, then signal; found {b}', st.node, mod)
    g = fv.methods['value']
    b = [norm(s) for s in U.body_nodoc(g.node)]
    ctx.ob('C11.cond', f'{g.fq}', b == ['yield from self.condition.wait()', 'return self._value'],
           'FlowVar getter waits on its condition and returns the value', g.node, mod)
    init = fv.methods['__init__']
    ctx.ob('C11.cond', f'{init.fq}', 'self.condition = Condition(lambda: self._value is not self._UNBOUND)' in full(init.node),
           'the condition of a FlowVar is "value is bound"', init.node, mod)
    # clocks only reschedule numbers (shared with C08.resched) - the non-number really parks
    for fq in ('sc3.base.clock:SystemClock._run', 'sc3.base.clock:TempoClock._run', 'sc3.base.clock:Scheduler._wakeup', 'sc3.base.clock:ClockTask._wakeup'):
        h = ctx.repo.func(fq)
        ctx.ob('C11.cond', f'{fq}:numbers-only', 'isinstance(delta, (int, float)) and (not isinstance(delta, bool))' in full(h.node),
               'a non-numeric yield must not be rescheduled', h.node, h.module)


def rule_stop_quiet(ctx):
    ctx.rule('C11.fsm', 'Routine.stop records the stop without running the body: it only drops the iterator (no close/throw/send/next on it), '
                        'so no user code can raise out of stop() or yield again and leave the routine suspended with a live iterator')
    f = ctx.repo.func('sc3.base.stream:Routine.stop')
    runs = [norm(c)[:50] for c in U.calls(f.node) if (isinstance(c.func, ast.Attribute) and 'self._iterator' in norm(c.func.value)
                                                       and c.func.attr in ('close', 'throw', 'send', '__next__'))
            or (norm(c.func) == 'next' and c.args and 'self._iterator' in norm(c.args[0]))]
    ctx.ob('C11.fsm', f'{f.fq}:runs-no-body-code', not runs,
           f'stop() calls {runs} on the suspended generator: GeneratorExit is thrown into user code before the state is Done; a body that '
           f'swallows it or raises in a finally makes stop() raise and the routine stays suspended', f.node, f.module)


def run(ctx):
    from ..report import SubCtx
    from . import c05
    sub_c05 = SubCtx(ctx, 'C11.inherit', 'next() links the routine to its caller and restores it afterwards: the parent link and the time it copies, as decided for C05')
    c05.rule_inherit(sub_c05)
    # the condition is evaluated when it is asked: a callable test is called on every read (no cached value), the setter
    # only stores; a routine's logical time is its own stored second, its beat that second on its own clock
    cnd2 = ctx.repo.cls('sc3.base.stream:Condition')
    tg = cnd2.methods['test']
    ctx.ob('C11.cond', f'{tg.fq}:evaluated-on-read', 'if callable(self._test): return self._test() else: return self._test' in full(tg.node) and
           not any(isinstance(x, ast.Assign) for x in walk_local(tg.node)),
           'Condition.test calls a callable test each time it is read and stores nothing', tg.node, tg.module)
    ts = cnd2.setters['test']
    ctx.ob('C11.cond', f'{ts.fq}:stores', [norm(x) for x in U.body_nodoc(ts.node)] == [f'self._test = {ts.params[1]}'],
           'the test setter only stores the value or callable', ts.node, ts.module)
    tt = ctx.repo.cls('sc3.base.stream:TimeThread')
    ctx.ob('C11.restore', f'{tt.fq}._seconds', full(tt.methods['_seconds'].node).endswith('return self._m_seconds'),
           'a time thread reports the logical second stored for it', tt.methods['_seconds'].node, tt.module)
    ctx.ob('C11.restore', f'{tt.fq}._beats', full(tt.methods['_beats'].node).endswith('return self._clock.secs2beats(self._seconds)'),
           'its beat is that second converted by its own clock', tt.methods['_beats'].node, tt.module)
    # recorded, not repaired: the waiting list of a Condition is emptied only by signal()/unhang(); stop(), reset() and
    # pause()+resume() take a hung routine out of its wait without removing it from that list
    cnd = ctx.repo.cls('sc3.base.stream:Condition')
    rt = ctx.repo.cls('sc3.base.stream:Routine')
    ctx.rule('C11.cond', 'waiting-list discipline of Condition')
    removers = sorted(f.qualname for ci_ in (cnd, rt) for f in ci_.methods.values()
                      if any(isinstance(x, ast.Assign) and any(isinstance(t_, ast.Attribute) and t_.attr == '_waiting_threads' for t_ in
                             (x.targets if not isinstance(x.targets[0], ast.Tuple) else x.targets[0].elts)) for x in walk_local(f.node))
                      or any(isinstance(c, ast.Call) and isinstance(c.func, ast.Attribute) and c.func.attr in ('remove', 'clear', 'pop')
                             and '_waiting_threads' in norm(c.func.value) for c in U.calls(f.node)))
    leaves = {'Routine.stop', 'Routine.reset'}
    ctx.ob('C11.cond', 'sc3.base.stream:Condition:stale-waiters', bool(leaves & set(removers)),
           f'only {removers} touch Condition._waiting_threads: a routine stopped/reset (or paused and resumed) while hung stays '
           f'registered, and a later signal() re-schedules it although it now waits for something else', cnd.node, cnd.module)
    rule_fsm(ctx)
    rule_stop_quiet(ctx)
    rule_own(ctx)
    rule_restore(ctx)
    rule_cond(ctx)
    ctx.assume('reading the parent\'s _seconds (a property) does not raise')


MUTANTS = [
    dict(rule='C11.fsm', name='stop closes the generator before it records the stop (seed C11-m)', file='sc3/base/stream.py',
         old="            else:\n                self._iterator = None\n                self._last_value = None\n                self._clock = clk.SystemClock  # Default clock.\n                self.state = self.State.Done\n",
         new="            else:\n                if self._iterator is not None:\n                    self._iterator.close()\n                self._iterator = None\n                self._last_value = None\n                self._clock = clk.SystemClock  # Default clock.\n                self.state = self.State.Done\n"),
    dict(rule='C11.cond', name='thread_player stops at the immediate parent (seed C11-e)', file='sc3/base/stream.py',
         old="                return self.parent.thread_player", new="                return self.parent._thread_player or self.parent"),
    dict(rule='C11.cond', name='Condition caches the value of a callable test', file='sc3/base/stream.py',
         old="        if callable(self._test):\n            return self._test()\n        else:\n            return self._test", new="        if callable(self._test):\n            self._test = self._test()\n        return self._test"),
    dict(rule='C11.fsm', name='(fix reverted) next() re-entered from the running routine', file='sc3/base/stream.py',
         old="            if self.state == self.State.Running:\n                raise RoutineException('cannot be resumed within itself')\n\n", new=""),
    dict(rule='C11.fsm', name='(fix reverted) reset keeps the terminal value', file='sc3/base/stream.py',
         old="                self._terminal_value = self._SENTINEL\n                self._clock = clk.SystemClock  # Default clock.\n                self.state = self.State.Init", new="                self._clock = clk.SystemClock  # Default clock.\n                self.state = self.State.Init"),
    dict(rule='C11.fsm', name='failure arm narrowed to Exception (seed C11-c)', file='sc3/base/stream.py',
         old="            except:\n                self.state = self.State.Done  # Failure.", new="            except Exception:\n                self.state = self.State.Done  # Failure."),
    dict(rule='C11.fsm', name='pause from Done becomes Paused', file='sc3/base/stream.py',
         old="            if self.state == self.State.Init\\\n            or self.state == self.State.Suspended:\n                self.state = self.State.Paused",
         new="            if self.state != self.State.Paused:\n                self.state = self.State.Paused"),
    dict(rule='C11.fsm', name='stop without Running guard', file='sc3/base/stream.py',
         old="            if self.state == self.State.Running:\n                raise RoutineException('cannot be stopped within itself')\n            else:\n                self._iterator = None",
         new="            if True:\n                self._iterator = None"),
    dict(rule='C11.fsm', name='StopIteration arm leaves state Running', file='sc3/base/stream.py',
         old="                self._clock = clk.SystemClock  # Default clock.\n                self.state = self.State.Done\n                raise StopStream from None",
         new="                self._clock = clk.SystemClock  # Default clock.\n                raise StopStream from None"),
    dict(rule='C11.fsm', name='paused routine runs on next()', file='sc3/base/stream.py',
         old="            if self.state == self.State.Paused:\n                raise PausedStream\n", new=""),
    dict(rule='C11.fsm', name='failure leaves routine resumable', file='sc3/base/stream.py',
         old="            except:\n                self.state = self.State.Done  # Failure.\n                raise", new="            except:\n                self.state = self.State.Suspended\n                raise"),
    dict(rule='C11.fsm', name='EventStreamPlayer.resume from any state', file='sc3/seq/eventstream.py',
         old="            if self.state == self.State.Paused:\n                self.state = self.State.Suspended\n                clock = clock or self._clock",
         new="            if self.state != self.State.Running:\n                self.state = self.State.Suspended\n                clock = clock or self._clock"),
    dict(rule='C11.own', name='state written outside the lock', file='sc3/base/stream.py',
         old="        with self._state_lock:\n            if self.state == self.State.Paused:\n                self.state = self.State.Suspended\n                clock = clock or self._clock\n                clock.play(self, quant)\n\n    def stop",
         new="        if self.state == self.State.Paused:\n            self.state = self.State.Suspended\n            clock = clock or self._clock\n            clock.play(self, quant)\n\n    def stop"),
    dict(rule='C11.own', name='state written by another class', file='sc3/base/clock.py',
         old="    def _sched_add_nrt(self, beats, task):\n", new="    def _sched_add_nrt(self, beats, task):\n        task.state = task.State.Suspended\n"),
    dict(rule='C11.restore', name='finally -> else', file='sc3/base/stream.py',
         old="            finally:\n                _libsc3.main.current_tt = self.parent\n                self.parent = None",
         new="            else:\n                _libsc3.main.current_tt = self.parent\n                self.parent = None"),
    dict(rule='C11.restore', name='call between install and try', file='sc3/base/stream.py',
         old="            self._m_seconds = self.parent._seconds\n\n            try:", new="            self._m_seconds = self.parent._seconds\n            self._clock.secs2beats(self._m_seconds)\n\n            try:"),
    dict(rule='C11.cond', name='live waiting list iterated', file='sc3/base/stream.py',
         old="            if self.test:\n                tmp_wtt = self._waiting_threads\n                self._waiting_threads = []\n                for tt in tmp_wtt:",
         new="            if self.test:\n                for tt in self._waiting_threads:"),
    dict(rule='C11.cond', name='false branch yields a number', file='sc3/base/stream.py',
         old="            yield 'hang'  # Arbitrary non numeric value.", new="            yield 0"),
    dict(rule='C11.cond', name='signal ignores the test', file='sc3/base/stream.py',
         old="        with self._state_lock:\n            if self.test:\n                tmp_wtt", new="        with self._state_lock:\n            if True:\n                tmp_wtt"),
    dict(rule='C11.cond', name='FlowVar rebinding allowed', file='sc3/base/stream.py',
         old="        if self._value is not self._UNBOUND:\n            raise Exception('cannot rebind a FlowVar')\n", new=""),
]

REPAIRS = []
