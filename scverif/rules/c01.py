"""C01 - SynthDef compilation preserves the meaning of the graph function.

Decided statically (necessary conditions, for every graph function):
  C01.opc   operator tables are the server's enum, row by row
  C01.sel   operator methods hand the selector they are named after to the hook
  C01.rate  arithmetic units take the highest input rate (decision list / reduction)
  C01.ctor  ar/kr/ir/dr constructors pass their own rate literal
  C01.args  constructors wire every parameter exactly once; ar/kr siblings agree
  C01.short constructor-time shortcuts are ring identities
  C01.opt   optimiser rewrites are ring identities, consume single-use units only
  C01.dce   only pure classes can reach dead-code elimination
"""

import ast
import re
import json
import os

from ..loader import AnalysisError, dump_name, norm, full, walk_local, walk_local_ordered
from .. import util as U
from ..flow import enumerate_paths
from ..symx import Poly, to_poly

EXPLANATION = (
    'Static analysis of the SynthDef/UGen graph builder: the opcode tables are compared row by row with the '
    'server enum; every operator method of AbstractObject is resolved to the table row its selector reaches; '
    'the rate decision list of BinaryOpUGen and the rate reduction of UGenSequence are extracted and compared '
    'with the rate lattice; every ar/kr/ir/dr constructor under sc3/synth is checked for its rate literal and '
    'for wiring each parameter exactly once (siblings must agree); the constructor-time shortcuts and the '
    'optimiser rewrites are extracted path by path and decided as polynomial identities; the set of classes '
    'that can reach dead-code elimination is computed through the MRO and intersected with the side-effect set. '
    'Decides these structural clauses, not denotation equality of arbitrary graphs.')
LEVEL_NOTE = 'necessary conditions only; graph denotation for arbitrary programs is not decided'
LEVEL_TEXT_ADD = ' Also: constants table discipline (C01.const; signed zero is a known finding) and idempotent per-input edge updates in dead-code elimination.'
LEVEL_TEXT_ADD += ' Rounds e-f: a unit is removed only on a rewrite path and is never read by its replacement; dead-code elimination visits an input once.'
LEVEL_TEXT_ADD += ' Round i: a rewrite hands a whole reader set only to a unit it has just made.'
LEVEL_TEXT = (globals().get('LEVEL_TEXT') or EXPLANATION) + LEVEL_TEXT_ADD

REFS = os.path.join(os.path.dirname(os.path.dirname(__file__)), 'refs')
RATE_OF = {'ar': 'audio', 'kr': 'control', 'ir': 'scalar', 'dr': 'demand'}


def _ref():
    with open(os.path.join(REFS, 'opcodes.json')) as f:
        return json.load(f)


def tables(ctx):
    m = ctx.repo.module('sc3.synth._specialindex')
    out = {}
    for name in ('_unops_list', '_binops_list'):
        node = m.assigns.get(name)
        ctx.require(node is not None, 'C01.opc', f'{name} not found in _specialindex')
        val = U.literal(node)
        ctx.require(isinstance(val, list) and all(isinstance(r, tuple) and r for r in val), 'C01.opc',
                    f'{name} is not a literal list of tuples')
        out[name] = (val, node)
    return m, out


# ------------------------------------------------------------------- opc
def rule_opc(ctx):
    ctx.rule('C01.opc', 'row i of _unops_list/_binops_list must start with the i-th enumerator of the '
                        'server Opcodes.h enum; synonyms unique; no name in both tables')
    ref = _ref()
    m, tabs = tables(ctx)
    for tname, refname in (('_unops_list', 'unary'), ('_binops_list', 'binary')):
        rows, node = tabs[tname]
        want = ref[refname]
        ctx.ob('C01.opc', f'{m.name}:{tname}:length', len(rows) == len(want),
               f'{tname} has {len(rows)} rows, server enum has {len(want)}', node, m)
        for i, w in enumerate(want):
            got = rows[i][0] if i < len(rows) else None
            ctx.ob('C01.opc', f'{m.name}:{tname}:row[{w}]', got == w,
                   f'{tname}[{i}] is {got!r}, server opcode {i} is {w!r}', node, m)
        seen = {}
        for i, row in enumerate(rows):
            for nm in row:
                if nm in seen and seen[nm] != i:
                    ctx.ob('C01.opc', f'{m.name}:{tname}:dup[{nm}]', False,
                           f'name {nm!r} occurs in rows {seen[nm]} and {i} of {tname}', node, m)
                seen[nm] = i
    un = {n for r in tabs['_unops_list'][0] for n in r}
    bn = {n for r in tabs['_binops_list'][0] for n in r}
    both = sorted(un & bn)
    ctx.ob('C01.opc', f'{m.name}:tables:disjoint', not both,
           f'names in both tables (unary is tried first, so the binary meaning is unreachable): {both}',
           tabs['_unops_list'][1], m)
    # the lookup really is index-by-position
    f = ctx.repo.func('sc3.synth._specialindex:_build_op_dict')
    src = full(f.node)
    ok = 'enumerate(oplist)' in src and 'ret[name] = [i, item[0]]' in src
    ctx.ob('C01.opc', f'{m.name}:_build_op_dict:index-by-position', ok,
           'special index must be the row position and the server name the first column', f.node, m)
    f2 = ctx.repo.func('sc3.synth._specialindex:sc_spindex_opname')
    subs = [norm(s.value) for s in walk_local_ordered(f2.node)
            if isinstance(s, ast.Return) and isinstance(s.value, ast.Subscript)]
    ctx.ob('C01.opc', f'{m.name}:sc_spindex_opname:lookup-order', subs == ['_unops[operator]', '_binops[operator]'],
           f'lookup must try the unary then the binary table; found {subs}', f2.node, m)


def lookup(tabs, name):
    for arity, t in (('unary', '_unops_list'), ('binary', '_binops_list')):
        for i, row in enumerate(tabs[t][0]):
            if name in row:
                return arity, i, row[0]
    return None


# ------------------------------------------------------------------- sel
def rule_sel(ctx, rid='C01.sel'):
    ctx.rule(rid, 'each AbstractObject operator method passes to _compose_unop/_compose_binop/_rcompose_binop a '
                  'selector whose __name__ resolves, as sc_opname does, in the table of the same arity to the '
                  'server operator the method is named after')
    ref = _ref()
    m, tabs = tables(ctx)
    ao = ctx.repo.cls('sc3.base.absobject:AbstractObject')
    bim = ctx.repo.module('sc3.base.builtins')
    n = 0
    for name, f in ao.methods.items():
        cs = [c for c in U.calls(f.node) if U.method_name(c) in ('_compose_unop', '_compose_binop', '_rcompose_binop')
              and isinstance(c.func, ast.Attribute) and isinstance(c.func.value, ast.Name) and c.func.value.id == 'self']
        if not cs or name.startswith('_compose') or name.startswith('_rcompose'):
            continue
        for c in cs:
            n += 1
            hook = c.func.attr
            arity = 'unary' if hook == '_compose_unop' else 'binary'
            key = f'{ao.module.name}:AbstractObject.{name}:{hook}'
            if not c.args:
                ctx.ob(rid, key, False, 'hook called without selector', c, ao.module)
                continue
            sel = dump_name(c.args[0])
            if sel is None or '.' not in sel:
                ctx.ob(rid, key, False, f'selector {norm(c.args[0])} is not module.function', c, ao.module)
                continue
            modalias, selname = sel.rsplit('.', 1)
            if modalias == 'bi':
                if selname not in bim.functions:
                    ctx.ob(rid, key, False, f'bi.{selname} is not defined in builtins', c, ao.module)
                    continue
            elif modalias != 'operator':
                ctx.ob(rid, key, False, f'selector from unknown module {modalias}', c, ao.module)
                continue
            if name in ref['no_opcode']:
                ctx.ob(rid, key, lookup(tabs, selname) is None or True, ref['no_opcode'][name], c, ao.module,
                       nontrivial=False)
                continue
            got = lookup(tabs, selname)
            if got is None:
                ctx.ob(rid, key, False, f'selector name {selname!r} is in no opcode table (UGen operator would be '
                                        f'refused by the server)', c, ao.module)
                continue
            garity, idx, srv = got
            want = ref['method_meaning'].get(name, name)
            ok = garity == arity and srv == want
            ctx.ob(rid, key, ok, f'method {name} ({arity}) hands selector {sel} which resolves to {garity} opcode '
                                 f'{idx} {srv!r}; expected {arity} {want!r}', c, ao.module)
            if modalias == 'operator':
                pm = ref['python_operator_names'].get(selname)
                ctx.ob(rid, key + ':pyname', pm == srv, f'operator.{selname} means {pm!r} but table row is {srv!r}',
                       c, ao.module)
    ctx.require(n >= 100, rid, f'only {n} operator methods found in AbstractObject')


# ------------------------------------------------------------------ rate
LATTICE = ['demand', 'audio', 'control', 'scalar']  # precedence order of the server's rate inference


def rule_rate(ctx):
    ctx.rule('C01.rate', 'BinaryOpUGen._determine_rate is the decision list demand>audio>control>scalar over both '
                         'operands; UnaryOpUGen takes its input rate; MulAdd/Sum3/Sum4 reduce with list_min over '
                         'rate names (lexicographic trick)')
    f = ctx.repo.func('sc3.synth.ugen:BinaryOpUGen._determine_rate')
    mod = f.module
    # bind a_rate/b_rate
    srcs = {}
    decisions = []
    default = None
    for s in f.node.body:
        if isinstance(s, ast.Assign) and len(s.targets) == 1 and isinstance(s.targets[0], ast.Name):
            srcs[s.targets[0].id] = norm(s.value)
        elif isinstance(s, ast.If) and len(s.body) == 1 and isinstance(s.body[0], ast.Return) and not s.orelse:
            cp = U.compare_parts(s.test)
            if cp and cp[1] is ast.Eq and isinstance(cp[0], ast.Name) and U.is_str(cp[2]) and U.is_str(s.body[0].value):
                decisions.append((cp[0].id, cp[2].value, s.body[0].value.value, s))
            else:
                ctx.ob('C01.rate', ctx.key(mod, s), False, 'unrecognised rate decision shape', s, mod)
        elif isinstance(s, ast.Return) and U.is_str(s.value):
            default = s.value.value
        elif isinstance(s, ast.Expr) and isinstance(s.value, ast.Constant):
            pass
        else:
            ctx.ob('C01.rate', ctx.key(mod, s), False, 'unrecognised statement in _determine_rate', s, mod)
    params = f.params[1:]
    ctx.require(len(params) == 2, 'C01.rate', '_determine_rate must take two operands')
    var_of = {}
    for v, src in srcs.items():
        for p in params:
            if src == f'gpp.ugen_param({p})._as_ugen_rate()':
                var_of[v] = p
    ctx.ob('C01.rate', f'{mod.name}:BinaryOpUGen._determine_rate:operands', sorted(var_of.values()) == sorted(params),
           f'rate variables must be the rates of both operands; got {srcs}', f.node, mod)
    # simulate the decision list over all 16 rate pairs
    bad = []
    for ra in LATTICE:
        for rb in LATTICE:
            env = {}
            for v, p in var_of.items():
                env[v] = ra if p == params[0] else rb
            res = default
            for v, lit, ret, _ in decisions:
                if env.get(v) == lit:
                    res = ret
                    break
            want = LATTICE[min(LATTICE.index(ra), LATTICE.index(rb))]
            ok = res == want
            ctx.ob('C01.rate', f'{mod.name}:BinaryOpUGen._determine_rate:({ra},{rb})', ok,
                   f'rate of ({ra},{rb}) is {res!r}, must be {want!r}', f.node, mod)
    # unary
    f = ctx.repo.func('sc3.synth.ugen:UnaryOpUGen._init_ugen')
    ps = f.params
    ok = any(isinstance(s, ast.Assign) and norm(s.targets[0]) == 'self._rate' and
             norm(s.value) == f'gpp.ugen_param({ps[2]})._as_ugen_rate()' for s in f.node.body)
    ctx.ob('C01.rate', f'{mod.name}:UnaryOpUGen._init_ugen:rate', ok, 'unary operator must take its input rate', f.node, mod)
    ok = any(isinstance(s, ast.Assign) and norm(s.targets[0]) == 'self._inputs' and norm(s.value) == f'({ps[2]},)'
             for s in f.node.body)
    ctx.ob('C01.rate', f'{mod.name}:UnaryOpUGen._init_ugen:inputs', ok, 'unary operator input must be its operand', f.node, mod)
    f = ctx.repo.func('sc3.synth.ugen:BinaryOpUGen._init_ugen')
    ps = f.params
    ok1 = any(isinstance(s, ast.Assign) and norm(s.targets[0]) == 'self._rate' and
              norm(s.value) == f'self._determine_rate({ps[2]}, {ps[3]})' for s in f.node.body)
    ok2 = any(isinstance(s, ast.Assign) and norm(s.targets[0]) == 'self._inputs' and
              norm(s.value) == f'({ps[2]}, {ps[3]})' for s in f.node.body)
    ok3 = any(isinstance(s, ast.Assign) and norm(s.targets[0]) == 'self.operator' and norm(s.value) == ps[1]
              for s in f.node.body)
    ctx.ob('C01.rate', f'{mod.name}:BinaryOpUGen._init_ugen:wiring', ok1 and ok2 and ok3,
           'BinaryOpUGen must set operator, rate=_determine_rate(a,b), inputs=(a,b) in that operand order', f.node, mod)
    # MulAdd._init_ugen
    f = ctx.repo.try_func('sc3.synth.ugen:MulAdd._init_ugen')
    if f is None:
        ma = ctx.repo.cls('sc3.synth.ugen:MulAdd')
        ctx.ob('C01.rate', f'{mod.name}:MulAdd._init_ugen:rate', False,
               'MulAdd has no _init_ugen of its own: MulAdd.new computes one rate over the unexpanded argument lists and _multi_new hands it '
               'to every expanded unit, so a control-rate channel of a mixed list becomes an audio-rate MulAdd (the override re-derives the '
               'rate from each unit\'s own inputs)', ma.node, mod)
        f = None
    ps = f.params if f is not None else []
    ok = f is not None and any(isinstance(s, ast.Assign) and norm(s.targets[0]) == 'self._rate' and
             norm(s.value) == 'gpp.ugen_param(self.inputs)._as_ugen_rate()' for s in f.node.body) and \
        any(isinstance(s, ast.Assign) and norm(s.targets[0]) == 'self._inputs' and
            norm(s.value) == f'({ps[1]}, {ps[2]}, {ps[3]})' for s in f.node.body)
    if f is not None:
        ctx.ob('C01.rate', f'{mod.name}:MulAdd._init_ugen:rate', ok, 'MulAdd rate must be the reduction over its inputs', f.node, mod)
    # Sum3/Sum4: rate = ugen_param(arg_list)._as_ugen_rate() over all operands, passed to super()._new1
    for cname, nargs in (('Sum3', 3), ('Sum4', 4)):
        f = ctx.repo.func(f'sc3.synth.ugen:{cname}._new1')
        ps = f.params[2:]
        lst = rate_ok = pass_ok = False
        for s in walk_local_ordered(f.node):
            if isinstance(s, ast.Assign) and norm(s.targets[0]) == 'arg_list' and isinstance(s.value, ast.List):
                lst = [norm(e) for e in s.value.elts] == ps
            if isinstance(s, ast.Assign) and norm(s.targets[0]) == 'rate':
                rate_ok = norm(s.value) == 'gpp.ugen_param(arg_list)._as_ugen_rate()'
            if isinstance(s, ast.Return) and norm(s.value) == 'super()._new1(rate, *arg_list)':
                pass_ok = True
        ctx.ob('C01.rate', f'{mod.name}:{cname}._new1:rate', bool(lst and rate_ok and pass_ok),
               f'{cname} must be created at the reduction of all {nargs} operands', f.node, mod)
    # the reduction
    f = ctx.repo.func('sc3.synth._graphparam:UGenSequence._as_ugen_rate')
    src = full(f.node)
    ok = 'utl.list_min(' in src and "_as_ugen_rate() or 'scalar'" in src and 'list_max' not in src
    ctx.ob('C01.rate', f'{f.module.name}:UGenSequence._as_ugen_rate:list_min', ok,
           "sequence rate must be list_min over rate names with None->'scalar'", f.node, f.module)
    lits = set()
    for ci in ctx.repo.classes.values():
        pass
    names = ['audio', 'control', 'demand', 'scalar']
    ctx.ob('C01.rate', 'rate-names:lexicographic', sorted(names) == names and
           names.index('audio') < names.index('control') < names.index('scalar'),
           'lexicographic order of rate names must be descending rate (the trick list_min relies on)', nontrivial=False)
    f = ctx.repo.func('sc3.base.utils:list_min')
    ctx.ob('C01.rate', f'{f.module.name}:list_min:uses-lt', 'operator.lt' in full(f.node) and 'operator.gt' not in full(f.node),
           'list_min must compare with operator.lt', f.node, f.module)


# ----------------------------------------------------------- ctor / args
def ugen_classes(ctx):
    return [ci for ci in ctx.repo.classes.values() if ci.module.name.startswith('sc3.synth.')
            or ci.module.name == 'sc3.synth']


def deleg_calls(fnode):
    out = []
    for c in U.calls(fnode):
        if isinstance(c.func, ast.Attribute) and c.func.attr in ('_multi_new', '_new1') and \
                isinstance(c.func.value, ast.Name) and c.func.value.id == 'cls':
            out.append(c)
    return out


def rule_ctor_args(ctx):
    ctx.rule('C01.ctor', 'a rate constructor named ar/kr/ir/dr that delegates to cls._multi_new/_new1 passes the '
                         "literal 'audio'/'control'/'scalar'/'demand' as the rate")
    ctx.rule('C01.args', 'every parameter of a rate constructor is used; in single-return constructors each '
                         'parameter reaches the delegation call exactly once; ar/kr/ir siblings pass identical '
                         'argument lists and have identical signatures')
    n_ctor = 0
    for ci in ugen_classes(ctx):
        simple = {}
        for mname, rate in RATE_OF.items():
            f = ci.methods.get(mname)
            if f is None or not f.is_classmethod:
                continue
            mod = ci.module
            dc = deleg_calls(f.node)
            for c in dc:
                n_ctor += 1
                key = f'{mod.name}:{ci.qualname}.{mname}:rate-literal'
                a0 = c.args[0] if c.args else None
                if U.is_str(a0):
                    ctx.ob('C01.ctor', key, a0.value == rate,
                           f'{ci.name}.{mname} creates the unit at rate {a0.value!r}, must be {rate!r}', c, mod)
                else:
                    ctx.ob('C01.ctor', key, False,
                           f'{ci.name}.{mname} passes a non-literal rate {norm(a0) if a0 is not None else None}', c, mod)
            body = U.body_nodoc(f.node)
            params = f.params[1:]
            va = f.node.args.vararg.arg if f.node.args.vararg else None
            kw = [a.arg for a in f.node.args.kwonlyargs]
            allp = params + ([va] if va else []) + kw
            if len(body) == 1 and isinstance(body[0], ast.Raise):
                continue
            used = {}
            for nnode in walk_local(f.node):
                if isinstance(nnode, ast.Name) and isinstance(nnode.ctx, ast.Load):
                    used[nnode.id] = used.get(nnode.id, 0) + 1
            for p in allp:
                ctx.ob('C01.args', f'{mod.name}:{ci.qualname}.{mname}:param[{p}]:used', used.get(p, 0) >= 1,
                       f'parameter {p!r} of {ci.name}.{mname} is never used (dropped input)', f.node, mod,
                       nontrivial=False)
            if len(body) == 1 and isinstance(body[0], (ast.Return, ast.Expr)) and dc and body[0].value is dc[0]:
                call = dc[0]
                cnt = {}
                for a in call.args[1:]:
                    for nm in U.names_in(a):
                        cnt[nm] = cnt.get(nm, 0) + 1
                for kwd in call.keywords:
                    for nm in U.names_in(kwd.value):
                        cnt[nm] = cnt.get(nm, 0) + 1
                for p in allp:
                    ctx.ob('C01.args', f'{mod.name}:{ci.qualname}.{mname}:param[{p}]:once', cnt.get(p, 0) == 1,
                           f'parameter {p!r} of {ci.name}.{mname} reaches the unit {cnt.get(p, 0)} times (must be 1)',
                           call, mod)
                simple[mname] = (f, call)
        if len(simple) > 1:
            mod = ci.module
            argl = {m: [norm(a) for a in c.args[1:]] for m, (f, c) in simple.items()}
            sigs = {m: norm(f.node.args) for m, (f, c) in simple.items()}
            first = sorted(argl)[0]
            for m in sorted(argl):
                if m == first:
                    continue
                ctx.ob('C01.args', f'{mod.name}:{ci.qualname}:{first}-vs-{m}:args', argl[m] == argl[first],
                       f'{ci.name}.{m} wires {argl[m]} but {ci.name}.{first} wires {argl[first]}', simple[m][1], mod)
                ctx.ob('C01.args', f'{mod.name}:{ci.qualname}:{first}-vs-{m}:signature', sigs[m] == sigs[first],
                       f'{ci.name}.{m}({sigs[m]}) differs from {ci.name}.{first}({sigs[first]})', simple[m][0].node, mod)
    ctx.require(n_ctor >= 300, 'C01.ctor', f'only {n_ctor} delegating rate constructors found')


# ------------------------------------------------------------------ short
def _guard_env(test, alias, boolvars, positive):
    """facts 'param == const' implied by test having truth value `positive`."""
    facts = {}
    if positive:
        for c in U.conjuncts(test):
            if isinstance(c, ast.Name) and c.id in boolvars:
                facts.update(_guard_env(boolvars[c.id], alias, boolvars, True))
                continue
            cp = U.compare_parts(c)
            if cp and cp[1] is ast.Eq and isinstance(cp[0], ast.Name) and U.is_num(cp[2]):
                v = cp[0].id
                facts[alias.get(v, v)] = U.num_value(cp[2])
    return facts


def _selector_fact(test, selvar):
    for c in U.conjuncts(test):
        cp = U.compare_parts(c)
        if cp and cp[1] is ast.Eq and isinstance(cp[0], ast.Name) and cp[0].id == selvar and U.is_str(cp[2]):
            return cp[2].value
    return None


def _binop_poly(op, a, b):
    if op == '+':
        return a + b
    if op == '-':
        return a - b
    if op == '*':
        return a * b
    if op == '/':
        return a * b.inverse()
    return None


def rule_short(ctx):
    ctx.rule('C01.short', 'every early return of BinaryOpUGen/MulAdd/Sum3/Sum4._new1 equals, as a polynomial '
                          'identity under the constants its guards establish, the value the unit denotes')
    mod = ctx.repo.module('sc3.synth.ugen')
    n = 0

    def denote_call(cname, params):
        def call_of(node):
            src = norm(node.func)
            args = node.args
            if src == 'super()._new1':
                if cname == 'MulAdd' and len(args) == 4:
                    x, y, z = (to_poly(a, None, call_of) for a in args[1:])
                    return x * y + z
            if src == 'Sum3._new1' and len(args) == 4:
                x, y, z = (to_poly(a, None, call_of) for a in args[1:])
                return x + y + z
            return None
        return call_of

    # ---- BinaryOpUGen
    f = ctx.repo.func('sc3.synth.ugen:BinaryOpUGen._new1')
    ps = f.params  # cls, rate, selector, a, b
    ctx.require(len(ps) == 5, 'C01.short', 'BinaryOpUGen._new1 signature changed')
    selvar, pa, pb = ps[2], ps[3], ps[4]
    alias = {}
    for s in f.node.body:
        if isinstance(s, ast.Assign) and isinstance(s.value, ast.IfExp) and isinstance(s.targets[0], ast.Name):
            v = s.value
            if isinstance(v.body, ast.Name) and v.body.id in (pa, pb) and norm(v.test).startswith(f'isinstance({v.body.id}, (int, float))') \
                    and isinstance(v.orelse, ast.Constant) and v.orelse.value is None:
                alias[s.targets[0].id] = v.body.id
    ctx.require(set(alias.values()) == {pa, pb}, 'C01.short', 'cannot bind the numeric views of both operands')
    for ev, out in enumerate_paths(f.node):
        if out[0] != 'return':
            ctx.ob('C01.short', f'{mod.name}:BinaryOpUGen._new1:exit[{out[0]}]', False,
                   'path leaves _new1 without returning', f.node, mod)
            continue
        ret = out[1]
        op = None
        facts = {}
        for k, node, x in ev:
            if k == 'test':
                s = _selector_fact(node, selvar)
                if s is not None and x:
                    op = s
                facts.update(_guard_env(node, alias, {}, x))
        key = f'{mod.name}:BinaryOpUGen._new1:{op}:{sorted(facts.items())}:{norm(ret.value)}'
        if norm(ret.value) == f'super()._new1({ps[1]}, {selvar}, {pa}, {pb})':
            ctx.ob('C01.short', key, True, 'delegates unchanged', ret, mod, nontrivial=False)
            continue
        n += 1
        if op is None or op not in '+-*/':
            ctx.ob('C01.short', key, False, f'shortcut for operator {op!r} which is not a ring operator', ret, mod)
            continue
        try:
            got = to_poly(ret.value)
        except ValueError as e:
            ctx.ob('C01.short', key, False, f'unrecognised shortcut result: {e}', ret, mod)
            continue
        env = {p: Poly.const(c) for p, c in facts.items()}
        try:
            want = _binop_poly(op, Poly.atom(pa).subst(env), Poly.atom(pb).subst(env))
            ok = want == got.subst(env)
        except (ValueError, ZeroDivisionError):
            ok = False
            want = None
        ctx.ob('C01.short', key, ok, f'{pa} {op} {pb} with {facts} is {want}, shortcut returns {norm(ret.value)}', ret, mod)

    # ---- MulAdd
    f = ctx.repo.func('sc3.synth.ugen:MulAdd._new1')
    ps = f.params  # cls, rate, input, mul, add
    ctx.require(len(ps) == 5, 'C01.short', 'MulAdd._new1 signature changed')
    pin, pmul, padd = ps[2], ps[3], ps[4]
    alias, boolvars = {}, {}
    for s in f.node.body:
        if isinstance(s, ast.Assign) and isinstance(s.targets[0], ast.Name):
            v = s.value
            if isinstance(v, ast.IfExp) and isinstance(v.body, ast.Name) and \
                    norm(v.test).startswith(f'isinstance({v.body.id}, (int, float))'):
                alias[s.targets[0].id] = v.body.id
            elif isinstance(v, ast.Compare):
                boolvars[s.targets[0].id] = v
    want_expr = Poly.atom(pin) * Poly.atom(pmul) + Poly.atom(padd)
    call_of = denote_call('MulAdd', ps)
    for ev, out in enumerate_paths(f.node):
        if out[0] != 'return':
            ctx.ob('C01.short', f'{mod.name}:MulAdd._new1:exit[{out[0]}]', False, 'path leaves _new1 without returning', f.node, mod)
            continue
        ret = out[1]
        facts = {}
        for k, node, x in ev:
            if k == 'test':
                facts.update(_guard_env(node, alias, boolvars, x))
        key = f'{mod.name}:MulAdd._new1:{sorted(facts.items())}:{norm(ret.value)}'
        n += 1
        try:
            got = to_poly(ret.value, None, call_of)
        except ValueError as e:
            ctx.ob('C01.short', key, False, f'unrecognised result: {e}', ret, mod)
            continue
        env = {p: Poly.const(c) for p, c in facts.items()}
        ok = want_expr.subst(env) == got.subst(env)
        ctx.ob('C01.short', key, ok, f'{pin}*{pmul}+{padd} with {facts} is {want_expr.subst(env)}, '
                                     f'returns {norm(ret.value)} = {got.subst(env)}', ret, mod)

    # ---- Sum3 / Sum4
    for cname in ('Sum3', 'Sum4'):
        f = ctx.repo.func(f'sc3.synth.ugen:{cname}._new1')
        ps = f.params[2:]
        total = Poly()
        for p in ps:
            total = total + Poly.atom(p)
        call_of = denote_call(cname, ps)
        for ev, out in enumerate_paths(f.node):
            if out[0] != 'return':
                ctx.ob('C01.short', f'{mod.name}:{cname}._new1:exit[{out[0]}]', False, 'path leaves _new1 without returning', f.node, mod)
                continue
            ret = out[1]
            facts = {}
            for k, node, x in ev:
                if k == 'test' and x:
                    cj = U.conjuncts(node)
                    for c in cj:
                        cp = U.compare_parts(c)
                        if cp and cp[1] is ast.Eq and isinstance(cp[0], ast.Name) and U.is_num(cp[2]):
                            facts[cp[0].id] = U.num_value(cp[2])
            key = f'{mod.name}:{cname}._new1:{sorted(facts.items())}:{norm(ret.value)}'
            if norm(ret.value) == 'super()._new1(rate, *arg_list)':
                # arg_list is the literal list of all operands (checked in C01.rate), sorted: a permutation
                srt = [s for s in walk_local_ordered(f.node) if isinstance(s, ast.Expr) and norm(s.value).startswith('arg_list.sort(')]
                ctx.ob('C01.short', key, True, 'creates the unit over a permutation of all operands', ret, mod, nontrivial=False)
                continue
            n += 1
            try:
                got = to_poly(ret.value, None, call_of)
            except ValueError as e:
                ctx.ob('C01.short', key, False, f'unrecognised result: {e}', ret, mod)
                continue
            env = {p: Poly.const(c) for p, c in facts.items()}
            ok = total.subst(env) == got.subst(env)
            ctx.ob('C01.short', key, ok, f'sum with {facts} is {total.subst(env)}, returns {norm(ret.value)} = {got.subst(env)}', ret, mod)
    ctx.require(n >= 20, 'C01.short', f'only {n} shortcut returns extracted')


def rule_mix(ctx):
    ctx.rule('C01.opt', 'Mix reduces its clumps with Sum4, Sum3 and the element-wise list_sum only: a bare `+` between rows concatenates plain '
                        'Python lists (rows need not be channel lists), the Out then carries the rows side by side instead of their sum')
    f = ctx.repo.func('sc3.synth.ugens.mix:Mix.new')
    adds = [norm(b)[:50] for b in walk_local(f.node) if isinstance(b, ast.BinOp) and isinstance(b.op, ast.Add)
            and any(isinstance(x, ast.Subscript) for x in (b.left, b.right))]
    sums = [norm(c.func) for c in U.calls(f.node) if norm(c.func).endswith('list_sum')]
    ctx.ob('C01.opt', f'{f.fq}:element-wise-sum', not adds and len(sums) >= 2,
           f'rows added with a bare + ({adds}); list_sum calls: {len(sums)} (the leftover clump and the last level are list_sum)', f.node, f.module)


def rule_transfer(ctx):
    ctx.rule('C01.opt', 'a rewrite hands the whole reader set of the replaced unit (`x._descendants = self._descendants`) only to a unit it has '
                        'just made: an existing unit already has readers of its own, which the assignment would forget - later passes then '
                        'take it for single-use or dead and remove it under its remaining readers')
    n = 0
    for fi in sorted(ctx.repo.functions.values(), key=lambda f: f.fq):
        if not (fi.module.name == 'sc3.synth.ugen' or fi.module.name.startswith('sc3.synth.ugens')):
            continue
        for x in walk_local(fi.node):
            if not (isinstance(x, ast.Assign) and len(x.targets) == 1 and isinstance(x.targets[0], ast.Attribute)
                    and x.targets[0].attr == '_descendants' and isinstance(x.value, ast.Attribute) and x.value.attr == '_descendants'):
                continue
            n += 1
            tgt = x.targets[0].value
            binds = [a.value for a in walk_local(fi.node) if isinstance(a, ast.Assign) and isinstance(tgt, ast.Name)
                     and any(isinstance(t, ast.Name) and t.id == tgt.id for t in a.targets)]
            def is_ctor(b):
                if isinstance(b, ast.IfExp):
                    return is_ctor(b.body) and is_ctor(b.orelse)
                return isinstance(b, ast.Call) and isinstance(b.func, ast.Attribute) and b.func.attr in ('new', '_new1', '_multi_new', 'ar', 'kr', 'ir')
            fresh = isinstance(tgt, ast.Name) and tgt.id not in fi.params and bool(binds) and all(is_ctor(b) for b in binds)
            ctx.ob('C01.opt', f'{fi.fq}:{norm(x)[:60]}:onto-a-new-unit', fresh,
                   f'`{norm(tgt)}` receives the whole reader set of another unit but is not (only) bound to a unit constructed in this function '
                   f'({[norm(b)[:40] for b in binds]}): the readers it already had are forgotten', x, fi.module)
    ctx.require(n >= 10, 'C01.opt', f'only {n} reader-set transfers found in the rewrite passes')


# -------------------------------------------------------------------- opt
def rule_opt(ctx):
    ctx.rule('C01.opt', 'each optimiser rewrite replaces self by a unit denoting the same polynomial, removes only '
                        'a unit whose single use was just tested, inherits self._descendants, updates the inputs\' '
                        'descendant sets and is installed with _replace_ugen')
    mod = ctx.repo.module('sc3.synth.ugen')
    ci = ctx.repo.cls('sc3.synth.ugen:BinaryOpUGen')
    og = ci.methods.get('_optimize_graph')
    ctx.require(og is not None, 'C01.opt', 'BinaryOpUGen._optimize_graph not found')
    # operator context of each helper: propagate from guarded calls in _optimize_graph
    opctx = {}
    for s in og.node.body:
        if isinstance(s, ast.If):
            cp = U.compare_parts(s.test)
            if cp and norm(cp[0]) == 'self.operator' and cp[1] is ast.Eq and U.is_str(cp[2]):
                for c in U.calls(s):
                    if U.is_self_attr(c.func):
                        opctx[c.func.attr] = cp[2].value
    changed = True
    while changed:
        changed = False
        for name, op in list(opctx.items()):
            f = ci.methods.get(name)
            if f is None:
                continue
            for c in U.calls(f.node):
                if U.is_self_attr(c.func) and c.func.attr.startswith('_optimize_') and c.func.attr in ci.methods \
                        and c.func.attr not in opctx and c.func.attr != '_optimize_update_descendants' \
                        and c.func.attr != '_optimize_graph':
                    opctx[c.func.attr] = op
                    changed = True
    ctx.require(len(opctx) >= 6, 'C01.opt', f'optimiser helpers not bound: {opctx}')

    # DCE first in _optimize_graph
    first = U.body_nodoc(og.node)
    first = [s for s in first if not (isinstance(s, ast.Expr) and isinstance(s.value, ast.Constant))]
    ok = bool(first) and isinstance(first[0], ast.If) and 'self._perform_dead_code_elimination()' in norm(first[0].test) \
        and isinstance(first[0].body[0], ast.Return)
    ctx.ob('C01.opt', f'{mod.name}:BinaryOpUGen._optimize_graph:dce-first', ok,
           'a unit eliminated as dead code must not be rewritten afterwards', og.node, mod)

    nrew = 0
    for name, op in sorted(opctx.items()):
        f = ci.methods[name]
        # bind a, b = self.inputs
        ab = None
        for s in f.node.body:
            if isinstance(s, ast.Assign) and norm(s.value) == 'self.inputs' and isinstance(s.targets[0], ast.Tuple):
                ab = [e.id for e in s.targets[0].elts]
        creates = [s for s in walk_local_ordered(f.node) if isinstance(s, ast.Assign) and norm(s.targets[0]) == 'replacement']
        if not creates:
            continue
        ctx.require(ab is not None and len(ab) == 2, 'C01.opt', f'{name}: cannot bind the operands')
        A, B = ab
        for ev, out in enumerate_paths(f.node):
            crs = [(i, n_) for i, (k, n_, x) in enumerate(ev) if k == 'stmt' and isinstance(n_, ast.Assign)
                   and norm(n_.targets[0]) == 'replacement']
            if not crs:
                continue
            idx, cr = crs[-1]
            nrew += 1
            # facts
            shape = {}   # var -> Poly
            single = set()
            same = False
            for k, node, x in ev[:idx]:
                if k != 'test':
                    continue
                if not x:
                    continue
                for c in U.conjuncts(node):
                    src = norm(c)
                    for v in (A, B):
                        if src == f"isinstance({v}, BinaryOpUGen)":
                            shape.setdefault(v, {})['cls'] = 'BinaryOpUGen'
                        if src == f"isinstance({v}, UnaryOpUGen)":
                            shape.setdefault(v, {})['cls'] = 'UnaryOpUGen'
                        if src == f"isinstance({v}, Sum3)":
                            shape.setdefault(v, {})['cls'] = 'Sum3'
                        cp = U.compare_parts(c)
                        if cp and norm(cp[0]) == f'{v}.operator' and cp[1] is ast.Eq and U.is_str(cp[2]):
                            shape.setdefault(v, {})['op'] = cp[2].value
                        if src == f'len({v}._descendants) == 1':
                            single.add(v)
                    if src in (f'{A} is {B}', f'{B} is {A}'):
                        same = True

            def expand(v):
                sh = shape.get(v, {})
                i0, i1, i2 = (Poly.atom(f'{v}.inputs[{i}]') for i in range(3))
                if sh.get('cls') == 'BinaryOpUGen' and sh.get('op') in ('+', '-', '*'):
                    return _binop_poly(sh['op'], i0, i1)
                if sh.get('cls') == 'UnaryOpUGen' and sh.get('op') == 'neg':
                    return -i0
                if sh.get('cls') == 'Sum3':
                    return i0 + i1 + i2
                return Poly.atom(v)
            pa, pb = expand(A), expand(B)
            if same:
                pb = pa
            want = _binop_poly(op, pa, pb)

            def atom_of(node):
                if isinstance(node, ast.Name) and node.id in (A, B):
                    if same and node.id == B:
                        return expand(A)
                    return expand(node.id)
                if isinstance(node, ast.Subscript):
                    s_ = norm(node)
                    if same:
                        s_ = s_.replace(f'{B}.inputs', f'{A}.inputs') if s_.startswith(f'{B}.') else s_
                    return s_
                return None

            def call_of(node):
                src = norm(node.func)
                try:
                    args = [to_poly(a, atom_of, call_of) for a in node.args if not U.is_str(a)]
                except ValueError:
                    return None
                if src == 'Sum3.new' and len(args) == 3:
                    return args[0] + args[1] + args[2]
                if src == 'Sum4.new' and len(args) == 4:
                    return args[0] + args[1] + args[2] + args[3]
                if src == 'MulAdd.new' and len(args) == 3:
                    return args[0] * args[1] + args[2]
                if src == 'BinaryOpUGen.new' and len(node.args) == 3 and U.is_str(node.args[0]):
                    return _binop_poly(node.args[0].value, args[0], args[1])
                return None
            key = f'{mod.name}:BinaryOpUGen.{name}:{norm(cr.value)}'
            try:
                got = to_poly(cr.value, atom_of, call_of)
                ok = got == want
                msg = f'self = {A} {op} {B} denotes {want}; replacement {norm(cr.value)} denotes {got}'
            except ValueError as e:
                ok = False
                msg = f'replacement not understood: {e}'
            ctx.ob('C01.opt', key + ':identity', ok, msg, cr, mod)
            # removed unit(s) before creation must be single-use tested
            removed = []
            for k, node, x in ev:
                if k == 'stmt' and isinstance(node, ast.Expr) and isinstance(node.value, ast.Call) and \
                        norm(node.value.func) == 'self._synthdef._remove_ugen':
                    removed.append(norm(node.value.args[0]))
            ctx.ob('C01.opt', key + ':single-use', bool(removed) and all(r in single for r in removed),
                   f'removes {removed} but single-use was established only for {sorted(single)}', cr, mod)
            # the removed unit is not read by the replacement: neither by name nor through the other operand when both
            # operands may be the same unit (established: `a is b` tested false, or a failed test on the other operand whose
            # conjuncts all hold for the removed one)
            true_srcs, false_tests, not_same = set(), [], False
            for k, node, x in ev[:idx]:
                if k != 'test':
                    continue
                if x:
                    true_srcs.update(norm(c) for c in U.conjuncts(node))
                else:
                    false_tests.append([norm(c) for c in U.conjuncts(node)])
                    if norm(node) in (f'{A} is {B}', f'{B} is {A}'):
                        not_same = True
            bare = set()
            class _B(ast.NodeVisitor):
                def visit_Attribute(self, n_):
                    if isinstance(n_.value, ast.Name) and n_.value.id in (A, B):
                        return
                    self.generic_visit(n_)
                def visit_Name(self, n_):
                    if n_.id in (A, B):
                        bare.add(n_.id)
            _B().visit(cr.value)
            bad = []
            for r in removed:
                if r in bare:
                    bad.append(f'{r} is removed and still an input of the replacement')
                for w in bare - {r}:
                    if same:
                        bad.append(f'{w} is {r} on this path, {r} is removed and {w} is an input of the replacement')
                        continue
                    contra = any(ft and all(re.sub(rf'\b{w}\b', r, c) in true_srcs and re.sub(rf'\b{w}\b', r, c) != c for c in ft)
                                 for ft in false_tests)
                    if not (not_same or contra):
                        bad.append(f'{w} may be the removed unit {r} ({A} is {B} is never excluded on this path)')
            ctx.ob('C01.opt', key + ':removed-not-read', not bad, '; '.join(bad) or 'the removed unit is not an input of the replacement', cr, mod)
            after = [norm(n_) for k, n_, x in ev[idx + 1:] if k == 'stmt']
            ok_desc = 'replacement._descendants = self._descendants' in after
            ok_upd = any(a.startswith('self._optimize_update_descendants(replacement, ') and
                         a[len('self._optimize_update_descendants(replacement, '):-1] in removed for a in after)
            ctx.ob('C01.opt', key + ':descendants', ok_desc and ok_upd,
                   'replacement must inherit self._descendants and update the inputs of (replacement, removed unit)', cr, mod)
            installed = (out[0] == 'return' and out[1].value is not None and norm(out[1].value) == 'replacement') or \
                any(a == 'self._synthdef._replace_ugen(self, replacement)' for a in after)
            ctx.ob('C01.opt', key + ':installed', installed,
                   'replacement must be returned to _optimize_add or installed with _replace_ugen', cr, mod)
    ctx.require(nrew >= 10, 'C01.opt', f'only {nrew} rewrite paths found')
    # a unit is removed only on a path that goes on to build the replacement
    for name in sorted(opctx):
        f = ci.methods[name]
        if 'self._synthdef._remove_ugen(' not in full(f.node):
            continue
        orphan = None
        for ev, out in enumerate_paths(f.node):
            seen_rm = None
            for k, node, x in ev:
                if k == 'stmt' and isinstance(node, ast.Expr) and isinstance(node.value, ast.Call) and \
                        norm(node.value.func) == 'self._synthdef._remove_ugen':
                    seen_rm = node
                elif k == 'stmt' and isinstance(node, ast.Assign) and norm(node.targets[0]) == 'replacement':
                    seen_rm = None
            if seen_rm is not None and out[0] != 'raise':
                orphan = seen_rm
                break
        ctx.ob('C01.opt', f'{mod.name}:BinaryOpUGen.{name}:removal-only-on-rewrite', orphan is None,
               f'`{norm(orphan) if orphan is not None else ""}` is reached on a path that builds no replacement: the unit disappears while self '
               f'still reads it, and self and everything downstream are dropped by the topological sort', orphan or f.node, mod)
    # a unit made by a rewrite has no place in the graph (_synth_index -1) until _replace_ugen gives it the place of the unit it
    # replaces: optimising it before that lets a nested rewrite install *its* replacement at index -1, over the last unit of the graph
    for name, fh in sorted(ci.methods.items()):
        if not name.startswith('_optimize'):
            continue
        installs = {}
        for c in U.calls(fh.node):
            if norm(c.func) == 'self._synthdef._replace_ugen' and len(c.args) == 2 and isinstance(c.args[1], ast.Name):
                installs.setdefault(c.args[1].id, []).append(c.lineno)
        for c in U.calls(fh.node):
            if U.method_name(c) == '_optimize_graph' and isinstance(c.func.value, ast.Name) and c.func.value.id not in ('self', 'input'):
                v = c.func.value.id
                placed = any(l < c.lineno for l in installs.get(v, []))
                ctx.ob('C01.opt', f'{mod.name}:BinaryOpUGen.{name}:{norm(c)}:placed-first', placed,
                       f'{norm(c)} runs before `self._synthdef._replace_ugen(self, {v})`: the new unit has no index yet, a rewrite of it '
                       f'overwrites the last unit of the definition (an Out disappears)', c, mod)
    # after a fusion every input of the replacement gains it as a reader and loses both the replaced and the absorbed unit -
    # unconditionally: the inputs inherited from the absorbed unit were never read by self, but they are read by the replacement now
    ud = ci.methods['_optimize_update_descendants']
    rp_, dl_ = ud.params[1], ud.params[2]
    lp = [l for l in walk_local(ud.node) if isinstance(l, ast.For)]
    okd, why = False, 'loop over the inputs of the replacement not found'
    if len(lp) == 1 and norm(lp[0].iter) == f'{rp_}.inputs':
        want = {('add', rp_), ('discard', 'self'), ('discard', dl_)}
        got = {}
        for c in U.calls(lp[0]):
            if U.method_name(c) in ('add', 'discard', 'remove') and norm(c.func.value).endswith('._descendants') and c.args:
                tests = []
                for p_ in U.parent_chain(c):
                    if p_ is lp[0]:
                        break
                    if isinstance(p_, ast.If):
                        tests.append(norm(p_.test))
                got[(U.method_name(c), norm(c.args[0]))] = [t for t in tests if t != 'isinstance(input, UGen)']
        cond = {k: v for k, v in got.items() if v}
        okd = want <= set(got) and not cond
        why = f'updates {sorted(got)}; conditional ones {cond}'
    ctx.ob('C01.opt', f'{mod.name}:BinaryOpUGen._optimize_update_descendants:unconditional', okd,
           f'every unit input of the replacement must get add(replacement), discard(self), discard(deleted unit) without further conditions; {why}',
           ud.node, mod)
    # _optimize_add installs what helpers return
    f = ci.methods['_optimize_add']
    src = full(f.node)
    ctx.ob('C01.opt', f'{mod.name}:BinaryOpUGen._optimize_add:install', 'self._synthdef._replace_ugen(self, optimized_ugen)' in src,
           '_optimize_add must install the optimised unit', f.node, mod)
    # _replace_ugen rewires every use of a to b and keeps the slot
    rf = ctx.repo.func('sc3.synth.synthdef:SynthDef._replace_ugen')
    pa_, pb_ = rf.params[1], rf.params[2]
    slot = idx = wfa = False
    for s in walk_local_ordered(rf.node):
        if isinstance(s, ast.Assign):
            t, v = s.targets[0], s.value
            if isinstance(t, ast.Subscript) and norm(t.value) == 'self._children' and norm(t.slice) == f'{pa_}._synth_index' \
                    and norm(v) == pb_:
                slot = True
            elif norm(t) == f'{pb_}._synth_index' and norm(v) == f'{pa_}._synth_index':
                idx = True
            elif norm(t) == f'{pb_}._width_first_antecedents' and norm(v) == f'{pa_}._width_first_antecedents':
                wfa = True
    # rewiring: loop over all units, inner loop over the unit's inputs, `is a` test, and in that branch the unit's
    # inputs are rebuilt with b from the unit's *current* inputs (not from a snapshot taken before the inner loop)
    rew = False
    why = 'no `if <input> is a:` branch that stores new inputs'
    outer = [l for l in walk_local(rf.node) if isinstance(l, ast.For) and norm(l.iter) == 'self._children']
    for br in [n for n in walk_local(rf.node) if isinstance(n, ast.If)]:
        cp = U.compare_parts(br.test)
        if not (cp and cp[1] is ast.Is and norm(cp[2]) == pa_):
            continue
        stores = [x for x in walk_local_ordered(ast.Module(body=br.body, type_ignores=[])) if isinstance(x, ast.Assign)
                  and isinstance(x.targets[0], ast.Attribute) and x.targets[0].attr == '_inputs']
        if not stores or not outer:
            continue
        st = stores[-1]
        unit = norm(st.targets[0].value)
        local_defs = {}
        for x in walk_local_ordered(ast.Module(body=br.body, type_ignores=[])):
            if isinstance(x, ast.Assign) and isinstance(x.targets[0], ast.Name):
                local_defs[x.targets[0].id] = x.value
        stale = []
        uses_b = pb_ in U.names_in(st.value) or any(isinstance(x, ast.Assign) and norm(x.value) == pb_ for x in walk_local(ast.Module(body=br.body, type_ignores=[])))
        for nm in set(U.names_in(st.value)):
            if nm in (pb_, 'tuple', 'list') or nm == unit:
                continue
            if nm in local_defs:
                src = norm(local_defs[nm])
                if f'{unit}.inputs' in src or f'{unit}._inputs' in src:
                    continue
            # loop index of the inner enumerate is fine
            inner = [l for l in U.parent_chain(br) if isinstance(l, ast.For)]
            if inner and nm in U.names_in(inner[0].target):
                continue
            if f'{unit}.inputs' in norm(st.value) or f'{unit}._inputs' in norm(st.value):
                continue
            stale.append(nm)
        rew = uses_b and not stale
        why = f'new inputs are built from {stale}, a snapshot taken before the match loop: when the unit uses the replaced unit in several ' \
              f'slots only the last slot is rewired' if stale else ('replacement not stored' if not uses_b else '')
    for nm, okk, msg in (('slot', slot, 'the replacement takes the slot of the replaced unit'),
                         ('rewire-every-use', rew, f'every input slot that held the replaced unit must be rewired; {why}'),
                         ('index', idx, 'the replacement takes the index of the replaced unit'),
                         ('width-first-antecedents', wfa, 'the replacement keeps the ordering edges (width-first antecedents) of the replaced unit')):
        ctx.ob('C01.opt', f'{rf.module.name}:SynthDef._replace_ugen:{nm}', okk, msg, rf.node, rf.module)
    # _remove_ugen clears exactly the unit's slot
    rm = ctx.repo.func('sc3.synth.synthdef:SynthDef._remove_ugen')
    p = rm.params[1]
    ctx.ob('C01.opt', f'{rm.module.name}:SynthDef._remove_ugen:slot', f'self._children[{p}._synth_index] = None' in full(rm.node),
           '_remove_ugen must clear the slot of the given unit', rm.node, rm.module)


# -------------------------------------------------------------------- dce
SIDE_EFFECT_NAMES = {
    'RandSeed', 'RandID', 'SendTrig', 'SendReply', 'SendPeakRMS', 'Poll', 'Dpoll', 'Free', 'FreeSelf', 'PauseSelf',
    'Pause', 'FreeSelfWhenDone', 'PauseSelfWhenDone', 'Done', 'BufWr', 'RecordBuf', 'DiskOut', 'ScopeOut', 'ScopeOut2',
    'LocalBuf', 'SetBuf', 'ClearBuf', 'CheckBadValues', 'Out', 'ReplaceOut', 'OffsetOut', 'LocalOut', 'XOut',
    'FFT', 'IFFT', 'DelTapWr', 'DetectSilence', 'Linen', 'EnvGen', 'Line', 'XLine', 'PlayBuf', 'Demand', 'Duty', 'TDuty',
    'DemandEnvGen', 'VDiskIn', 'DiskIn', 'Control', 'AudioControl', 'TrigControl', 'LagControl',
}
# Line/XLine/EnvGen/... carry done_action: derived from the code below, the names above are the part that is not derivable.


def _re_once(test_src, v):
    """`not any(v is i for i in seen)` style identity test on the loop variable"""
    return bool(re.search(rf'not any\(\(?{re.escape(v)} is \w+ for \w+ in \w+\)?\)', test_src))


def rule_dce(ctx):
    ctx.rule('C01.dce', 'classes whose _optimize_graph can reach _perform_dead_code_elimination must be free of '
                        'side effects: not output/width-first units, no done_action parameter, not in the named '
                        'side-effect list; elimination happens only when no unit references the candidate')
    repo = ctx.repo
    so = repo.cls('sc3.synth.ugen:SynthObject')
    f = so.methods['_perform_dead_code_elimination']
    body = U.body_nodoc(f.node)
    ok = isinstance(body[0], ast.If) and norm(body[0].test) == 'not self._descendants' and \
        any('self._synthdef._remove_ugen(self)' == norm(s) for s in body[0].body) and \
        not any('_remove_ugen' in norm(s) for s in body[1:])
    ctx.ob('C01.dce', f'{so.module.name}:SynthObject._perform_dead_code_elimination:guard', ok,
           'a unit may be dropped only under `not self._descendants`', f.node, so.module)
    # a unit may use the same input in several slots (x * x): per-input bookkeeping on the edge *sets* inside a loop over the
    # inputs must be idempotent (add / discard); set.remove raises on the second visit and the definition cannot be built
    um = repo.module('sc3.synth.ugen')
    k = 0
    for fi in um.functions.values():
        for lp in walk_local(fi.node):
            if not (isinstance(lp, ast.For) and norm(lp.iter) in ('self.inputs', 'self._inputs')):
                continue
            for c in U.calls(lp):
                if isinstance(c.func, ast.Attribute) and isinstance(c.func.value, ast.Attribute) and \
                        c.func.value.attr in ('_descendants', '_antecedents') and c.func.attr in ('remove', 'discard', 'add'):
                    k += 1
                    ctx.ob('C01.dce', f'{fi.fq}:{norm(c)}:repeated-input', c.func.attr != 'remove',
                           f'{norm(c)} runs once per input slot; an input used in two slots makes the second set.remove raise KeyError '
                           f'(graphs such as `x * x` with x used elsewhere stop compiling)', c, um)
    ctx.require(k >= 2, 'C01.dce', f'only {k} per-input edge updates found')
    # ... and a call that can replace the input in the graph (its _optimize_graph) must run once per input object, not once per slot:
    # the second call works on a unit that the first one has just replaced, and installs a second replacement over the first
    for lp in walk_local(f.node):
        if not (isinstance(lp, ast.For) and norm(lp.iter) in ('self.inputs', 'self._inputs')):
            continue
        v = norm(lp.target)
        opt = [c for c in U.calls(lp) if U.method_name(c) == '_optimize_graph' and norm(c.func.value) == v]
        if not opt:
            continue
        dedup = False
        for t in ast.walk(lp):
            if isinstance(t, ast.If):
                tsrc = norm(t.test)
                if any(c is o for o in opt for c in ast.walk(t)) and (
                        _re_once(tsrc, v) or f'{v} not in ' in tsrc or f'id({v}) not in ' in tsrc):
                    dedup = True
        if norm(lp.iter).startswith('dict.fromkeys('):      # (a set dedupes too, but visits in hash order: C20.order)
            dedup = True
        ctx.ob('C01.dce', f'{so.module.name}:SynthObject._perform_dead_code_elimination:{norm(opt[0])}:once-per-input', dedup,
               f'{norm(opt[0])} runs once per input slot: for a dead unit that reads a rewritable sum in both slots (t * t) the second call '
               f're-optimises the unit the first call replaced, and live readers of the first replacement drop out of the definition', opt[0], so.module)
    # which _optimize_graph implementations reach DCE
    reach = {}
    for fi in repo.functions.values():
        if fi.name == '_optimize_graph' and fi.cls is not None:
            reach[fi.fq] = any(U.method_name(c) == '_perform_dead_code_elimination' for c in U.calls(fi.node))
    absout = repo.cls('sc3.synth.ugens.inout:AbstractOut')
    wfu = repo.cls('sc3.synth.ugen:WidthFirstUGen')
    pure = []
    for ci in repo.classes.values():
        if not repo.is_subclass(ci, so):
            continue
        og = repo.resolve_method(ci, '_optimize_graph')
        if og is None or not reach.get(og.fq):
            continue
        pure.append(ci)
        reasons = []
        if repo.is_subclass(ci, absout):
            reasons.append('is an output unit')
        if repo.is_subclass(ci, wfu):
            reasons.append('is a width-first (ordering side effect) unit')
        for mname in ('ar', 'kr', 'ir', 'dr', 'new'):
            m = repo.resolve_method(ci, mname)
            if m is not None and 'done_action' in [a.arg for a in m.node.args.args + m.node.args.kwonlyargs]:
                reasons.append(f'{mname} has a done_action parameter')
        if ci.name in SIDE_EFFECT_NAMES:
            reasons.append('is in the named side-effect list')
        ctx.ob('C01.dce', f'{ci.module.name}:{ci.qualname}:eliminable', not reasons,
               f'{ci.name} can be removed by dead-code elimination but {"; ".join(reasons)}', ci.node, ci.module)
    ctx.require(len(pure) >= 20, 'C01.dce', f'only {len(pure)} eliminable classes found')
    ctx.extra['eliminable_classes'] = sorted(c.name for c in pure)


def rule_const(ctx):
    ctx.rule('C01.const', 'numeric inputs reach the definition as the constants the source wrote: collected as float(input), looked up '
                          'by the same float, written once each; the table must not conflate values the server distinguishes')
    repo = ctx.repo
    sd = repo.cls('sc3.synth.synthdef:SynthDef')
    a = sd.methods['_add_constant']
    p = a.params[1]
    src = full(a.node)
    ok = f'if {p} not in self._constant_set: self._constant_set.add({p}) self._constants[{p}] = len(self._constants)' in src
    ctx.ob('C01.const', f'{a.fq}:dense-index', ok, 'a new constant gets the next index, an old one keeps its index', a.node, a.module)
    cc = repo.func('sc3.synth.ugen:SynthObject._collect_constants')
    ctx.ob('C01.const', f'{cc.fq}', 'if isinstance(input, (int, float)): self._synthdef._add_constant(float(input))' in full(cc.node),
           'every numeric input is collected as float', cc.node, cc.module)
    w = repo.func('sc3.synth._graphparam:UGenScalar._write_input_spec')
    ctx.ob('C01.const', f'{w.fq}', 'const_index = synthdef._constants[float(self._param_value)]' in full(w.node),
           'a numeric input is wired to the constant with the same float value', w.node, w.module)
    # float keys compare with ==: -0.0 and 0.0 share one entry (atan2(x, -0.0) is wired to +0.0 when 0.0 is also a constant)
    keyed_by_value = f'self._constants[{p}]' in src and 'copysign' not in src and 'pack(' not in src
    ctx.ob('C01.const', f'{a.fq}:signed-zero', not keyed_by_value,
           'the constants table is a dict keyed by the float value: -0.0 == 0.0, so a definition that uses both emits only the one seen '
           'first and wires the other input to it (sign of zero lost; sclang\'s Dictionary does the same)', a.node, a.module)


def run(ctx):
    from ..report import SubCtx
    from . import c02
    sub_c02 = SubCtx(ctx, 'C01.topo', 'every unit of the graph reaches the emitted definition once: the topological sort and the ordering bookkeeping, as decided for C02')
    c02.rule_topo(sub_c02)
    c02.rule_order(sub_c02)
    rule_const(ctx)
    rule_opc(ctx)
    rule_sel(ctx)
    rule_rate(ctx)
    rule_ctor_args(ctx)
    rule_short(ctx)
    rule_opt(ctx)
    rule_transfer(ctx)
    rule_mix(ctx)
    rule_dce(ctx)
    ctx.assume('operator.X.__name__ == X and the scbuiltin decorators keep the kernel __name__ (checked in C15.wrap)')


MUTANTS = [
    dict(rule='C01.opt', name='Mix adds the rows of a leftover clump of two with a bare + (seed C01-m)', file='sc3/synth/ugens/mix.py',
         old="            else:\n                mixed_lst.append(utl.list_sum(item))\n",
         new="            elif length == 2:\n                mixed_lst.append(item[0] + item[1])\n            else:\n                mixed_lst.append(item[0])\n"),
    dict(rule='C01.opt', name='double negation removed, the operand inherits the reader set and forgets its own readers (seed C01-i)', file='sc3/synth/ugen.py',
         old="    def _optimize_graph(self):  # override\n        self._perform_dead_code_elimination()\n\n\nclass BinaryOpUGen(BasicOpUGen):",
         new="    def _optimize_graph(self):  # override\n        if self._perform_dead_code_elimination():\n            return\n        a = self.inputs[0]\n        if self.operator == 'neg' and isinstance(a, UnaryOpUGen) and a.operator == 'neg' and len(a._descendants) == 1:\n            replacement = a.inputs[0]\n            for ugen in self._descendants:\n                ugen._inputs = tuple(replacement if i is self else i for i in ugen.inputs)\n            self._synthdef._remove_ugen(a)\n            self._synthdef._remove_ugen(self)\n            if isinstance(replacement, OutputProxy):\n                replacement = replacement.source_ugen\n            replacement._descendants = self._descendants\n\n\nclass BinaryOpUGen(BasicOpUGen):"),
    dict(rule='C01.opt', name='the replacement becomes a reader only where self was one (seed C01-h)', file='sc3/synth/ugen.py',
         old="                input._descendants.add(replacement)\n                input._descendants.discard(self)\n",
         new="                if self in input._descendants:\n                    input._descendants.discard(self)\n                    input._descendants.add(replacement)\n"),
    dict(rule='C01.opt', name='the replacement of a sum is optimised before it is placed (seed C01-g)', file='sc3/synth/ugen.py',
         old="        if optimized_ugen:\n            self._synthdef._replace_ugen(self, optimized_ugen)", new="        if optimized_ugen:\n            optimized_ugen._optimize_graph()\n            self._synthdef._replace_ugen(self, optimized_ugen)"),
    dict(rule='C01.dce', name='dead code elimination visits a twice-read input twice (fix reverted)', file='sc3/synth/ugen.py',
         old="                if isinstance(input, UGen) and input._descendants\\\n                and not any(input is i for i in done):\n                    done.append(input)\n",
         new="                if isinstance(input, UGen) and input._descendants:\n"),
    dict(rule='C01.opt', name='_optimize_sub rewrites n - n (fix reverted)', file='sc3/synth/ugen.py',
         old="    def _optimize_sub(self):\n        a, b = self.inputs\n        if a is b:\n            return\n", new="    def _optimize_sub(self):\n        a, b = self.inputs\n"),
    dict(rule='C01.opt', name='muladd removes the product before knowing whether it can fuse', file='sc3/synth/ugen.py',
         old="        and len(a._descendants) == 1:\n\n            if MulAdd._can_be_muladd(a.inputs[0], a.inputs[1], b):\n                self._synthdef._remove_ugen(a)\n",
         new="        and len(a._descendants) == 1:\n            self._synthdef._remove_ugen(a)\n\n            if MulAdd._can_be_muladd(a.inputs[0], a.inputs[1], b):\n"),
    dict(rule='C01.opt', name='sum4 without the a is b guard', file='sc3/synth/ugen.py',
         old="        if a is b:  # Non optimizable edge case.\n            return None\n", new=""),
    dict(rule='C01.rate', name='MulAdd._init_ugen override removed (seed C03-d)', file='sc3/synth/ugen.py',
         old="    def _init_ugen(self, input, mul, add):  # override\n        self._inputs = (input, mul, add)\n        self._rate = gpp.ugen_param(self.inputs)._as_ugen_rate()\n        return self  # Must return self.\n\n", new=""),
    dict(rule='C01.dce', name='(fix reverted) DCE removes the edge with set.remove per input slot', file='sc3/synth/ugen.py',
         old="                    input._descendants.discard(self)", new="                    input._descendants.remove(self)"),
    dict(rule='C01.opc', name='swap two unary rows', file='sc3/synth/_specialindex.py',
         old="    ('midicps',),\n    ('cpsmidi',),", new="    ('cpsmidi',),\n    ('midicps',),"),
    dict(rule='C01.opc', name='delete a binary row', file='sc3/synth/_specialindex.py',
         old="    ('lcm',),\n", new=""),
    dict(rule='C01.opc', name='synonym moved to another row', file='sc3/synth/_specialindex.py',
         old="('bitOr', 'bitor', '__or__', '__ror__', 'or_')", new="('bitOr', 'bitor', '__or__', '__ror__', 'or_', 'xor')"),
    dict(rule='C01.sel', name='cpsmidi hands midicps', file='sc3/base/absobject.py',
         old="return self._compose_unop(bi.cpsmidi)", new="return self._compose_unop(bi.midicps)"),
    dict(rule='C01.sel', name='__rsub__ hands add', file='sc3/base/absobject.py',
         old="return self._rcompose_binop(operator.sub, other)", new="return self._rcompose_binop(operator.add, other)"),
    dict(rule='C01.rate', name='audio/control order swapped', file='sc3/synth/ugen.py',
         old="        if a_rate == 'audio': return 'audio'\n        if b_rate == 'audio': return 'audio'\n        if a_rate == 'control': return 'control'",
         new="        if a_rate == 'control': return 'control'\n        if a_rate == 'audio': return 'audio'\n        if b_rate == 'audio': return 'audio'"),
    dict(rule='C01.rate', name='list_min -> list_max', file='sc3/synth/_graphparam.py',
         old="return utl.list_min(\n                [ugen_param(item)._as_ugen_rate() or 'scalar'",
         new="return utl.list_max(\n                [ugen_param(item)._as_ugen_rate() or 'scalar'"),
    dict(rule='C01.ctor', name="kr passes 'audio'", file='sc3/synth/ugens/oscillators.py',
         old="return cls._multi_new('control', freq, feedback)", new="return cls._multi_new('audio', freq, feedback)"),
    dict(rule='C01.args', name='dropped argument', file='sc3/synth/ugens/oscillators.py',
         old="return cls._multi_new('audio', freq, feedback)", new="return cls._multi_new('audio', freq, freq)"),
    dict(rule='C01.args', name='kr sibling swaps arguments', file='sc3/synth/ugens/oscillators.py',
         old="return cls._multi_new('control', freq, feedback)", new="return cls._multi_new('control', feedback, freq)"),
    dict(rule='C01.short', name="'/' shortcut on wrong operand", file='sc3/synth/ugen.py',
         old="            if b_cmp == 1.0: return a\n            if b_cmp == -1.0: return -a  # neg\n        return super()",
         new="            if a_cmp == 1.0: return b\n            if b_cmp == -1.0: return -a  # neg\n        return super()"),
    dict(rule='C01.short', name="'-' shortcut loses sign", file='sc3/synth/ugen.py',
         old="            if a_cmp == 0.0: return -b  # neg\n            if b_cmp == 0.0: return a\n        elif selector == '/'",
         new="            if a_cmp == 0.0: return b\n            if b_cmp == 0.0: return a\n        elif selector == '/'"),
    dict(rule='C01.short', name='MulAdd minus case wrong', file='sc3/synth/ugen.py',
         old="if minus: return add - input", new="if minus: return input - add"),
    dict(rule='C01.short', name='Sum4 drops an operand', file='sc3/synth/ugen.py',
         old="return Sum3._new1(None, in0, in2, in3)", new="return Sum3._new1(None, in0, in2, in2)"),
    dict(rule='C01.opt', name='single-use guard deleted', file='sc3/synth/ugen.py',
         old="        if isinstance(b, BinaryOpUGen) and b.operator == '+'\\\n        and len(b._descendants) == 1:\n            self._synthdef._remove_ugen(b)\n            replacement = Sum3.new",
         new="        if isinstance(b, BinaryOpUGen) and b.operator == '+':\n            self._synthdef._remove_ugen(b)\n            replacement = Sum3.new"),
    dict(rule='C01.opt', name='Sum3 rewrite duplicates operand', file='sc3/synth/ugen.py',
         old="replacement = Sum3.new(a.inputs[0], a.inputs[1], b)", new="replacement = Sum3.new(a.inputs[0], b, b)"),
    dict(rule='C01.opt', name='addneg operands permuted', file='sc3/synth/ugen.py',
         old="replacement = BinaryOpUGen.new('-', a, b.inputs[0])", new="replacement = BinaryOpUGen.new('-', b.inputs[0], a)"),
    dict(rule='C01.opt', name='sub rewrite keeps minus', file='sc3/synth/ugen.py',
         old="replacement = BinaryOpUGen.new('+', a, b.inputs[0])", new="replacement = BinaryOpUGen.new('-', a, b.inputs[0])"),
    dict(rule='C01.opt', name='descendants not inherited', file='sc3/synth/ugen.py',
         old="            replacement = Sum4.new(b.inputs[0], b.inputs[1], b.inputs[2], a)\n            replacement._descendants = self._descendants\n",
         new="            replacement = Sum4.new(b.inputs[0], b.inputs[1], b.inputs[2], a)\n"),
    dict(rule='C01.dce', name='PureUGenMixin added to Out', file='sc3/synth/ugens/inout.py',
         old="class Out(AbstractOut):", new="class Out(ugn.PureUGenMixin, AbstractOut):"),
    dict(rule='C01.dce', name='PureUGenMixin added to Line', file='sc3/synth/ugens/line.py',
         old="class Line(ugn.UGen):", new="class Line(ugn.PureUGenMixin, ugn.UGen):"),
    dict(rule='C01.dce', name='DCE guard removed', file='sc3/synth/ugen.py',
         old="        if not self._descendants:\n            # for input in self._antecedents:  # ?",
         new="        if True:\n            # for input in self._antecedents:  # ?"),
]

REPAIRS = []

EQUIV = [
    dict(name='rename locals of _replace_ugen', file='sc3/synth/synthdef.py', start='    def _replace_ugen(self, a, b):', end='    def _add_constant(self, value):', rename=[('aux', 'lst'), ('item', 'unit')]),
]
