"""C07 - bundles are stamped with logical time plus latency; scores are ordered."""

import ast
import re
from fractions import Fraction

from ..loader import norm, full, walk_local, walk_local_ordered
from .. import util as U
from .c05 import phys_in, roots_of

EXPLANATION = (
    'The send instant of every outgoing message/bundle is traced to its source: send_msg, send_bundle and '
    'OscScore.add must read main.current_tt._seconds once and hand that same value to every nested builder; no '
    'function on the stamping path reads physical time. The RT and NRT timetag functions are extracted and compared '
    'with the documented rule (None/negative -> immediately or 0; otherwise time + send instant), and '
    'OscScore._get_logical_time must be the NRT timetag function minus the final unit conversion (the source says '
    'they must be kept in sync). Nested bundles must pass the sub-time check before recursion with the same send '
    'instant. The score must queue (time, length-prefixed encoding) and drain one ordered iteration into both the '
    'list and the raw form after appending the tail marker. The seconds<->timetag conversions must be inverse affine maps.')
LEVEL_TEXT = ('static: source of the send instant (taint), RT/NRT timetag decision lists, sibling agreement of '
              '_get_timetag and _get_logical_time, must-precede of the sub-time check, score queue/finish structure, '
              'constant agreement of the conversions. RT stamps under real jitter are not decided.')
LEVEL_NOTE = 'ordering within equal times is delegated to C09 (TaskQueue FIFO)'
LEVEL_TEXT_ADD = " Also: score read-out order (shared with C09.key), tail marker after the latest entry, caller's bundle list copied before it is rewritten."
LEVEL_TEXT_ADD += ' Rounds e-f: tail marker in a routine (known finding); the score queue keeps the priority-queue contract (shared with C09).'
LEVEL_TEXT_ADD += ' Round i: no interface overrides the nested-time rule or the element handling of the bundle encoder.'
LEVEL_TEXT = (globals().get('LEVEL_TEXT') or EXPLANATION) + LEVEL_TEXT_ADD
TECHNIQUE = 'static analysis: taint of the send instant + sibling normal-form comparison + structural checks of the score'


def rule_src(ctx):
    ctx.rule('C07.src', 'send_msg/send_bundle/OscScore.add read the send instant from main.current_tt._seconds once and '
                        'pass it to the builders; nested builders forward the same parameter; nothing on the stamping '
                        'path reads physical time')
    repo = ctx.repo
    for fq, builder in (('sc3.base._oscinterface:OscInterface.send_msg', '_build_msg'),
                        ('sc3.base._oscinterface:OscInterface.send_bundle', '_build_bundle'),
                        ('sc3.base._oscinterface:OscScore.add', '_build_bundle')):
        f = repo.func(fq)
        cs = [c for c in U.calls(f.node) if U.method_name(c) == builder]
        ctx.require(len(cs) == 1, 'C07.src', f'{fq}: builder call not found')
        r = roots_of(f.node, cs[0].args[0])
        ctx.ob('C07.src', f'{fq}:send-instant', r == {'LOGICAL'},
               f'send instant has roots {sorted(r)}; must be exactly the current thread\'s logical time', cs[0], f.module)
    for fq in ('sc3.base._oscinterface:OscInterface._build_msg', 'sc3.base._oscinterface:OscInterface._build_bundle',
               'sc3.base._oscinterface:OscScore._process_bndl_time'):
        f = repo.func(fq)
        st = f.params[1]
        for c in U.calls(f.node):
            if U.method_name(c) in ('_build_msg', '_build_bundle', '_get_timetag', '_process_bndl_time', '_get_logical_time'):
                ctx.ob('C07.src', f'{fq}:{U.method_name(c)}:same-instant', bool(c.args) and norm(c.args[0]) == st,
                       f'nested call {norm(c)[:60]} must receive the same send instant {st!r}', c, f.module)
    path = ['sc3.base._oscinterface:OscInterface.send_msg', 'sc3.base._oscinterface:OscInterface.send_bundle',
            'sc3.base._oscinterface:OscInterface._build_msg', 'sc3.base._oscinterface:OscInterface._build_bundle',
            'sc3.base._oscinterface:OscInterface._get_timetag', 'sc3.base._oscinterface:OscInterface._check_subtime',
            'sc3.base._oscinterface:OscNrtInterface.send_msg', 'sc3.base._oscinterface:OscNrtInterface.send_bundle',
            'sc3.base._oscinterface:OscNrtInterface._get_timetag', 'sc3.base._oscinterface:OscScore.add',
            'sc3.base._oscinterface:OscScore._process_bndl_time', 'sc3.base._oscinterface:OscScore._get_logical_time',
            'sc3.base._oscinterface:OscScore.finish', 'sc3.base.clock:SystemClock.elapsed_time_to_osc',
            'sc3.base.netaddr:NetAddr.send_msg', 'sc3.base.netaddr:NetAddr.send_bundle', 'sc3.base.netaddr:NetAddr.send_clumped_bundles']
    for fq in path:
        f = repo.func(fq)
        ctx.ob('C07.src', f'{fq}:no-physical-time', not phys_in(f.node),
               'a function on the stamping path reads physical time', f.node, f.module)
    # NetAddr forwards time unchanged
    f = repo.func('sc3.base.netaddr:NetAddr.send_bundle')
    ctx.ob('C07.src', f'{f.fq}:forward', full(f.node).endswith(f'self._osc_interface.send_bundle(self._target, {f.params[1]}, *{f.node.args.vararg.arg})'),
           'NetAddr.send_bundle forwards the latency unchanged', f.node, f.module)


def _strip_doc(body):
    return [s for s in body if not (isinstance(s, ast.Expr) and isinstance(s.value, ast.Constant))]


def rule_tag(ctx):
    ctx.rule('C07.tag', 'RT: None/negative -> IMMEDIATELY else elapsed_time_to_osc(time + send_time); NRT: clamp to 0, add '
                        'send_time only inside routines, scale by _SECONDS_TO_OSC; _get_logical_time == NRT _get_timetag '
                        'without the final conversion')
    repo = ctx.repo
    f = repo.func('sc3.base._oscinterface:OscInterface._get_timetag')
    st, t = f.params[0], f.params[1]
    b = _strip_doc(f.node.body)
    ok = len(b) == 1 and isinstance(b[0], ast.If) and norm(b[0].test) == f'{t} is None or {t} < 0.0' and \
        [norm(s) for s in b[0].body] == ['return oli.IMMEDIATELY'] and \
        [norm(s) for s in b[0].orelse] == [f'{t} += {st}', f'return clk.SystemClock.elapsed_time_to_osc({t})']
    ctx.ob('C07.tag', f'{f.fq}:rule', ok, 'RT timetag = immediately for None/negative latency, else logical send instant + latency', f.node, f.module)
    g = repo.func('sc3.base._oscinterface:OscNrtInterface._get_timetag')
    h = repo.func('sc3.base._oscinterface:OscScore._get_logical_time')

    def normalise(fi, off):
        ps = [q for q in fi.params if q not in ('self', 'cls')]
        if len(ps) < 2:
            return ['<unexpected signature>']
        out = []
        for s in _strip_doc(fi.node.body):
            txt = norm(s)
            import re
            txt = re.sub(rf'\b{ps[0]}\b', 'SEND', txt)
            txt = re.sub(rf'\b{ps[1]}\b', 'TIME', txt)
            out.append(txt)
        return out
    gb = normalise(g, 0)
    hb = normalise(h, 1)
    want_pre = ['if TIME is None or TIME < 0.0: TIME = 0.0',
                'if _libsc3.main.current_tt is not _libsc3.main.main_tt: TIME += SEND']
    # either both spell the rule out, or the timetag is the logical time converted (one helper, no drift possible)
    delegated = len(gb) == 2 and re.fullmatch(r'TIME = (\w+\.)*_get_logical_time\((\w+, )?SEND, TIME\)', gb[0]) is not None
    ctx.ob('C07.tag', f'{g.fq}:rule', (gb[:-1] == want_pre or delegated) and gb[-1] == 'return int(TIME * clk.SystemClock._SECONDS_TO_OSC)',
           f'NRT timetag must clamp to 0, add the send instant inside routines only, and scale; found {gb}', g.node, g.module)
    ctx.ob('C07.tag', f'{h.fq}:in-sync', hb[:-1] == want_pre and hb[-1] == 'return TIME',
           f'_get_logical_time {hb} must be {want_pre} then `return TIME`: a negative latency means "now" (clamped before the send '
           f'instant is added), exactly as in _get_timetag {gb}', h.node, h.module)
    imm = repo.module('sc3.base._osclib').assigns.get('IMMEDIATELY')
    ctx.ob('C07.tag', 'sc3.base._osclib:IMMEDIATELY', U.literal(imm) == 1, 'OSC "immediately" timetag is 1', imm, repo.module('sc3.base._osclib'))
    # NRT send_msg -> bundle at current time
    s = repo.func('sc3.base._oscinterface:OscNrtInterface.send_msg')
    ctx.ob('C07.tag', f'{s.fq}', full(s.node).endswith(f'self.send_bundle({s.params[1]}, 0.0, list({s.node.args.vararg.arg}))'),
           'NRT messages are bundles at the current time', s.node, s.module)
    s = repo.func('sc3.base._oscinterface:OscNrtInterface.send_bundle')
    ctx.ob('C07.tag', f'{s.fq}', full(s.node).endswith(f'self._osc_score.add([{s.params[2]}, *{s.node.args.vararg.arg}])'),
           'NRT bundles go to the score with their latency', s.node, s.module)


def rule_nest(ctx):
    ctx.rule('C07.nest', 'every nested bundle passes _check_subtime(parent, child) before recursion; _check_subtime '
                         'refuses children earlier than the parent; _process_bndl_time classifies like _build_bundle')
    repo = ctx.repo
    f = repo.func('sc3.base._oscinterface:OscInterface._build_bundle')
    al = f.params[2]
    loop = [s for s in f.node.body if isinstance(s, ast.For)]
    ctx.require(len(loop) == 1, 'C07.nest', '_build_bundle loop vanished')
    v = norm(loop[0].target)
    node = loop[0].body[0]
    branches = []
    while isinstance(node, ast.If):
        branches.append((norm(node.test), [norm(s) for s in node.body]))
        if len(node.orelse) == 1 and isinstance(node.orelse[0], ast.If):
            node = node.orelse[0]
        else:
            branches.append(('else', [norm(s)[:16] for s in node.orelse]))
            break
    st = f.params[1]
    want = [(f'isinstance({v}[0], str)', [f'bndl_builder.add_content(self._build_msg({st}, {v}))']),
            (f'isinstance({v}[0], (int, float, type(None)))', [f'self._check_subtime({al}[0], {v}[0])',
                                                              f'bndl_builder.add_content(self._build_bundle({st}, {v}))']),
            ('else', ['raise ValueError'])]
    ctx.ob('C07.nest', f'{f.fq}:elements', branches == want, f'element handling must be {want}; found {branches}', loop[0], f.module)
    first = [norm(s) for s in _strip_doc(f.node.body)][:2]
    ctx.ob('C07.nest', f'{f.fq}:timetag', first == [f'timetag = self._get_timetag({st}, {al}[0])', 'bndl_builder = oli.OscBundleBuilder(timetag)'],
           'the bundle is stamped from its own latency and the shared send instant', f.node, f.module)
    c = repo.func('sc3.base._oscinterface:OscInterface._check_subtime')
    t, sub = c.params[0], c.params[1]
    b = [norm(s) for s in _strip_doc(c.node.body)]
    ok = b == [f'if {t} is None or {t} < 0.0: return', f"if {sub} is None or {t} > {sub}: raise ValueError('nested bundle time must be >= enclosing bundle time')"]
    ctx.ob('C07.nest', f'{c.fq}', ok, f'sub-time rule must refuse None or earlier children of a timed parent; found {b}', c.node, c.module)
    # rt and nrt refuse the same nested bundles because they run the same code: no interface overrides the encoder's bundle methods
    base = repo.cls('sc3.base._oscinterface:OscInterface')
    subs = [k for k in repo.classes.values() if k is not base and base in repo.mro(k)]
    ctx.require(len(subs) >= 3, 'C07.nest', f'only {len(subs)} interface classes found')
    for k in sorted(subs, key=lambda k: k.fq):
        for mname in ('_check_subtime', '_build_bundle', '_build_msg'):
            r = repo.resolve_method(k, mname)
            ctx.ob('C07.nest', f'{k.fq}.{mname}:not-overridden', r is not None and r.fq == f'{base.fq}.{mname}',
                   f'{k.name} resolves {mname} to {r.fq if r else None}: the nested-time rule and the element handling must be the ones of '
                   f'OscInterface for every transport, a variant that accepts what the other refuses lets a nested bundle precede its parent '
                   f'in one mode only', (r.node if r else k.node), k.module)
    p = repo.func('sc3.base._oscinterface:OscScore._process_bndl_time')
    src = full(p.node)
    ok = 'if isinstance(element[0], (int, float, type(None))): bndl[i] = self._process_bndl_time(' in src and \
        'elif not isinstance(element[0], str): raise ValueError' in src and \
        f'bndl[0] = self._get_logical_time({p.params[1]}, bndl[0])' in src
    ctx.ob('C07.nest', f'{p.fq}', ok, 'score times are processed with the same element classification as the encoder', p.node, p.module)
    # every place where the encoder stamps a bundle has a counterpart in the list processor: directly nested bundles
    # (_build_bundle recursion) and bundles embedded in a message as completion blobs (_build_msg -> _build_bundle)
    bm = repo.func('sc3.base._oscinterface:OscInterface._build_msg')
    enc_embedded = any(U.method_name(c) == '_build_bundle' for c in U.calls(bm.node))
    lst_embedded = any(isinstance(x, ast.If) and 'str' in norm(x.test) and any(U.method_name(c) in ('_process_bndl_time', '_process_msg_time')
                       for c in U.calls(ast.Module(body=x.body, type_ignores=[]))) for x in walk_local(p.node))
    ctx.ob('C07.nest', f'{p.fq}:embedded-bundles', not enc_embedded or lst_embedded,
           'the encoder stamps a bundle embedded in a message (completion bundle) with send instant + latency; the list form leaves its '
           'relative latency untouched, so score.list and score.raw disagree for it', p.node, p.module)
    # the list handed in by the caller is copied before any element or time is replaced (a list sent twice is stamped twice
    # relative to its own send instants, not relative to the previous result)
    bp = p.params[2]
    ss = [x for x in walk_local_ordered(p.node) if isinstance(x, ast.stmt)]
    i_copy = next((i for i, x in enumerate(ss) if norm(x) in (f'{bp} = {bp}[:]', f'{bp} = list({bp})', f'{bp} = {bp}.copy()')), None)
    writes = [i for i, x in enumerate(ss) if isinstance(x, ast.Assign) and any(isinstance(t, ast.Subscript) and norm(t.value) == bp for t in x.targets)]
    ctx.ob('C07.nest', f'{p.fq}:copy-before-write', i_copy is not None and bool(writes) and all(i_copy < w for w in writes),
           f'{bp}[...] is assigned at statements {writes} but the copy is at {i_copy}: the caller\'s list is rewritten', p.node, p.module)


def rule_score(ctx):
    ctx.rule('C07.score', 'add() refuses after finish, queues (logical time, size-prefixed encoding); finish() appends the '
                          'tail marker, then one ordered iteration of the queue fills both list and raw')
    repo = ctx.repo
    a = repo.func('sc3.base._oscinterface:OscScore.add')
    src = full(a.node)
    b = [norm(s) for s in _strip_doc(a.node.body)]
    ok = b[0].startswith('if self._finished: raise ')
    ctx.ob('C07.score', f'{a.fq}:closed', ok, 'adding to a finished score is refused', a.node, a.module)
    ok = "msg = msg.size.to_bytes(4, 'big') + msg.dgram" in src
    ctx.ob('C07.score', f'{a.fq}:length-prefix', ok, 'each entry is the 4-byte big-endian size followed by the bundle bytes', a.node, a.module)
    ok = 'self._scoreq.add(bndl[0], type(self)._Entry(bndl, msg))' in src and \
        U.before(src, 'bndl = self._process_bndl_time(', 'self._scoreq.add(bndl[0]')
    ctx.ob('C07.score', f'{a.fq}:queued-time', ok, 'the entry is queued at its processed logical time', a.node, a.module)
    # every add() must create a distinct queue item: TaskQueue treats an equal item as a re-insertion (the earlier one is removed)
    ctor = None
    for c in U.calls(a.node):
        if U.method_name(c) == 'add' and norm(c.func.value) == 'self._scoreq' and len(c.args) == 2 and isinstance(c.args[1], ast.Call):
            ctor = c.args[1]
    ctx.ob('C07.score', f'{a.fq}:fresh-entry', ctor is not None, 'each bundle is queued as a freshly constructed entry', a.node, a.module)
    if ctor is not None:
        cname = norm(ctor.func).split('.')[-1]
        cands = [ci for ci in repo.classes.values() if ci.name == cname and ci.module is a.module]
        for ci in cands:
            over = [m for c_ in repo.mro(ci) for m in ('__eq__', '__hash__') if m in c_.methods]
            ctx.ob('C07.score', f'{ci.fq}:identity-semantics', not over,
                   f'{ci.qualname} defines {over}: two bundles that compare equal (same time and bytes) count as one queue item, so the second '
                   f'add() removes the first: the score drops a bundle and reorders equal-time sends', ci.node, ci.module)
    # the score's order is the queue's iteration order: shared clause with C09.key
    from .c09 import iter_ordered
    it, ok = iter_ordered(repo)
    ctx.ob('C07.score', f'{it.fq}:score-order', ok, 'the score is read out by iterating the queue, which must yield entries by '
                                                    '(time, insertion count): equal-time bundles stay in send order', it.node, it.module)
    f = repo.func('sc3.base._oscinterface:OscScore.finish')
    body = _strip_doc(f.node.body)
    loops = [s for s in body if isinstance(s, ast.For)]
    ok = len(loops) == 1 and norm(loops[0].iter) == 'self._scoreq'
    ctx.ob('C07.score', f'{f.fq}:single-iteration', ok, 'exactly one iteration of the time-ordered queue', f.node, f.module)
    if loops:
        lb = [norm(s) for s in loops[0].body]
        ev_ = norm(loops[0].target.elts[1]) if isinstance(loops[0].target, ast.Tuple) else '?'
        ctx.ob('C07.score', f'{f.fq}:both-forms', lb == [f'self._lst_score.append({ev_}.bndl)', f'self._raw_score.extend({ev_}.msg)'],
               f'list and raw forms are filled from the same entry in the same iteration; found {lb}', loops[0], f.module)
        i_tail = next((i for i, s in enumerate(body) if isinstance(s, ast.Expr) and "['/c_set', 0, 0]" in norm(s) and 'self.add(' in norm(s)), -1)
        i_loop = body.index(loops[0])
        i_fin = next((i for i, s in enumerate(body) if norm(s) == 'self._finished = True'), -1)
        ctx.ob('C07.score', f'{f.fq}:tail-then-drain', 0 <= i_tail < i_loop < i_fin,
               'tail marker is added before draining; the score is closed afterwards', f.node, f.module)
    ok = norm(body[0]) == 'if self._finished: return'
    ctx.ob('C07.score', f'{f.fq}:idempotent', ok, 'finishing twice does nothing', f.node, f.module)
    src = full(f.node)
    ok = U.before(src, 'if _libsc3.main.current_tt is _libsc3.main.main_tt:', 'last = _libsc3.main.current_tt._seconds',
                  'if not self._scoreq.empty(): last = max(last, self._scoreq.peek(False)[0])', 'tailtime += last', 'self.add([tailtime,')
    ctx.ob('C07.score', f'{f.fq}:tail-time', ok,
           'the tail is counted from the later of the final logical time and the latest queued bundle: a bundle sent with latency lies '
           'after the last wake-up, and the marker must still be the last entry', f.node, f.module)
    mains = [x for x in walk_local(f.node) if isinstance(x, ast.If) and norm(x.test) == '_libsc3.main.current_tt is _libsc3.main.main_tt']
    both = False
    if len(mains) == 1:
        inside = any('peek(False)' in norm(x) for x in mains[0].body)
        other = any('peek(False)' in norm(x) for x in mains[0].orelse) or any(
            'peek(False)' in norm(x) for x in body if x is not mains[0] and not isinstance(x, ast.For))
        both = other or not inside
    ctx.ob('C07.score', f'{f.fq}:tail-time-in-routine', both,
           'finish() called from inside a routine stamps the marker at the routine\'s logical time + tailtime; the maximum with the latest '
           'queued bundle is taken on the main-thread branch only, so a bundle sent earlier with a latency follows the marker', f.node, f.module)
    d = repo.func('sc3.base._oscinterface:OscScore.duration')
    ctx.ob('C07.score', f'{d.fq}', 'return self._scoreq.peek(False)[0] * clk.SystemClock._OSC_TO_SECONDS' in full(d.node) or
           'return self._scoreq.peek(False)[0]' in full(d.node), 'duration is the latest queued time', d.node, d.module)
    p = repo.func('sc3.base.main:NrtMain.process')
    src = full(p.node)
    ok = U.before(src, 'cls._clock_scheduler.run()', 'cls._osc_interface._osc_score.finish(tailtime)')
    ctx.ob('C07.score', f'{p.fq}', ok, 'all scheduled tasks run before the score is closed', p.node, p.module)


def _const_val(node, env):
    if isinstance(node, ast.Constant) and isinstance(node.value, (int, float)):
        return Fraction(node.value)
    if isinstance(node, ast.BinOp):
        l, r = _const_val(node.left, env), _const_val(node.right, env)
        if l is None or r is None:
            return None
        if isinstance(node.op, ast.Div):
            return l / r
        if isinstance(node.op, ast.Mult):
            return l * r
        if isinstance(node.op, ast.Pow):
            return l ** int(r)
        if isinstance(node.op, ast.Add):
            return l + r
        if isinstance(node.op, ast.Sub):
            return l - r
    if isinstance(node, ast.Call) and norm(node.func) == 'pow' and len(node.args) == 2:
        a, b = _const_val(node.args[0], env), _const_val(node.args[1], env)
        if a is not None and b is not None:
            return a ** int(b)
    if isinstance(node, ast.Name) and node.id in env:
        return env[node.id]
    return None


def rule_conv(ctx):
    ctx.rule('C07.conv', 'elapsed_time_to_osc and osc_to_elapsed_time are inverse affine maps: same offset, reciprocal '
                         'scale constants (2**32), NTP epoch offset 2208988800')
    sc = ctx.repo.cls('sc3.base.clock:SystemClock')
    env = {}
    for k, v in sc.class_assigns.items():
        val = _const_val(v, env)
        if val is not None:
            env[k] = val
    s2o, o2s = env.get('_SECONDS_TO_OSC'), env.get('_OSC_TO_SECONDS')
    ctx.ob('C07.conv', f'{sc.fq}:scale', s2o == Fraction(2) ** 32 and o2s is not None and s2o * o2s == 1,
           f'_SECONDS_TO_OSC={s2o} and _OSC_TO_SECONDS={o2s} must be 2**32 and its reciprocal', sc.node, sc.module)
    ctx.ob('C07.conv', f'{sc.fq}:epoch', env.get('_SECONDS_FROM_1900_TO_1970') == 2208988800, 'NTP epoch offset', sc.node, sc.module)
    a = sc.methods['elapsed_time_to_osc']
    b = sc.methods['osc_to_elapsed_time']
    ctx.ob('C07.conv', f'{a.fq}', full(a.node).endswith(f'return int({a.params[1]} * cls._SECONDS_TO_OSC) + cls._elapsed_osc_offset'),
           'seconds -> timetag is scale then offset', a.node, a.module)
    ctx.ob('C07.conv', f'{b.fq}', full(b.node).endswith(f'return float({b.params[1]} - cls._elapsed_osc_offset) * cls._OSC_TO_SECONDS'),
           'timetag -> seconds removes the same offset then scales back', b.node, b.module)
    i = sc.methods['_sched_init']
    src = full(i.node)
    ok = 'offset = _libsc3.main._init_time + cls._SECONDS_FROM_1900_TO_1970' in src and \
        'cls._elapsed_osc_offset = int(offset * cls._SECONDS_TO_OSC)' in src
    ctx.ob('C07.conv', f'{i.fq}', ok, 'offset = (start instant + NTP epoch) in timetag units', i.node, i.module)
    h = ctx.repo.func('sc3.base._oscinterface:OscInterface._handle_request')
    src = full(h.node)
    ok = 'if timed_msg.time is None or timed_msg.time == oli.IMMEDIATELY: time = elapsed_time else: time = clk.SystemClock.osc_to_elapsed_time(timed_msg.time)' in src
    ctx.ob('C07.conv', f'{h.fq}:incoming-time', ok, 'incoming timetags are converted with the inverse map; untimed messages get the arrival time', h.node, h.module)


def run(ctx):
    from ..report import SubCtx
    from . import c09
    sub = SubCtx(ctx, 'C07.queue', 'the score is a task queue: its order, its latest entry (the tail marker) and its iteration rest on the priority-queue contract decided for C09')
    c09.rule_inv(sub)
    c09.rule_key(sub)
    rule_src(ctx)
    rule_tag(ctx)
    rule_nest(ctx)
    rule_score(ctx)
    rule_conv(ctx)


MUTANTS = [
    dict(rule='C07.nest', name='the nrt interface accepts None or negative nested times under a timed parent (seed C07-i)', file='sc3/base/_oscinterface.py',
         old="        return int(time * clk.SystemClock._SECONDS_TO_OSC)\n\n    def _send(self, msg, target):\n        pass\n",
         new="        return int(time * clk.SystemClock._SECONDS_TO_OSC)\n\n    @staticmethod\n    def _check_subtime(time, subtime):  # override\n        if subtime is None or subtime < 0.0:\n            return\n        OscInterface._check_subtime(time, subtime)\n\n    def _send(self, msg, target):\n        pass\n"),
    dict(rule='C07.nest', name='(fix reverted) a negative parent latency is compared with the child', file='sc3/base/_oscinterface.py',
         old="        if time is None or time < 0.0:\n            return  # Immediately, nothing can be before.", new="        if time is None:\n            return"),
    dict(rule='C07.nest', name='(fix reverted) score rewrites the nested bundles of the caller', file='sc3/base/_oscinterface.py',
         edits=[('sc3/base/_oscinterface.py', "        bndl = bndl[:]  # Don't change the list of the caller.\n", ""),
                ('sc3/base/_oscinterface.py', "                    f'OSC messages or bundles: {element}')\n        bndl[0] = self._get_logical_time", "                    f'OSC messages or bundles: {element}')\n        bndl = bndl[:]\n        bndl[0] = self._get_logical_time")]),
    dict(rule='C07.score', name='(fix reverted) tail marker counted from the last wake-up only', file='sc3/base/_oscinterface.py',
         old="            if not self._scoreq.empty():\n                last = max(last, self._scoreq.peek(False)[0])\n", new=""),
    dict(rule='C07.tag', name='NRT negative latency clamped after adding the send instant (seed C07-c)', file='sc3/base/_oscinterface.py',
         old="        # Changes in this method must be synced with it, or refactored.\n        if time is None or time < 0.0:\n            time = 0.0\n        if _libsc3.main.current_tt is not _libsc3.main.main_tt:\n            time += send_time\n        return time",
         new="        if time is None:\n            time = 0.0\n        if _libsc3.main.current_tt is not _libsc3.main.main_tt:\n            time += send_time\n        return max(time, 0.0)"),
    dict(rule='C07.src', name='send instant from physical time', file='sc3/base/_oscinterface.py',
         old="        send_time = _libsc3.main.current_tt._seconds\n        self._send(self._build_bundle(send_time, [time, *elements]), target)",
         new="        send_time = _libsc3.main.elapsed_time()\n        self._send(self._build_bundle(send_time, [time, *elements]), target)"),
    dict(rule='C07.src', name='nested bundle stamped with 0.0', file='sc3/base/_oscinterface.py',
         old="bndl_builder.add_content(self._build_bundle(send_time, arg))", new="bndl_builder.add_content(self._build_bundle(0.0, arg))"),
    dict(rule='C07.src', name='completion message re-reads time', file='sc3/base/_oscinterface.py',
         old="                        self._build_bundle(send_time, arg).dgram)", new="                        self._build_bundle(_libsc3.main.current_tt._seconds, arg).dgram)"),
    dict(rule='C07.tag', name='latency not added', file='sc3/base/_oscinterface.py',
         old="            time += send_time\n            return clk.SystemClock.elapsed_time_to_osc(time)", new="            return clk.SystemClock.elapsed_time_to_osc(send_time)"),
    dict(rule='C07.tag', name='_get_logical_time drifts', file='sc3/base/_oscinterface.py',
         old="        if _libsc3.main.current_tt is not _libsc3.main.main_tt:\n            time += send_time\n        return time",
         new="        time += send_time\n        return time"),
    dict(rule='C07.tag', name='negative latency not immediate', file='sc3/base/_oscinterface.py',
         old="        if time is None or time < 0.0:\n            return oli.IMMEDIATELY", new="        if time is None:\n            return oli.IMMEDIATELY"),
    dict(rule='C07.nest', name='sub-time check deleted', file='sc3/base/_oscinterface.py',
         old="                self._check_subtime(arg_list[0], arg[0])\n", new=""),
    dict(rule='C07.nest', name='sub-time comparison inverted', file='sc3/base/_oscinterface.py',
         old="if subtime is None or time > subtime:", new="if subtime is None or time < subtime:"),
    dict(rule='C07.score', name='queue iterated twice', file='sc3/base/_oscinterface.py',
         old="        for _, entry in self._scoreq:\n            self._lst_score.append(entry.bndl)\n            self._raw_score.extend(entry.msg)",
         new="        for _, entry in self._scoreq:\n            self._lst_score.append(entry.bndl)\n        for _, entry in self._scoreq:\n            self._raw_score.extend(entry.msg)"),
    dict(rule='C07.score', name='raw form without length prefix', file='sc3/base/_oscinterface.py',
         old="msg = msg.size.to_bytes(4, 'big') + msg.dgram", new="msg = msg.dgram"),
    dict(rule='C07.score', name='queued at unprocessed time', file='sc3/base/_oscinterface.py',
         old="        bndl = self._process_bndl_time(send_time, bndl)\n        self._scoreq.add(bndl[0]", new="        self._scoreq.add(bndl[0]"),
    dict(rule='C07.conv', name='reciprocal constant wrong', file='sc3/base/clock.py',
         old="_OSC_TO_SECONDS = 1 / pow(2, 32)", new="_OSC_TO_SECONDS = 1 / pow(2, 31)"),
    dict(rule='C07.conv', name='offset sign flipped in inverse', file='sc3/base/clock.py',
         old="return float(osctime - cls._elapsed_osc_offset) * cls._OSC_TO_SECONDS", new="return float(osctime + cls._elapsed_osc_offset) * cls._OSC_TO_SECONDS"),
    dict(rule='C07.score', name='score entries compare by value', file='sc3/base/_oscinterface.py',
         old="            self.msg = msg\n            # *** NOTE: May need to define __eq__ and __hash__ for TaskQueue.\n",
         new="            self.msg = msg\n\n        def __eq__(self, other):\n            return self.msg == other.msg\n\n        def __hash__(self):\n            return hash(self.msg)\n"),
]

REPAIRS = []

EQUIV = [
    dict(name='NRT timetag delegates to the (unchanged) logical time helper', file='sc3/base/_oscinterface.py',
         old="        # Changes in this method must be synced with OscScore._get_logical_time.\n        if time is None or time < 0.0:\n            time = 0.0  # IMMEDIATELY is not needed in nrt.\n        # In NRT bundle's time generated outside a routine is\n        # always absolute time (from zero as reference time).\n        if _libsc3.main.current_tt is not _libsc3.main.main_tt:\n            time += send_time\n        return int(",
         new="        time = OscScore._get_logical_time(None, send_time, time)\n        return int("),
    dict(name='rename loop variable of OscScore.finish', file='sc3/base/_oscinterface.py', start='    def finish(self, tailtime=0.0):', end='    def write(self, path):', rename=[('entry', 'item')]),
]
