"""C17 - client objects speak the server command protocol and keep ids consistent."""

import ast
import re
import json
import os

from ..loader import norm, full, walk_local, walk_local_ordered, qualname_of
from .. import util as U
from ..flow import enumerate_paths

EXPLANATION = (
    'Every server command constructed in the client-side objects - the first argument of send_msg(...) calls and every '
    'list literal headed by a "/command" string that is not a reply template - is looked up in a table written from the '
    'SuperCollider Server Command Reference and its argument count checked against the command\'s fixed and variadic '
    'arity. In every id-owning class (Buffer, AudioBus, ControlBus) a test `self.<id> is None` must end the path; '
    'constructors allocate from, and free() releases to, the same allocator; free() builds the free command before it '
    'clears the id it mentions; a loop that emits one command per id of a block iterates exactly '
    '[address, address + size); BundleNetAddr.__exit__ restores the server address unconditionally and sends only '
    'when no exception is propagating, and its send overrides only collect.')
LEVEL_TEXT = ('static table check of ~130 command constructions (name and arity), guard/ordering/pairing rules of the id life '
              'cycle, range rule for per-id loops, structure of the bundle-collecting proxy. Argument types and values are not decided.')
LEVEL_NOTE = 'command table (scverif/refs/server_cmds.json) is the external oracle'
LEVEL_TEXT_ADD = ' Also: or-default rule over node/buffer/bus/server (ids and targets defaulted only when None), argument roles of the file commands, dict/sequence embed agreement, completion message evaluated before any state change in Buffer.free.'
LEVEL_TEXT_ADD += ' Rounds e-f: bind/sync/split order, convenience constructors, mapn/setn/fill argument forms, refuses-freed census over Buffer, free_all marks objects freed, every hand-written /b_free releases the number, clumping (shared with C06).'
LEVEL_TEXT_ADD += ' Rounds g-h: per-id loop of free_all, Buffer.setn spreads tuples like Node.setn. Round i: Node.free sends whenever it is asked to.'
LEVEL_TEXT = (globals().get('LEVEL_TEXT') or EXPLANATION) + LEVEL_TEXT_ADD
TECHNIQUE = 'static analysis: reference-table arity check of all command literals + path rules (guards, ordering) on id life cycles'

REFS = os.path.join(os.path.dirname(os.path.dirname(__file__)), 'refs')
CMD_FILES = ('sc3.synth.node', 'sc3.synth.buffer', 'sc3.synth.bus', 'sc3.synth.server', 'sc3.synth.synthdef', 'sc3.seq.event',
             'sc3.synth._volume', 'sc3.synth.recorder', 'sc3.synth._serverstatus', 'sc3.synth._nodewatcher', 'sc3.base.play',
             'sc3.base._oscinterface', 'sc3.base.netaddr', 'sc3.base.main')


def table():
    with open(os.path.join(REFS, 'server_cmds.json')) as f:
        return json.load(f)


def is_template(node):
    """a '/x' list used to *match* replies, not to be sent"""
    par = getattr(node, '_parent', None)
    if isinstance(par, ast.keyword) and par.arg in ('arg_template', 'template'):
        return True
    if isinstance(par, ast.Call) and any(a is node for a in par.args) and (norm(par.func).endswith('OscFunc') or
                                                                            norm(par.func).endswith('_gen_action_responder') or
                                                                            'matcher' in norm(par.func).lower()):
        return True
    if isinstance(par, ast.Assign) and any('template' in norm(t) for t in par.targets):
        return True
    return False


def rule_cmds(ctx):
    ctx.rule('C17.cmds', 'every command sent names a command of the Server Command Reference and passes a number of '
                         'arguments inside that command\'s range (starred tails count as variadic)')
    T = table()
    cmds, replies = T['commands'], set(T['replies'])
    n = 0
    seen = set()
    for mn in CMD_FILES:
        m = ctx.repo.modules.get(mn)
        if m is None:
            continue
        for node in ast.walk(m.tree):
            head = None
            args = None
            if isinstance(node, ast.Call) and isinstance(node.func, ast.Attribute) and node.func.attr == 'send_msg' and node.args \
                    and U.is_str(node.args[0]) and node.args[0].value.startswith('/'):
                head, args = node.args[0].value, node.args[1:]
            elif isinstance(node, ast.List) and node.elts and U.is_str(node.elts[0]) and node.elts[0].value.startswith('/') \
                    and len(node.elts[0].value) > 1:
                if is_template(node):
                    continue
                head, args = node.elts[0].value, node.elts[1:]
            if head is None:
                continue
            if head in replies:
                continue
            n += 1
            q = qualname_of(node)
            k = f'{m.name}:{q}:{head}:{norm(node)[:60]}'
            if k in seen:
                k += f'#{n}'
            seen.add(k)
            spec = cmds.get(head)
            if spec is None:
                ctx.ob('C17.cmds', k, False, f'{head} is not a command of the server command reference', node, m)
                continue
            fixed = [a for a in args if not isinstance(a, ast.Starred)]
            starred = [a for a in args if isinstance(a, ast.Starred)]
            lo, hi = spec['min'], spec.get('max')
            cnt = len(fixed)
            if starred:
                ok = spec.get('variadic', False) or (hi is not None and cnt <= hi)
                if hi is not None and not spec.get('variadic', False):
                    ok = cnt <= hi
                ok = ok and cnt >= spec.get('header', 0)
                why = f'{head} with {cnt} fixed argument(s) + starred tail; header needs {spec.get("header", 0)}, allowed {lo}..{hi if hi is not None else "n"}'
            else:
                ok = cnt >= lo and (spec.get('variadic', False) or hi is None or cnt <= hi)
                if spec.get('variadic') and spec.get('group') and cnt > lo:
                    ok = ok and (cnt - spec.get('group_from', lo)) % spec['group'] == 0
                why = f'{head} with {cnt} argument(s); allowed {lo}..{hi if hi is not None else "n"}' + \
                      (f' in groups of {spec["group"]} after the first {spec.get("group_from", lo)}' if spec.get('group') else '')
            ctx.ob('C17.cmds', k, ok, why, node, m)
            # argument roles of the file commands (mixed int/bool arguments that the arity check cannot tell apart)
            roles = ROLES.get(head)
            if roles and not starred:
                for pos, (role, pat) in roles.items():
                    if pos < len(fixed):
                        a = norm(fixed[pos])
                        ctx.ob('C17.cmds', f'{k}:arg{pos}:{role}', re.fullmatch(pat, a) is not None,
                               f'{head} argument {pos} is the {role}; `{a}` does not look like one (expected /{pat}/): arguments out of order?', node, m)
    ctx.require(n >= 100, 'C17.cmds', f'only {n} command constructions found')
    # the dict and the sequence form of node arguments are flattened the same way: every key and value goes through
    # _embed_as_osc_arg (a list value becomes '[' ... ']'), never as a plain nested list
    gp = ctx.repo.module('sc3.synth._graphparam')
    for cname in ('NodeSequence', 'NodeDictionary'):
        f = gp.classes[cname].methods['_as_osc_arg_list']
        src = full(f.node)
        ok = '_embed_as_osc_arg(lst)' in src and src.endswith('return lst') and '_as_control_input()' not in src
        ctx.ob('C17.cmds', f'{f.fq}:embeds', ok,
               f'{cname}._as_osc_arg_list must embed each element with _embed_as_osc_arg: a list value left as a nested list is refused '
               f'by the encoder (Synth(name, {{"freq": [1, 2]}}))', f.node, gp)


NUMLIKE = r'(-?\d+|.*(frame|size|num|count).*)'
ROLES = {
    # /b_read bufnum path fileStartFrame numFrames bufStartFrame leaveOpen [completion]
    '/b_read': {2: ('file start frame', r'(0|.*start.*)'), 3: ('number of frames', NUMLIKE), 4: ('buffer start frame', r'(0|.*start.*)'),
                5: ('leave-open flag', r'(True|False|.*open.*)')},
    '/b_readChannel': {2: ('file start frame', r'(0|.*start.*)'), 3: ('number of frames', NUMLIKE), 4: ('buffer start frame', r'(0|.*start.*)'),
                       5: ('leave-open flag', r'(True|False|.*open.*)')},
    '/b_allocRead': {2: ('file start frame', r'(0|.*start.*)'), 3: ('number of frames', NUMLIKE)},
    '/b_write': {4: ('number of frames', NUMLIKE), 5: ('start frame', r'(0|.*start.*)'), 6: ('leave-open flag', r'(True|False|.*open.*)')},
}


ID_FIELDS = {'Buffer': '_bufnum', 'AudioBus': '_index', 'ControlBus': '_index', 'Bus': '_index'}


def rule_guard(ctx):
    ctx.rule('C17.guard', 'in Buffer/AudioBus/ControlBus every `if self.<id> is None:` ends the path (return/raise): a freed '
                          'object never emits a command mentioning a stale id')
    n = 0
    for cfq in ('sc3.synth.buffer:Buffer', 'sc3.synth.bus:Bus', 'sc3.synth.bus:AudioBus', 'sc3.synth.bus:ControlBus'):
        ci = ctx.repo.cls(cfq)
        idf = ID_FIELDS[ci.name]
        for name, f in sorted({**ci.methods, **{k + '.setter': v for k, v in ci.setters.items()}}.items()):
            for s in walk_local(f.node):
                if isinstance(s, ast.If) and norm(s.test) == f'self.{idf} is None':
                    n += 1
                    last = s.body[-1] if s.body else None
                    ends = isinstance(last, (ast.Return, ast.Raise))
                    # as_map-style: if/else that only chooses a value is fine when the whole statement is if/else returning/raising
                    ctx.ob('C17.guard', f'{f.fq}:if self.{idf} is None', ends,
                           f'{ci.name}.{name}: the freed-object guard logs and falls through: the method goes on to release '
                           f'and emit a command with id None' if not ends else 'guard ends the path', s, f.module)
    ctx.require(n >= 25, 'C17.guard', f'only {n} freed-object guards found')
    # census: every Buffer method that names its own number in a command (or hands it out as a node argument) starts by refusing a
    # freed buffer; None would be encoded as 0, a number the object does not own
    b = ctx.repo.cls('sc3.synth.buffer:Buffer')
    m_ = 0
    for name, f in sorted(b.methods.items()):
        if name in ('__init__', '__repr__', '_cache', '_uncache', 'free', '_as_ugen_input'):
            continue      # constructor (allocates), repr, cache bookkeeping, free (its own warn-and-return guard, checked above)
        uses = []
        for c in U.calls(f.node):
            if U.method_name(c) in ('send_msg', 'send_bundle') or (isinstance(c.func, ast.Attribute) and c.func.attr in ('send_msg', 'send_bundle')):
                if any(norm(x) in ('self._bufnum', 'self.bufnum') for a in c.args for x in ast.walk(a)):
                    uses.append(c)
        for l in walk_local(f.node):
            if isinstance(l, ast.List) and l.elts and isinstance(U.literal(l.elts[0]), str) and U.literal(l.elts[0]).startswith('/b_') and \
                    any(norm(x) in ('self._bufnum', 'self.bufnum') for x in ast.walk(l)) and \
                    not any(isinstance(p_, ast.keyword) and p_.arg == 'arg_template' for p_ in U.parent_chain(l)):   # a reply filter, not a command
                uses.append(l)
        if name == '_as_control_input':
            uses = [r for r in walk_local(f.node) if isinstance(r, ast.Return)]
        if not uses:
            continue
        m_ += 1
        first = min(u.lineno for u in uses)
        guard = [x for x in f.node.body if isinstance(x, ast.If) and x.lineno < first and
                 'self._bufnum is None' in ([norm(v) for v in x.test.values] if isinstance(x.test, ast.BoolOp) and isinstance(x.test.op, ast.Or) else [norm(x.test)])
                 and x.body and isinstance(x.body[-1], (ast.Raise, ast.Return))]
        ctx.ob('C17.guard', f'{f.fq}:refuses-freed', bool(guard),
               f'Buffer.{name} puts self._bufnum into a command without first refusing a freed buffer (most sibling methods raise '
               f'BufferAlreadyFreed): after free() the command names id None, sent as 0', f.node, f.module)
    ctx.require(m_ >= 20, 'C17.guard', f'only {m_} Buffer methods that name their number found')
    # ... and the number of another buffer handed in as a parameter (`p.bufnum` inside a command) is refused the same way when that
    # buffer has been freed
    k_ = 0
    for name, f in sorted(b.methods.items()):
        others = set()
        for c in U.calls(f.node):
            if isinstance(c.func, ast.Attribute) and c.func.attr in ('send_msg', 'send_bundle'):
                for a in c.args:
                    for x in ast.walk(a):
                        if isinstance(x, ast.Attribute) and x.attr in ('bufnum', '_bufnum') and isinstance(x.value, ast.Name) \
                                and x.value.id in f.params[1:]:
                            others.add((x.value.id, x.attr))
        for pn, at in sorted(others):
            k_ += 1
            tests = [norm(x.test) for x in f.node.body if isinstance(x, ast.If) and x.body and isinstance(x.body[-1], (ast.Raise, ast.Return))]
            ok = any(f'{pn}.bufnum is None' in t or f'{pn}._bufnum is None' in t for t in tests)
            ctx.ob('C17.guard', f'{f.fq}:{pn}:refuses-freed-other', ok,
                   f'Buffer.{name} puts {pn}.{at} into a command without refusing a freed {pn}: the command names id None, sent as 0', f.node, f.module)
    ctx.require(k_ >= 2, 'C17.guard', f'only {k_} uses of another buffer\'s number found')
    fa = b.methods['free_all']
    marks = [x for x in walk_local(fa.node) if isinstance(x, ast.Assign) and any(isinstance(t, ast.Attribute) and t.attr == '_bufnum' for t in x.targets)
             and isinstance(x.value, ast.Constant) and x.value.value is None]
    order_ok = bool(marks) and all(x.lineno < c.lineno for x in marks for c in U.calls(fa.node) if U.method_name(c) == '_clear_server_caches')
    ctx.ob('C17.guard', f'{fa.fq}:marks-freed', order_ok,
           'free_all releases every number of the server: the buffer objects it knows (the cache) must be marked freed before the cache is dropped, '
           'or a later free() on one of them releases a number that a newer buffer owns', fa.node, fa.module)


def rule_setn_count(ctx):
    ctx.rule('C17.cmds', 'every hand-built /b_setn names, after the start index, the number of values that follow: the count argument is '
                         'len() of the very sequence that is spread after it (a count taken from a size or a remainder lets the server '
                         'read surplus values as a further index/count group)')
    n = 0
    for f in sorted((x for x in ctx.repo.functions.values() if x.module.name == 'sc3.synth.buffer'), key=lambda x: x.fq):   # nested functions too
        for c in U.calls(f.node):
            if not (isinstance(c.func, ast.Attribute) and c.func.attr == 'send_msg' and c.args and U.literal(c.args[0]) == '/b_setn'):
                continue
            stars = [a for a in c.args if isinstance(a, ast.Starred)]
            if len(stars) != 1 or len(c.args) < 5 or c.args[-1] is not stars[0]:
                continue          # the pair-wise form of Buffer.setn builds its counts per pair (C17.cmds sequence-values)
            n += 1
            cnt, seq = norm(c.args[-2]), norm(stars[0].value)
            ctx.ob('C17.cmds', f'{f.fq}:/b_setn:count-is-len', cnt == f'len({seq})',
                   f'/b_setn is sent with count `{cnt}` followed by *{seq}: the count must be len({seq})', c, f.module)
    ctx.require(n >= 1, 'C17.cmds', 'no /b_setn with a spread value list found in Buffer')


def rule_node_free(ctx):
    ctx.rule('C17.pair', 'Node.free emits /n_free for its id whenever it is asked to send: the only condition is send_flag, nothing returns before '
                         '(a node object has no "freed" state of its own: group is None also for basic_new nodes and nodes placed next to them)')
    f = ctx.repo.func('sc3.synth.node:Node.free')
    sends = [c for c in U.calls(f.node) if U.method_name(c) == 'send_msg']      # the command name itself is decided in C17.cmds
    ctx.require(len(sends) == 1, 'C17.pair', f'Node.free: {len(sends)} sends found')
    sf = f.params[1] if len(f.params) > 1 else 'send_flag'
    tests = sorted({norm(p_.test) for p_ in U.parent_chain(sends[0]) if isinstance(p_, ast.If)})
    early = [norm(r)[:40] for r in walk_local(f.node) if isinstance(r, (ast.Return, ast.Raise)) and r.lineno < sends[0].lineno
             and not (lambda ts: ts and all(set(U.names_in(t)) <= {sf} for t in ts))([p_.test for p_ in U.parent_chain(r) if isinstance(p_, ast.If)])]
    ctx.ob('C17.pair', f'{f.fq}:sends-whenever-asked', set(tests) <= {sf} and not early,
           f'/n_free is sent only under {tests}, after possible exits {early}: nodes for which the extra condition fails (basic_new, replace, '
           f'before/after a grouped-less target) are never freed on the server', f.node, f.module)


def rule_pair(ctx):
    ctx.rule('C17.pair', 'constructor and free() use the same allocator attribute; free() builds/sends the free command '
                         'before clearing the id and clears it')
    repo = ctx.repo
    for cfq, idf in (('sc3.synth.bus:AudioBus', '_index'), ('sc3.synth.bus:ControlBus', '_index')):
        ci = repo.cls(cfq)
        init, fr = ci.methods['__init__'], ci.methods['free']
        a1 = {c.func.value.attr for c in U.calls(init.node) if U.method_name(c) == 'alloc' and isinstance(c.func.value, ast.Attribute)}
        a2 = {c.func.value.attr for c in U.calls(fr.node) if U.method_name(c) == 'free' and isinstance(c.func.value, ast.Attribute)}
        ctx.ob('C17.pair', f'{ci.fq}:allocator', len(a1) == 1 and a1 == a2, f'{ci.name} allocates from {sorted(a1)} and frees to {sorted(a2)}', fr.node, ci.module)
        src = full(fr.node)
        ok = U.before(str(src), f'_allocator.free(self.{idf})', f'self.{idf} = None')
        ctx.ob('C17.pair', f'{ci.fq}:release-before-clear', ok, 'the id is returned to the allocator before it is cleared, and it is cleared', fr.node, ci.module)
    b = repo.cls('sc3.synth.buffer:Buffer')
    fr = b.methods['free']
    src = full(fr.node)
    ok = U.before(src, "msg = ['/b_free', self._bufnum, fn.value(completion_msg, self)]", 'self._server._buffer_allocator.free(self._bufnum)',
                  'self._bufnum = ', 'self._server.addr.send_msg(*msg)')
    ctx.ob('C17.pair', f'{b.fq}:free-order', ok,
           'free first builds /b_free with the id and evaluates the completion message (user code that may raise, and that sees the '
           'intact buffer), then returns the id, clears the fields and sends exactly that message: an exception leaves everything as it was',
           fr.node, b.module)
    nb = repo.func('sc3.synth.server:Server._next_buffer_number')
    ctx.ob('C17.pair', f'{b.fq}:allocator', 'self._server._next_buffer_number(1)' in full(b.methods['__init__'].node) and
           'bufnum = self._buffer_allocator.alloc(n)' in full(nb.node), 'buffer numbers come from the allocator free() releases to', fr.node, b.module)
    sends = [c for c in U.calls(fr.node) if U.method_name(c) in ('send_msg', 'send_bundle')]
    ctx.ob('C17.pair', f'{b.fq}:free-once', len(sends) == 1, 'free emits exactly one command', fr.node, b.module)
    # census: every function that writes a /b_free command by hand also gives the number back to the buffer allocator
    k_ = 0
    for fi in repo.functions.values():
        if not fi.module.name.startswith('sc3.'):
            continue
        lits = [x for x in walk_local(fi.node) if isinstance(x, ast.Constant) and x.value == '/b_free']
        nested = [x for g in ast.walk(fi.node) if isinstance(g, ast.Lambda) for x in ast.walk(g) if isinstance(x, ast.Constant) and x.value == '/b_free']
        if not lits and not nested:
            continue
        k_ += 1
        rel = any(U.method_name(c) == 'free' and norm(c.func.value).endswith('_buffer_allocator') for c in U.calls(fi.node))
        ctx.ob('C17.pair', f'{fi.fq}:/b_free:releases-number', rel,
               f'{fi.qualname} emits /b_free by hand but never calls <server>._buffer_allocator.free(...): the server forgets the buffer, the '
               f'client keeps the number allocated for ever', fi.node, fi.module)
    ctx.require(k_ >= 3, 'C17.pair', f'only {k_} functions that write /b_free found')
    # node ids: every object that emits a creation command with its own id draws that id from the server allocator
    for fq in ('sc3.synth.node:Synth.__init__', 'sc3.synth.node:AbstractGroup.__init__', 'sc3.synth.node:Node.basic_new'):
        f = repo.try_func(fq)
        if f is None:
            continue
        src = full(f.node)
        ctx.ob('C17.pair', f'{fq}:node-id', '.server._next_node_id()' in src,
               'a new node takes a fresh id from the server allocator', f.node, f.module)
    sy = repo.func('sc3.synth.node:Synth.__init__')
    src = full(sy.node)
    ctx.ob('C17.pair', f'{sy.fq}:own-id', U.before(src, 'self.node_id = self.server._next_node_id()', "send_msg('/s_new', self.def_name, self.node_id,"),
           'the creation command carries the id just allocated for this object', sy.node, sy.module)
    ag = repo.func('sc3.synth.node:AbstractGroup.__init__')
    src = full(ag.node)
    ctx.ob('C17.pair', f'{ag.fq}:own-id', U.before(src, 'self.node_id = self.server._next_node_id()', 'self.server.addr.send_msg(self.creation_cmd(), self.node_id, add_action_id, target.node_id)'),
           'a group is created with its own fresh id, the add action and the target id (3 arguments)', ag.node, ag.module)
    T = table()['commands']
    for ci in repo.classes.values():
        if ci.module.name == 'sc3.synth.node' and 'creation_cmd' in ci.methods:
            f = ci.methods['creation_cmd']
            rets = [r for r in walk_local(f.node) if isinstance(r, ast.Return)]
            if len(rets) == 1 and isinstance(rets[0].value, ast.Constant) and isinstance(rets[0].value.value, str):
                cmd = rets[0].value.value
                ctx.ob('C17.pair', f'{f.fq}:{cmd}', cmd in T and T[cmd]['min'] == 3,
                       f'{ci.name} is created with {cmd!r}, which must be a group-creation command taking (id, add action, target)', f.node, ci.module)
            elif not (len(rets) == 0):
                ctx.ob('C17.pair', f'{f.fq}:literal', any(isinstance(x, ast.Raise) for x in walk_local(f.node)), 'creation command must be a literal (or abstract)', f.node, ci.module)
    nf = repo.func('sc3.synth.server:Server._next_node_id')
    ctx.ob('C17.pair', f'{nf.fq}', 'return self._node_allocator.alloc()' in full(nf.node), 'server node ids come from the node allocator', nf.node, nf.module)


def rule_range(ctx):
    ctx.rule('C17.range', 'a loop emitting one command per id of an allocated block iterates exactly range(address, address + size)')
    f = ctx.repo.func('sc3.synth.server:Server._free_all_buffers')
    loops = [s for s in walk_local(f.node) if isinstance(s, ast.For) and isinstance(s.iter, ast.Call) and norm(s.iter.func) == 'range']
    if len(loops) != 1:
        ctx.ob('C17.range', f'{f.fq}:per-id-loop', False,
               'a block of the buffer allocator covers `size` buffer numbers (new_consecutive): _free_all_buffers must emit one /b_free '
               'per number of every block, i.e. loop over range(address, address + size); no such loop is left', f.node, f.module)
        return
    it = loops[0].iter
    blk = None
    for p in U.parent_chain(loops[0]):
        if isinstance(p, ast.For):
            blk = norm(p.target)
            break
    ok = len(it.args) == 2 and norm(it.args[0]) in (f'{blk}.address', f'{blk}.start') and \
        norm(it.args[1]) in (f'{blk}.address + {blk}.size', f'{blk}.start + {blk}.size')
    ctx.ob('C17.range', f'{f.fq}:per-id-loop', ok,
           f'loop iterates {norm(it)}; a block of size n owns ids address .. address + n - 1, so the range must end at address + size '
           f'(otherwise the last id of every block, and every single buffer, is never freed)', loops[0], f.module)
    src = full(f.node)
    ctx.ob('C17.range', f'{f.fq}:release', f'self._buffer_allocator.free({blk}.address)' in src and 'self.addr.send_bundle(None, *bundle)' in src,
           'every block is released and all free commands go out', f.node, f.module)
    g = ctx.repo.func('sc3.synth.buffer:Buffer.new_consecutive')
    src = full(g.node)
    ctx.ob('C17.range', f'{g.fq}', 'for i in range(' in src and 'buf_base + i' in src, 'consecutive buffers use base + i for i in range(n)', g.node, g.module)


def rule_convenience(ctx):
    ctx.rule('C17.cmds', 'the convenience constructors head/tail/before/after/replace pass the add action of their name and their target at the '
                         'constructor\'s target position; _process_mn_args emits control, bus index, channel count triples in order')
    nm = ctx.repo.module('sc3.synth.node')
    node = ctx.repo.cls('sc3.synth.node:Node')
    table = U.literal(node.class_assigns.get('add_actions'))
    ctx.require(isinstance(table, dict) and len(table) >= 10, 'C17.cmds', 'Node.add_actions table not bound')
    n = 0
    for cname in ('AbstractGroup', 'Synth'):
        ci = ctx.repo.cls(f'sc3.synth.node:{cname}')
        init = ci.methods['__init__']
        for mn in ('head', 'tail', 'before', 'after', 'replace'):
            f = ci.methods.get(mn)
            if f is None:
                continue
            rets = [r for r in walk_local(f.node) if isinstance(r, ast.Return) and isinstance(r.value, ast.Call) and norm(r.value.func) == 'cls']
            if not rets:
                continue     # Synth.replace builds the command itself (covered by the command table)
            n += 1
            c = rets[-1].value
            bound = {}
            for i, a in enumerate(c.args):
                if i + 1 < len(init.params):
                    bound[init.params[i + 1]] = a
            for kw in c.keywords:
                bound[kw.arg] = kw.value
            act = U.literal(bound.get('add_action')) if bound.get('add_action') is not None else None
            ok = act in table and table[act] == table[mn] and bound.get('target') is not None and norm(bound['target']) == f.params[1]
            ctx.ob('C17.cmds', f'{f.fq}:add-action', ok,
                   f'{cname}.{mn} must construct with target={f.params[1]} and an add action equal to {mn!r} ({table[mn]}); '
                   f'found target={norm(bound["target"]) if bound.get("target") is not None else None}, add_action={act!r}', f.node, nm)
    ctx.require(n >= 9, 'C17.cmds', f'only {n} convenience constructors found')
    pm = node.methods['_process_mn_args']
    src = full(pm.node)
    tp = pm.params[0]
    ok = f'for control, bus in utl.gen_cclumps({tp}, 2):' in src and \
        'data.extend([gpp.node_param(control)._as_control_input(), bus, 1])' in src and \
        'data.extend([gpp.node_param(control)._as_control_input(), gpp.node_param(bus)._as_control_input(), bus.channels])' in src and src.endswith('return data')
    ctx.ob('C17.guard', f'{pm.fq}:bus-through-guard', 'bus.index' not in src and 'bus._index' not in src,
           'a bus object given to mapn/mapan goes through its _as_control_input (which refuses a freed bus), not through the bare index', pm.node, nm)
    sn = node.methods['setn']
    seqtests = [norm(x.test) for x in walk_local(sn.node) if isinstance(x, ast.If) and 'isinstance(' in norm(x.test)]
    ctx.ob('C17.cmds', f'{sn.fq}:sequence-values', any('tuple' in t and 'list' in t for t in seqtests),
           f'/n_setn takes control, count, values...: a tuple of values is counted and spread like a list (found tests {seqtests}; '
           f'the argument conversion keeps tuples)', sn.node, nm)
    bsn = ctx.repo.cls('sc3.synth.buffer:Buffer').methods['setn']
    seqb = [norm(x.test) for x in walk_local(bsn.node) if isinstance(x, ast.If) and 'isinstance(' in norm(x.test)]
    ctx.ob('C17.cmds', f'{bsn.fq}:sequence-values', any('tuple' in t and 'list' in t for t in seqb),
           f'/b_setn takes index, count, values...: Buffer.setn counts and spreads a tuple like a list, as Node.setn does (found tests {seqb})',
           bsn.node, bsn.module)
    fl = node.methods['fill']
    sends = [c for c in U.calls(fl.node) if U.method_name(c) == 'send_msg']
    raw = [norm(a) for c in sends for a in c.args[2:] if not isinstance(a, ast.Starred)]
    ctx.ob('C17.cmds', f'{fl.fq}:all-converted', len(sends) == 1 and not raw and '_as_control_input()' in norm(sends[0].args[-1]) if sends else False,
           f'every triple of /n_fill goes through the control-input conversion; passed raw: {raw}', fl.node, nm)
    ctx.ob('C17.cmds', f'{pm.fq}', ok, '/n_mapn arguments are (control, bus index, channel count) per pair, an int bus standing for one channel', pm.node, nm)


def rule_bind(ctx):
    ctx.rule('C17.bind', 'BundleNetAddr.__exit__ restores the server address unconditionally and sends only when exc_type is None; '
                         'send_msg/send_bundle/send_clumped_bundles of the proxy only collect, in order')
    ci = ctx.repo.cls('sc3.base.netaddr:BundleNetAddr')
    ex = ci.methods['__exit__']
    b = [norm(s) for s in U.body_nodoc(ex.node)]
    et = ex.params[1]
    ok = b == ['if self._server: self._server._addr = self._save_addr', f'if {et} is None and self._send: self._send_last_bundle()']
    ctx.ob('C17.bind', f'{ex.fq}', ok, f'__exit__ must restore first (unconditionally) and send only without exception; found {b}', ex.node, ci.module)
    en = ci.methods['__enter__']
    ctx.ob('C17.bind', f'{en.fq}', [norm(s) for s in U.body_nodoc(en.node)] == ['if self._server: self._server._addr = self', 'return self'],
           '__enter__ installs the proxy as the server address', en.node, ci.module)
    want = {'send_msg': 'self._bundle.append(list(args))', 'send_bundle': 'self._bundle.extend(list(elements))',
            'send_clumped_bundles': 'self._bundle.extend(list(elements))'}
    for mn, body in want.items():
        f = ci.methods[mn]
        bb = [norm(s) for s in U.body_nodoc(f.node)]
        ctx.ob('C17.bind', f'{f.fq}', bb == [body] and not any(U.method_name(c) in ('send_msg', 'send_bundle', '_send') and 'super' in norm(c) for c in U.calls(f.node)),
               f'{mn} of the proxy must only collect ({body}); found {bb}', f.node, ci.module)
    sl = ci.methods['_send_last_bundle']
    src = full(sl.node)
    ok = 'bundle = self._bundle[self._last_sync + 1:]' in src and 'if bundle: self._save_addr.send_clumped_bundles(time, *bundle)' in src
    ctx.ob('C17.bind', f'{sl.fq}', ok, 'the collected messages since the last sync are sent as one (clumped) bundle in issue order', sl.node, ci.module)
    # sync inside the block: what was collected so far goes out before the sync is awaited, and the marker's index is what
    # _send_last_bundle slices after (so nothing is sent twice and nothing is skipped)
    sy = ci.methods['sync']
    stm = [norm(x) for x in walk_local_ordered(sy.node) if isinstance(x, (ast.Expr, ast.Assign))]
    def pos(t):
        return next((i for i, x in enumerate(stm) if t in x), None)
    p_flush, p_wait, p_mark, p_app = pos('self._send_last_bundle()'), pos('yield from self._save_addr.sync('), pos('self._last_sync = len(self._bundle)'), \
        pos('self._bundle.append([self._SYNC_FLAG')
    ok = None not in (p_flush, p_wait, p_mark, p_app) and p_flush < p_wait < p_mark < p_app
    ctx.ob('C17.bind', f'{sy.fq}:flush-wait-mark', ok,
           f'sync must flush the collected commands, then await the real sync, then record the marker index and append the marker; found {stm}', sy.node, ci.module)
    sends = [x for x in walk_local(sy.node) if isinstance(x, ast.If) and norm(x.test) == 'self._send']
    ok = len(sends) == 1 and all(any(t in norm(y) for y in sends[0].body) for t in ('self._send_last_bundle()', 'self._save_addr.sync(')) and \
        not any('_last_sync' in norm(y) or '_bundle.append' in norm(y) for y in sends[0].body)
    ctx.ob('C17.bind', f'{sy.fq}:only-when-sending', ok, 'flush and real sync only for a sending proxy; the marker is recorded in both modes', sy.node, ci.module)
    sp = ci.methods['_split_bundles']
    loops = [x for x in walk_local(sp.node) if isinstance(x, ast.For)]
    ok = len(loops) == 1 and norm(loops[0].iter) == 'self._bundle' and 'curr.append(item)' in full(sp.node) and \
        full(sp.node).endswith('res.append(curr) return res') and f'curr = [{sp.params[1]}]' in full(sp.node)
    ctx.ob('C17.bind', f'{sp.fq}', ok, 'the collected commands are split at the sync markers in issue order, the first bundle carrying the given time, '
           'and the last open bundle is kept', sp.node, ci.module)
    gb = ci.methods['get_bundle']
    ok = f'return [{gb.params[1]}, *self._bundle]' in full(gb.node) and f'return self._split_bundles({gb.params[1]})' in full(gb.node)
    ctx.ob('C17.bind', f'{gb.fq}', ok, 'get_bundle returns time followed by every collected command in issue order (split at syncs)', gb.node, ci.module)
    bd = ctx.repo.func('sc3.synth.server:Server.bind')
    ctx.ob('C17.bind', f'{bd.fq}', full(bd.node).endswith('return nad.BundleNetAddr(self)'), 'bind returns the collecting proxy', bd.node, bd.module)


def run(ctx):
    from ..report import SubCtx
    from . import c16
    sub16 = SubCtx(ctx, 'C17.alloc', 'commands mention only ids the client has allocated, and freeing returns them: the allocators behind Bus, Buffer and node ids, as decided for C16')
    c16.rule_free(sub16)
    c16.rule_node(sub16)
    from . import c06
    sub = SubCtx(ctx, 'C17.clump', 'a bind block larger than a datagram leaves through send_clumped_bundles: every collected command lands in exactly one clump, in order, as decided for C06')
    c06.rule_clump(sub)
    # a freed bus (index None) is never turned into a command argument: None would go out as 0
    bus = ctx.repo.cls('sc3.synth.bus:Bus')
    ci_ = bus.methods['_as_control_input']
    b_ = U.body_nodoc(ci_.node)
    ctx.rule('C17.guard', 'freed objects are refused')
    ok = len(b_) >= 2 and isinstance(b_[0], ast.If) and norm(b_[0].test) == 'self._index is None' and isinstance(b_[0].body[-1], ast.Raise)
    ctx.ob('C17.guard', f'{ci_.fq}:freed', ok, 'a bus without index (freed) must raise instead of returning None as a control input '
                                              '(None is encoded as 0: the command would name bus 0)', ci_.node, ci_.module)
    from .. import beliefs
    ctx.rule('C17.absent', 'ids, indexes and targets are defaulted only when they are None: 0 is the root node, the first bus and the first buffer')
    beliefs.rule_ordefault(ctx, 'C17.absent', ['sc3.synth.node', 'sc3.synth.buffer', 'sc3.synth.bus', 'sc3.synth.server'],
                           exceptions={'sc3.synth.node:Node.move_to_head:target or ...': 'a Node object, never a number (as_target is not applied here)',
                                       'sc3.synth.node:Node.move_to_tail:target or ...': 'a Node object, never a number (as_target is not applied here)'})
    bn = ctx.repo.cls('sc3.synth.node:Node').methods['basic_new']
    ctx.ob('C17.absent', f'{bn.fq}:node_id', 'obj.node_id = obj.server._next_node_id() if node_id is None else node_id' in full(bn.node),
           'a node id is allocated only when none was given (0 is the root node)', bn.node, bn.module)
    rule_cmds(ctx)
    rule_guard(ctx)
    rule_pair(ctx)
    rule_node_free(ctx)
    rule_setn_count(ctx)
    rule_range(ctx)
    rule_bind(ctx)
    rule_convenience(ctx)
    ctx.trust('scverif/refs/server_cmds.json written from the SuperCollider Server Command Reference')


MUTANTS = [
    dict(rule='C17.cmds', name='streamed /b_setn chunks carry a count taken from the remaining size (seed C17-m)', file='sc3/synth/buffer.py',
         old="                    len(sublst), *sublst)", new="                    min(max_bndl_size, size - (start_frame + pos)), *sublst)"),
    dict(rule='C17.guard', name='(fix reverted) copy_data does not refuse a freed destination buffer', file='sc3/synth/buffer.py',
         old="        if self._bufnum is None or dst_buffer.bufnum is None:\n            raise BufferAlreadyFreed('copy_data')",
         new="        if self._bufnum is None:\n            raise BufferAlreadyFreed('copy_data')"),
    dict(rule='C17.pair', name='Node.free takes a missing group for already freed (seed C17-i)', file='sc3/synth/node.py',
         old="        if send_flag:\n            self.server.addr.send_msg('/n_free', self.node_id) # 11\n",
         new="        if self.group is None:\n            return\n        if send_flag:\n            self.server.addr.send_msg('/n_free', self.node_id) # 11\n"),
    dict(rule='C17.cmds', name='(fix reverted) Buffer.setn spreads lists only', file='sc3/synth/buffer.py',
         old="            if isinstance(values, (list, tuple)):\n                nargs.extend([control, len(values), *values])",
         new="            if isinstance(values, list):\n                nargs.extend([control, len(values), *values])"),
    dict(rule='C17.range', name='free_all emits one /b_free per block (seed C17-g)', file='sc3/synth/server.py',
         old="            for i in range(block.address, block.address + block.size):\n                bundle.append(['/b_free', i])",
         new="            bundle.append(['/b_free', block.address])"),
    dict(rule='C17.pair', name='Recorder frees its buffer on the server only (fix reverted)', file='sc3/synth/recorder.py',
         old="            buf._uncache()\n            self._server._buffer_allocator.free(buf.bufnum)\n            buf._bufnum = None\n", new=""),
    dict(rule='C17.guard', name='Buffer.read without the freed guard (fix reverted)', file='sc3/synth/buffer.py',
         old="        if self._bufnum is None:\n            raise BufferAlreadyFreed('read')\n", new=""),
    dict(rule='C17.guard', name='freed Buffer accepted as node argument (fix reverted)', file='sc3/synth/buffer.py',
         old="        if self._bufnum is None:\n            raise BufferAlreadyFreed('_as_control_input')\n", new=""),
    dict(rule='C17.guard', name='free_all leaves the known objects live (fix reverted)', file='sc3/synth/buffer.py',
         old="                buf._bufnum = buf._frames = buf._channels = None\n", new="                buf._frames = buf._channels = None\n"),
    dict(rule='C17.cmds', name='setn spreads lists only (fix reverted)', file='sc3/synth/node.py',
         old="            if isinstance(more_vals, (list, tuple)):", new="            if isinstance(more_vals, list):"),
    dict(rule='C17.cmds', name='fill passes its first triple raw (fix reverted)', file='sc3/synth/node.py',
         old="            *gpp.node_param(\n                [cname, num_controls, value, *args])._as_control_input())", new="            cname, num_controls, value,\n            *gpp.node_param(args)._as_control_input())"),
    dict(rule='C17.guard', name='mapn reads the bare bus index (fix reverted)', file='sc3/synth/node.py',
         old="                    gpp.node_param(bus)._as_control_input(), bus.channels])", new="                    bus.index, bus.channels])"),
    dict(rule='C17.cmds', name='Group.after adds before', file='sc3/synth/node.py',
         old="        return cls(target, 'addAfter')", new="        return cls(target, 'addBefore')"),
    dict(rule='C17.cmds', name='Synth.tail passes the target as args', file='sc3/synth/node.py',
         old="        return cls(def_name, args, target, 'addToTail')", new="        return cls(def_name, target, args, 'addToTail')"),
    dict(rule='C17.cmds', name='mapn emits channels before index', file='sc3/synth/node.py',
         old="                    gpp.node_param(bus)._as_control_input(), bus.channels])", new="                    bus.channels, gpp.node_param(bus)._as_control_input()])"),
    dict(rule='C17.bind', name='bind sync records the marker index after appending it', file='sc3/base/netaddr.py',
         old="        self._last_sync = len(self._bundle)\n        self._bundle.append([self._SYNC_FLAG, latency, elements])",
         new="        self._bundle.append([self._SYNC_FLAG, latency, elements])\n        self._last_sync = len(self._bundle)"),
    dict(rule='C17.bind', name='bind sync awaits before flushing', file='sc3/base/netaddr.py',
         old="            self._send_last_bundle()\n            yield from self._save_addr.sync(None, latency, elements)",
         new="            yield from self._save_addr.sync(None, latency, elements)\n            self._send_last_bundle()"),
    dict(rule='C17.bind', name='split drops the open bundle', file='sc3/base/netaddr.py',
         old="                curr.append(item)\n        res.append(curr)\n        return res", new="                curr.append(item)\n        return res"),
    dict(rule='C17.guard', name='(fix reverted) a freed bus is a valid control input', file='sc3/synth/bus.py',
         old="    def _as_control_input(self):\n        if self._index is None:\n            raise BusException('bus not allocated')\n        return self._index", new="    def _as_control_input(self):\n        return self._index"),
    dict(rule='C17.cmds', name='(fix reverted) Buffer.cue sends /b_read arguments out of order', file='sc3/synth/buffer.py',
         old="            '/b_read', self._bufnum, path, start_frame, self._frames,\n            0, True, fn.value(completion_msg, self))", new="            '/b_read', self._bufnum, path, start_frame, 0, True,\n            self._frames, fn.value(completion_msg, self))"),
    dict(rule='C17.cmds', name='(fix reverted) dict arguments flattened without embedding list values', file='sc3/synth/_graphparam.py',
         old="    def _as_osc_arg_list(self):\n        lst = []\n        for item in self._param_value.items():\n            for e in item:\n                node_param(e)._embed_as_osc_arg(lst)\n        return lst\n", new="    def _as_osc_arg_list(self):\n        return self._as_control_input()\n"),
    dict(rule='C17.pair', name='(fix reverted) id returned to the allocator before the completion function runs', file='sc3/synth/buffer.py',
         old="        msg = ['/b_free', self._bufnum, fn.value(completion_msg, self)]\n        self._uncache()\n        self._server._buffer_allocator.free(self._bufnum)\n",
         new="        self._uncache()\n        self._server._buffer_allocator.free(self._bufnum)\n        msg = ['/b_free', self._bufnum, fn.value(completion_msg, self)]\n"),
    dict(rule='C17.absent', name='node id 0 replaced by a fresh id (seed C17-c)', file='sc3/synth/node.py',
         old="        obj.node_id = obj.server._next_node_id() if node_id is None else node_id", new="        obj.node_id = node_id or obj.server._next_node_id()"),
    dict(rule='C17.cmds', name='/s_new with three fixed arguments', file='sc3/synth/node.py',
         old="cls.add_actions[add_action], target.node_id,\n", new="cls.add_actions[add_action],\n", count=1),
    dict(rule='C17.cmds', name='command name typo', file='sc3/synth/node.py',
         old="self.server.addr.send_msg('/n_free', self.node_id)", new="self.server.addr.send_msg('/n_fre', self.node_id)"),
    dict(rule='C17.cmds', name='/b_zero with an extra argument', file='sc3/synth/buffer.py',
         old="'/b_zero', self._bufnum, fn.value(completion_msg, self))", new="'/b_zero', self._bufnum, 0, fn.value(completion_msg, self))"),
    dict(rule='C17.cmds', name='/n_run without flag', file='sc3/synth/node.py',
         old="self.server.addr.send_msg('/n_run', self.node_id, int(flag))", new="self.server.addr.send_msg('/n_run', self.node_id)"),
    dict(rule='C17.guard', name='(fix reverted) Buffer.free falls through', file='sc3/synth/buffer.py',
         old="            _logger.warning('Buffer has already been freed')\n            return\n", new="            _logger.warning('Buffer has already been freed')\n"),
    dict(rule='C17.guard', name='ControlBus.free falls through', file='sc3/synth/bus.py',
         old="            _logger.warning('ControlBus has already been freed')\n            return\n", new="            _logger.warning('ControlBus has already been freed')\n"),
    dict(rule='C17.range', name='(fix reverted) last id of a block skipped', file='sc3/synth/server.py',
         old="range(block.address, block.address + block.size)", new="range(block.address, block.address + block.size - 1)"),
    dict(rule='C17.pair', name='AudioBus frees to the control allocator', file='sc3/synth/bus.py',
         old="        self._server._audio_bus_allocator.free(self._index)", new="        self._server._control_bus_allocator.free(self._index)"),
    dict(rule='C17.pair', name='/b_free built after clearing the id', file='sc3/synth/buffer.py',
         old="        msg = ['/b_free', self._bufnum, fn.value(completion_msg, self)]\n        self._uncache()\n        self._server._buffer_allocator.free(self._bufnum)\n        self._bufnum = self._frames = self._channels = None\n",
         new="        self._uncache()\n        self._server._buffer_allocator.free(self._bufnum)\n        self._bufnum = self._frames = self._channels = None\n        msg = ['/b_free', self._bufnum, fn.value(completion_msg, self)]\n"),
    dict(rule='C17.bind', name='send even when the block raised', file='sc3/base/netaddr.py',
         old="        if exc_type is None and self._send:", new="        if self._send:"),
    dict(rule='C17.bind', name='address restored only on success', file='sc3/base/netaddr.py',
         old="        if self._server:\n            self._server._addr = self._save_addr\n        if exc_type is None and self._send:\n            self._send_last_bundle()",
         new="        if exc_type is None and self._send:\n            self._server._addr = self._save_addr\n            self._send_last_bundle()"),
    dict(rule='C17.bind', name='proxy send_msg also sends', file='sc3/base/netaddr.py',
         old="    def send_msg(self, *args):\n        self._bundle.append(list(args))", new="    def send_msg(self, *args):\n        self._bundle.append(list(args))\n        self._save_addr.send_msg(*args)"),
    dict(rule='C17.pair', name='group created with the target id as its own', file='sc3/synth/node.py',
         old="            self.creation_cmd(), self.node_id,\n            add_action_id, target.node_id)", new="            self.creation_cmd(), target.node_id,\n            add_action_id, self.node_id)"),
]

REPAIRS = []
