"""C20 - definition builds are deterministic, isolated and leave no residue."""

import ast

from ..loader import norm, full, walk_local, walk_local_ordered, qualname_of
from .. import util as U
from ..flow import enumerate_paths
from ..locks import lock_classes, lexical_locks

EXPLANATION = (
    'The global build context is followed on every path: from `main._current_synthdef = self` every path out of '
    'SynthDef._build for Exception-class errors assigns None before leaving, inside a `with` of the build lock that '
    'spans set and clear; the same for SynthDesc._read_synthdef2 (finally). The context has no other writers, every '
    'writer holds the build lock, and every _add_to_synth variant reads the global at creation time. Set-typed graph '
    'fields (_descendants, _antecedents, _constant_set) are never iterated or converted to a sequence without an '
    'explicit sort on a deterministic key; constants are numbered by insertion into a dict. Functions reachable from '
    'the build write no class-level or module-level state (the temporary-name counter is the listed exception).')
LEVEL_TEXT = ('static: must-pass-through of the context reset on all exception paths, ownership and lock context of the '
              'global, creation-time read of the context, ordered use of unordered graph sets, absence of global writes on '
              'the build path. Byte equality across processes and thread interleavings is not decided.')
LEVEL_NOTE = 'BaseException escapes (KeyboardInterrupt) are outside "errors" and only noted'
LEVEL_TEXT_ADD = ' Also: non-Exception interruptions on the context paths, no mutable class-level container shared by definitions, as_bytes hands out an immutable value.'
LEVEL_TEXT_ADD += ' Rounds e-f: build functions do not modify their argument containers; no iteration over sets made on the spot in graph-building code; serialization precedes opening the definition file.'
LEVEL_TEXT_ADD += ' Rounds g-h: every writer (definition and metadata files) serializes before it removes or opens anything; parameter objects that outlive a build (Env, Buffer, Bus, wrapped values) are only read by a build.'
LEVEL_TEXT = (globals().get('LEVEL_TEXT') or EXPLANATION) + LEVEL_TEXT_ADD
TECHNIQUE = 'static analysis: must-pass-through on enumerated exception paths + ownership/lock-context + unordered-use census'

GRAPH_SETS = ('_descendants', '_antecedents', '_constant_set')


def rule_ctx(ctx):
    ctx.rule('C20.ctx', 'from `main._current_synthdef = <def>` every exit of _build/_read_synthdef2 - normal, any Exception, or an interruption such as KeyboardInterrupt - passes '
                        'through `main._current_synthdef = None`, all inside `with main._def_build_lock`')
    for fq in ('sc3.synth.synthdef:SynthDef._build', 'sc3.synth.synthdesc:SynthDesc._read_synthdef2'):
        f = ctx.repo.func(fq)

        def mr(s):
            # '*' = any Exception; KeyboardInterrupt stands for the interruptions that are not Exception subclasses
            if bool(U.calls(s)) or any(isinstance(n, ast.Subscript) for n in ast.walk(s)):
                return ['*', 'KeyboardInterrupt']
            return False
        n = bad = 0
        for ev, out in enumerate_paths(f.node, may_raise=mr, unroll=1, repo=ctx.repo, max_paths=200000):
            seti = None
            for i, (k, node, x) in enumerate(ev):
                if k == 'stmt' and isinstance(node, ast.Assign) and norm(node.targets[0]) == '_libsc3.main._current_synthdef' \
                        and norm(node.value) != 'None':
                    seti = i
            if seti is None:
                continue
            n += 1
            cleared = any(k == 'stmt' and isinstance(node, ast.Assign) and norm(node.targets[0]) == '_libsc3.main._current_synthdef'
                          and norm(node.value) == 'None' for k, node, x in ev[seti + 1:])
            if not cleared:
                bad += 1
        ctx.ob('C20.ctx', f'{fq}:cleared-on-every-exit', n > 3 and bad == 0,
               f'{bad} of {n} paths (normal and exceptional) leave with the build context still set: unit generators created '
               f'afterwards outside any build attach to a dead definition', f.node, f.module)
        sets = [s for s in walk_local_ordered(f.node) if isinstance(s, ast.Assign) and norm(s.targets[0]) == '_libsc3.main._current_synthdef']
        cls_of = lock_classes(ctx.repo)
        for s in sets:
            held = lexical_locks(s, cls_of)
            ctx.ob('C20.ctx', f'{fq}:{norm(s)}:under-lock', cls_of.get('_def_build_lock') in held,
                   'the build context is written without the build lock', s, f.module)
        reads = [n_ for n_ in walk_local(f.node) if isinstance(n_, ast.Attribute) and n_.attr == '_current_synthdef' and isinstance(n_.ctx, ast.Load)]
        unlocked = [n_ for n_ in reads if cls_of.get('_def_build_lock') not in lexical_locks(n_, cls_of)]
        ctx.ob('C20.ctx', f'{fq}:context-read-under-lock', not unlocked,
               f'the build context is read outside the build lock ({[norm(U.enclosing_stmt(n_))[:60] for n_ in unlocked]}): a build started while another '
               f'thread is inside its graph function acts on that thread\'s context instead of waiting for the lock (concurrent builds interfere)', f.node, f.module)
        tries = [t for t in walk_local(f.node) if isinstance(t, ast.Try)]
        ok = len(tries) == 1 and isinstance(tries[0]._parent, ast.With) and norm(tries[0]._parent.items[0].context_expr) == '_libsc3.main._def_build_lock'
        first_set = sets and sets[0]
        ok = ok and bool(first_set) and U.in_body(first_set, tries[0], 'body')
        ctx.ob('C20.ctx', f'{fq}:lock-spans-try', ok, 'the lock is taken before the context is set and released after it is cleared; the set is inside the protected region', f.node, f.module)
    # the build lock is one real lock for the whole process in every mode: every assignment to it constructs a threading lock
    # (a no-op context in one mode lets two builds share the single context slot)
    ws = []
    for fi in ctx.repo.functions.values():
        for x in walk_local(fi.node):
            if isinstance(x, ast.Assign) and any(isinstance(t_, ast.Attribute) and t_.attr == '_def_build_lock' for t_ in x.targets):
                ws.append((fi, x))
    ctx.require(len(ws) >= 1, 'C20.ctx', 'no assignment to _def_build_lock found')
    for fi, x in ws:
        ctx.ob('C20.ctx', f'{fi.fq}:{norm(x)}:real-lock', norm(x.value) in ('threading.Lock()', 'threading.RLock()'),
               f'{fi.fq} sets the build lock to {norm(x.value)}: without mutual exclusion a build started while another thread is inside its '
               f'graph function overwrites the shared build context', x, fi.module)
    ctx.ob('C20.ctx', 'build-lock:single-owner', len(ws) == 1 and ws[0][0].fq == 'sc3.base.main:Process.__init__',
           f'the build lock is created once, by Process.__init__; writers: {[w[0].fq for w in ws]}', ws[0][1], ws[0][0].module)
    b = ctx.repo.func('sc3.synth.synthdef:SynthDef._build')
    t = [t for t in walk_local(b.node) if isinstance(t, ast.Try)][0]
    hs = [norm(h.type) if h.type else 'bare' for h in t.handlers]
    ok = (hs in (['Exception'], ['BaseException'], ['bare']) and isinstance(t.handlers[0].body[-1], ast.Raise)) or bool(t.finalbody)
    ctx.ob('C20.ctx', f'{b.fq}:handler', ok, f'handlers {hs}: errors must be re-raised after the reset', t, b.module)


def rule_own(ctx):
    ctx.rule('C20.own', '_current_synthdef is written only in Process.__init__, SynthDef._build and SynthDesc._read_synthdef2; every '
                        '_add_to_synth variant reads it at creation time')
    writers = {}
    for fi in ctx.repo.functions.values():
        for s in walk_local(fi.node):
            if isinstance(s, (ast.Assign, ast.AugAssign)):
                for t in U.assigned_targets(s):
                    if isinstance(t, ast.Attribute) and t.attr == '_current_synthdef':
                        writers.setdefault(fi.fq, []).append(s)
    allowed = {'sc3.base.main:Process.__init__', 'sc3.synth.synthdef:SynthDef._build', 'sc3.synth.synthdesc:SynthDesc._read_synthdef2'}
    for fq, ss in writers.items():
        ctx.ob('C20.own', f'{fq}:writes-context', fq in allowed, f'{fq} writes the build context: builds are no longer isolated', ss[0], ctx.repo.functions[fq].module)
    ctx.ob('C20.own', 'context:writers', set(writers) == allowed, f'writers: {sorted(writers)}', None, ctx.repo.module('sc3.base.main'))
    so = ctx.repo.cls('sc3.synth.ugen:SynthObject')
    n = 0
    for ci in ctx.repo.classes.values():
        if ctx.repo.is_subclass(ci, so) and '_add_to_synth' in ci.methods:
            n += 1
            f = ci.methods['_add_to_synth']
            b = U.body_nodoc(f.node)
            ok = bool(b) and norm(b[0]) == 'self._synthdef = _libsc3.main._current_synthdef'
            ctx.ob('C20.own', f'{f.fq}:reads-at-creation', ok, 'a unit attaches to the context current when it is created (no cached context)', f.node, ci.module)
            src = full(f.node)
            if ci.name != 'OutputProxy':
                ctx.ob('C20.own', f'{f.fq}:none-guard', 'if self._synthdef is not None:' in src, 'outside a build the unit belongs to no definition', f.node, ci.module)
    ctx.require(n >= 3, 'C20.own', f'only {n} _add_to_synth variants')
    # per-definition containers are created per instance: a mutable class attribute that instances append to is one object
    # shared by every definition of the process (units of one build leak into all later builds)
    MUT_CALLS = {'append', 'add', 'extend', 'insert', 'update', 'setdefault', 'remove', 'discard', 'pop', 'clear'}
    k = 0
    for cfq in ('sc3.synth.synthdef:SynthDef', 'sc3.synth.synthdesc:SynthDesc', 'sc3.synth.ugen:SynthObject', 'sc3.synth.ugen:UGen'):
        ci = ctx.repo.cls(cfq)
        subs = [ci] + ctx.repo.subclasses(ci, strict=True)
        for name, val in ci.class_assigns.items():
            mutable = isinstance(val, (ast.List, ast.Dict, ast.Set)) or \
                (isinstance(val, ast.Call) and norm(val.func) in ('list', 'dict', 'set', 'collections.deque', 'deque'))
            if not mutable:
                continue
            k += 1
            mutated = []
            for c2 in subs:
                for f in c2.methods.values():
                    for c in U.calls(f.node):
                        if isinstance(c.func, ast.Attribute) and c.func.attr in MUT_CALLS and isinstance(c.func.value, ast.Attribute) \
                                and c.func.value.attr == name and norm(c.func.value.value) in ('self', 'obj', 'cls'):
                            mutated.append(f'{f.qualname}: {norm(c)[:50]}')
                    for st in walk_local(f.node):
                        if isinstance(st, (ast.Assign, ast.AugAssign, ast.Delete)):
                            for t in (U.assigned_targets(st) if not isinstance(st, ast.Delete) else st.targets):
                                if isinstance(t, ast.Subscript) and isinstance(t.value, ast.Attribute) and t.value.attr == name \
                                        and norm(t.value.value) in ('self', 'obj'):
                                    mutated.append(f'{f.qualname}: {norm(st)[:50]}')
            rebound = any(isinstance(st, ast.Assign) and any(isinstance(t, ast.Attribute) and t.attr == name and norm(t.value) in ('self', 'obj')
                                                             for t in st.targets)
                          for f in ci.methods.values() if f.name in ('__init__', '_dummy', '_init_build', '__new__', '_create_ugen_object')
                          for st in walk_local(f.node))
            ctx.ob('C20.own', f'{ci.fq}:{name}:class-level-container', not mutated or rebound,
                   f'{ci.name}.{name} = {norm(val)} is a mutable class attribute changed in place through instances ({mutated[:3]}) and never '
                   f'rebound per instance: all definitions share one container, so one build leaves residue in the next', val, ci.module)
    ctx.extra['class_level_containers_checked'] = k
    sdc = ctx.repo.cls('sc3.synth.synthdef:SynthDef')
    for fn in ('__init__', '_dummy'):
        f = sdc.methods[fn]
        src = full(f.node)
        recv = 'self' if fn == '__init__' else 'obj'
        ok = all(f'{recv}.{a} = []' in src for a in ('_available', '_width_first_ugens'))
        ctx.ob('C20.own', f'{f.fq}:fresh-topo-state', ok, 'each definition object gets its own _available and _width_first_ugens lists', f.node, f.module)
    # what a definition hands out must not be a handle on its own cache
    ab = ctx.repo.func('sc3.synth.synthdef:SynthDef.as_bytes')
    src = full(ab.node)
    ctx.ob('C20.own', f'{ab.fq}:immutable', 'self._bytes = stream.getvalue()' in src and 'getbuffer' not in src,
           'as_bytes caches and returns an immutable bytes value (BytesIO.getbuffer() is a writable view of the cache: writing into it '
           'changes every later result and send)', ab.node, ab.module)
    # reads of the context elsewhere only inside functions that run during a build
    ib = ctx.repo.func('sc3.synth.synthdef:SynthDef._init_build')
    src = full(ib.node)
    ok = all(x in src for x in ('self._constants = dict()', 'self._constant_set = set()', 'self._controls = []', 'self._control_index = 0', 'self._max_local_bufs = None'))
    ctx.ob('C20.own', f'{ib.fq}', ok, 'every build starts from fresh per-definition state', ib.node, ib.module)


def rule_order(ctx):
    ctx.rule('C20.order', 'set-typed graph fields are never iterated, indexed or converted to a sequence without an explicit sort on a '
                          'deterministic key; constants are numbered by insertion order')
    n = 0
    for m in ctx.repo.modules.values():
        if not m.name.startswith('sc3.synth'):
            continue
        for node in ast.walk(m.tree):
            it = None
            if isinstance(node, (ast.For, ast.comprehension)):
                it = node.iter
            elif isinstance(node, ast.Call) and isinstance(node.func, ast.Name) and node.func.id in ('list', 'tuple', 'iter', 'next', 'min', 'max') and node.args:
                it = node.args[0]
            elif isinstance(node, ast.Call) and isinstance(node.func, ast.Attribute) and node.func.attr == 'pop' and not node.args:
                it = node.func.value
            elif isinstance(node, ast.Starred):
                it = node.value
            if it is None or not (isinstance(it, ast.Attribute) and it.attr in GRAPH_SETS):
                continue
            n += 1
            ok = False
            why = ''
            if isinstance(node, ast.Call) and isinstance(node.func, ast.Name) and node.func.id == 'list':
                # x = list(S); x.sort(key=...)
                st = U.enclosing_stmt(node)
                if isinstance(st, ast.Assign) and isinstance(st.targets[0], ast.Name):
                    v = st.targets[0].id
                    blk = st._parent.body
                    i = [j for j, s in enumerate(blk) if s is st][0]
                    nxt = blk[i + 1] if i + 1 < len(blk) else None
                    if isinstance(nxt, ast.Expr) and isinstance(nxt.value, ast.Call) and norm(nxt.value.func) == f'{v}.sort' and \
                            any(k.arg == 'key' and '_synth_index' in norm(k.value) for k in nxt.value.keywords):
                        ok = True
                        why = 'sorted by creation index right after the conversion'
            ctx.ob('C20.order', f'{m.name}:{qualname_of(node)}:{norm(it)}:{type(node).__name__}', ok,
                   why or f'{norm(it)} is a set of unit generators (hashed by id): using its iteration order makes the emitted bytes depend on memory '
                          f'addresses / hash seed', node, m)
    ctx.require(n >= 1, 'C20.order', 'no ordered use of graph sets found (anchor vanished)')
    # the same for sets made on the spot (set(...), {...}, a local bound to one) inside the graph-building code: units hash by id
    DELIVERY = {'add', 'send', 'load', 'store', '_do_send', '_write_def_file'}     # after the bytes exist: order of servers, not of units

    def is_set_expr(e, local_sets):
        return isinstance(e, (ast.Set, ast.SetComp)) or (isinstance(e, ast.Call) and isinstance(e.func, ast.Name) and e.func.id in ('set', 'frozenset')) \
            or (isinstance(e, ast.Name) and e.id in local_sets)
    k = 0
    for fi in ctx.repo.functions.values():
        if not fi.module.name.startswith('sc3.synth') or fi.name in DELIVERY:
            continue
        k += 1
        local_sets = {a.targets[0].id for a in walk_local(fi.node) if isinstance(a, ast.Assign) and isinstance(a.targets[0], ast.Name)
                      and is_set_expr(a.value, set())}
        for node in walk_local(fi.node):
            its = []
            if isinstance(node, ast.For):
                its = [node.iter]
            elif isinstance(node, (ast.ListComp, ast.GeneratorExp, ast.DictComp)):
                its = [g.iter for g in node.generators]
            elif isinstance(node, ast.Call) and isinstance(node.func, ast.Name) and node.func.id in ('list', 'tuple', 'iter', 'next') and node.args:
                its = [node.args[0]]
            elif isinstance(node, ast.Starred):
                its = [node.value]
            for it in its:
                if is_set_expr(it, local_sets):
                    ctx.ob('C20.order', f'{fi.fq}:{norm(it)[:60]}:{type(node).__name__}:inline-set', False,
                           f'{norm(it)[:80]} is iterated in hash order inside the graph-building code: for unit generators (hashed by id) the '
                           f'order of the visits, and with it the emitted definition, depends on memory addresses', node, fi.module)
    ctx.require(k >= 300, 'C20.order', f'only {k} functions of the synthesis modules analysed')
    for m in ctx.repo.modules.values():
        if not m.name.startswith('sc3.synth'):
            continue
        for node in ast.walk(m.tree):
            if isinstance(node, ast.Call) and isinstance(node.func, ast.Name) and node.func.id == 'sorted' and node.args and \
                    isinstance(node.args[0], ast.Attribute) and node.args[0].attr in GRAPH_SETS:
                ok = any(k.arg == 'key' for k in node.keywords)
                ctx.ob('C20.order', f'{m.name}:{qualname_of(node)}:{norm(node)[:50]}', ok, 'sorted() over units needs a deterministic key', node, m)
    ac = ctx.repo.func('sc3.synth.synthdef:SynthDef._add_constant')
    src = full(ac.node)
    p = ac.params[1]
    ok = f'if {p} not in self._constant_set: self._constant_set.add({p}) self._constants[{p}] = len(self._constants)' in src
    ctx.ob('C20.order', f'{ac.fq}', ok, 'constants are numbered in first-use order', ac.node, ac.module)
    wc = ctx.repo.func('sc3.synth.synthdef:SynthDef._write_constants')
    ctx.ob('C20.order', f'{wc.fq}', 'for value, index in self._constants.items(): arr[index] = value' in full(wc.node), 'constants are written by slot', wc.node, wc.module)
    ar = ctx.repo.func('sc3.synth.ugen:SynthObject._arrange')
    src = full(ar.node)
    ok = U.before(src, 'descendants = list(self._descendants)', 'descendants.sort(key=lambda x: x._synth_index)', 'for ugen in reversed(descendants): ugen._remove_antecedent(self)')
    ctx.ob('C20.order', f'{ar.fq}', ok, 'descendants are released in creation-index order', ar.node, ar.module)
    cc = ctx.repo.func('sc3.synth.ugen:SynthObject._collect_constants')
    ctx.ob('C20.order', f'{cc.fq}', 'for input in self.inputs:' in full(cc.node), 'constants are collected in input order', cc.node, cc.module)


def rule_pure(ctx):
    ctx.rule('C20.pure', 'functions on the build path (SynthDef build methods, every UGen class method/instance method under '
                         'sc3/synth) declare no `global` and write no class-level state except the listed temporary-name counter')
    allowed = {('sc3.synth.synthdef', 'MetaSynthDef.__init__'), ('sc3.synth.synthdef', 'MetaSynthDef._generate_tmp_name'),
               ('sc3.synth.systemdefs', None)}
    n = 0
    skip_mods = {'sc3.synth.server', 'sc3.synth.buffer', 'sc3.synth.node', 'sc3.synth.bus', 'sc3.synth.systemdefs', 'sc3.synth.recorder',
                 'sc3.synth._serverstatus', 'sc3.synth._nodewatcher', 'sc3.synth._volume', 'sc3.synth.synthdesc', 'sc3.synth.spec', 'sc3.synth._engine'}
    for fi in ctx.repo.functions.values():
        m = fi.module
        if not m.name.startswith('sc3.synth') or m.name in skip_mods:
            continue
        n += 1
        bad = []
        for s in walk_local(fi.node):
            if isinstance(s, ast.Global):
                bad.append(norm(s))
            if isinstance(s, (ast.Assign, ast.AugAssign)):
                for t in U.assigned_targets(s):
                    base = t.value if isinstance(t, ast.Subscript) else t
                    if isinstance(base, ast.Attribute) and isinstance(base.value, ast.Name) and base.value.id == 'cls':
                        bad.append(norm(s))
                    if isinstance(base, ast.Attribute) and norm(base.value) in ('type(self)', 'self.__class__'):
                        bad.append(norm(s))
        ok = not bad or (m.name, fi.qualname) in allowed or fi.qualname.startswith('MetaSynthDef.')
        ctx.ob('C20.pure', f'{fi.fq}:no-global-writes', ok,
               f'{fi.qualname} writes process-wide state during a build ({bad[:2]}): later builds depend on earlier ones', fi.node, m,
               nontrivial=bool(bad))
    ctx.require(n >= 600, 'C20.pure', f'only {n} functions on the build path analysed')
    mt = ctx.repo.try_func('sc3.synth.synthdef:MetaSynthDef._generate_tmp_name') or ctx.repo.try_func('sc3.synth.synthdef:MetaSynthDef.generate_tmp_name')
    if mt is not None:
        ctx.note(f'listed exception: {mt.fq} increments a class-level counter (temporary definition names only)')


ARG_MUTATORS = {'append', 'extend', 'insert', 'pop', 'remove', 'clear', 'sort', 'reverse', 'update', 'setdefault', 'add', 'discard'}
OUT_PARAMS = {('sc3.synth.ugen:SynthObject._arrange', 'out_stack'): 'the topological sort appends to the output stack it is given (by design)'}


def rule_args(ctx):
    ctx.rule('C20.own', 'the functions of a build do not modify the containers they are given as arguments (rates, prepended arguments, output '
                        'lists): `p += [...]`, `p[i] = ...` or a mutating method on a parameter writes into an object of the caller')
    n = 0
    for modn in ('sc3.synth.synthdef', 'sc3.synth.ugen', 'sc3.synth.ugens.inout', 'sc3.base.play'):
        m = ctx.repo.module(modn)
        for q, f in sorted(m.functions.items()):
            params = set(f.params) - {'self', 'cls', 'file', 'stream'}
            if not params:
                continue
            n += 1
            bad = []
            rebound = set()
            # a local that names a parameter, or something reached through a parameter's attributes (func.__annotations__), is the
            # caller's object too - unless the name is also bound to anything else
            binds = {}
            for x in walk_local(f.node):
                if isinstance(x, ast.Assign) and len(x.targets) == 1 and isinstance(x.targets[0], ast.Name):
                    binds.setdefault(x.targets[0].id, []).append(x.value)
            aliases = set()
            for nm, vals in binds.items():
                if nm in params:
                    continue
                def rooted(e):
                    while isinstance(e, ast.Attribute):
                        e = e.value
                    return isinstance(e, ast.Name) and e.id in params
                if vals and all(isinstance(v, (ast.Name, ast.Attribute)) and rooted(v) for v in vals):
                    aliases.add(nm)
            params = params | aliases
            for x in walk_local_ordered(f.node):
                if isinstance(x, ast.Assign):
                    for t in x.targets:
                        if isinstance(t, ast.Name) and t.id in params and t.id not in aliases:
                            rebound.add(t.id)       # from here on the name is a local object (conservatively: any later write is to the copy)
                        if isinstance(t, ast.Subscript) and isinstance(t.value, ast.Name) and t.value.id in params - rebound:
                            bad.append(norm(x))
                elif isinstance(x, ast.AugAssign):
                    t = x.target
                    if isinstance(t, ast.Name) and t.id in params - rebound and any(
                            isinstance(y, (ast.List, ast.ListComp)) or (isinstance(y, ast.Call) and norm(y.func) in ('list', 'utl.as_list'))
                            for y in ast.walk(x.value)):
                        bad.append(norm(x))
                    if isinstance(t, ast.Subscript) and isinstance(t.value, ast.Name) and t.value.id in params - rebound:
                        bad.append(norm(x))
                elif isinstance(x, ast.Expr) and isinstance(x.value, ast.Call):
                    c = x.value
                    if isinstance(c.func, ast.Attribute) and isinstance(c.func.value, ast.Name) and c.func.value.id in params - rebound \
                            and c.func.attr in ARG_MUTATORS and (f.fq, c.func.value.id) not in OUT_PARAMS:
                        bad.append(norm(c))
            ctx.ob('C20.own', f'{f.fq}:arguments-untouched', not bad,
                   f'{q} modifies its argument in place: {bad}; the change is visible to the caller after the build', f.node, m)
    ctx.require(n >= 100, 'C20.own', f'only {n} functions with parameters analysed')


def rule_file(ctx):
    ctx.rule('C20.ctx', 'a definition is serialized before a file is opened for it: inside `with open(..., "wb"/"xb")` nothing that can fail '
                        'for a bad definition runs (the serializer raising would leave a truncated file behind)')
    m = ctx.repo.module('sc3.synth.synthdef')
    n = 0
    for q, f in sorted(m.functions.items()):
        withs = [w for w in walk_local(f.node) if isinstance(w, ast.With) and any(
            isinstance(i.context_expr, ast.Call) and norm(i.context_expr.func) == 'open' and
            any(U.literal(a) in ('wb', 'xb', 'w', 'x') or norm(a) == 'mode' for a in i.context_expr.args[1:2]) for i in w.items)]
        if not withs:
            continue
        n += 1
        bad = []
        for w in withs:
            for c in U.calls(ast.Module(body=w.body, type_ignores=[])):
                mn = U.method_name(c) or U.call_name(c) or ''
                if mn.startswith('_write_def') or mn in ('as_bytes',):
                    bad.append(norm(c)[:60])
        ctx.ob('C20.ctx', f'{f.fq}:serialize-before-open', not bad,
               f'{bad} runs while the target file is already open for writing: a definition that cannot be written (duplicated control name, '
               f'too many controls) truncates an existing file', f.node, f.module)
    ctx.require(n >= 2, 'C20.ctx', f'only {n} functions that open a definition file for writing found')
    # the metadata file that goes with a stored definition: every serializer call (json.dump/dumps, the codec encoders) comes before
    # the old file is removed and before the new one is opened
    md = ctx.repo.module('sc3.synth.synthdesc')
    k = 0
    for q, f in sorted(md.functions.items()):
        opens = [w for w in walk_local(f.node) if isinstance(w, ast.With) and any(
            isinstance(i.context_expr, ast.Call) and norm(i.context_expr.func) == 'open' and
            any(U.literal(a) in ('wb', 'xb', 'w', 'x') for a in i.context_expr.args[1:2]) for i in w.items)]
        if not opens:
            continue
        k += 1
        destructive = [c.lineno for c in U.calls(f.node) if U.method_name(c) in ('unlink', 'remove', 'truncate')] + [w.lineno for w in opens]
        first = min(destructive)
        ser = [c for c in U.calls(f.node) if (U.method_name(c) or U.call_name(c) or '').split('.')[-1] in ('dump', 'dumps', 'encoder')]
        late = [norm(c)[:60] for c in ser if c.lineno > first]
        ctx.ob('C20.ctx', f'{f.fq}:serialize-before-open', bool(ser) and not late,
               f'{late or "no serializer call found"}: the metadata is serialized after the old file was removed or the new one opened; metadata '
               f'that cannot be serialized leaves a truncated fragment where a valid file was', f.node, f.module)
    ctx.require(k >= 1, 'C20.ctx', 'no function that opens a metadata file for writing found in sc3.synth.synthdesc')


BUILD_READERS = ('_as_ugen_input', '_as_audio_rate_input', '_as_ugen_rate', '_envgen_format', '_interpolation_format')


def rule_param_objects(ctx):
    ctx.rule('C20.pure', 'objects that outlive a build and are handed to unit constructors (envelopes, buffers, buses, wrapped values: every '
                         'class outside the unit hierarchy that implements one of ' + ', '.join(BUILD_READERS) + ') are only read by a build: '
                         'neither these methods nor the methods of the object they call store anything on the object, so the bytes of a '
                         'definition do not depend on which builds (or evaluations) used the object before')
    repo = ctx.repo
    so = repo.cls('sc3.synth.ugen:SynthObject')
    n = 0
    for ci in sorted(repo.classes.values(), key=lambda c: c.fq):
        if not ci.module.name.startswith('sc3.') or so in repo.mro(ci):
            continue
        own = [m for m in BUILD_READERS if m in ci.methods]
        if not own:
            continue
        seen, todo = {}, [(m, m) for m in own]
        while todo:
            name, via = todo.pop()
            if name in seen:
                continue
            f = repo.resolve_method(ci, name)
            if f is None:
                continue
            seen[name] = (f, via)
            for c in U.calls(f.node):
                if U.is_self_attr(c.func) and c.func.attr not in seen:
                    todo.append((c.func.attr, via))
        for name, (f, via) in sorted(seen.items()):
            stores = [norm(x)[:70] for x in walk_local(f.node) if isinstance(x, (ast.Assign, ast.AugAssign, ast.AnnAssign))
                      for t in U.assigned_targets(x) if U.is_self_attr(t.value if isinstance(t, ast.Subscript) else t)]
            n += 1
            ctx.ob('C20.pure', f'{ci.fq}.{name}:read-only-for-a-build', not stores,
                   f'{ci.name}.{name} runs when a unit constructor reads the object ({via}) and stores {stores}: the object is shared between '
                   f'builds (module-level envelopes, buffers), so a later build sees what an earlier one left', f.node, f.module)
    ctx.require(n >= 12, 'C20.pure', f'only {n} methods of parameter objects analysed')


MEMO = ('lru_cache', 'cache', 'cached_property', 'functools.lru_cache', 'functools.cache', 'functools.cached_property')


def rule_memo(ctx, rid='C20.pure'):
    ctx.rule(rid, 'nothing on the build path is memoised across builds: no function or method of sc3.synth carries a caching decorator '
                  '(a cache keyed by a function or parameter object keeps the first answer although defaults, annotations and fields of '
                  'that object can change between builds: same arguments, different bytes)')
    n = 0
    for fi in sorted(ctx.repo.functions.values(), key=lambda f: f.fq):
        if not fi.module.name.startswith('sc3.synth'):
            continue
        n += 1
        memo = [d for d in fi.decorators if d.split('(')[0] in MEMO]
        if memo:
            # a cache over immutable keys (a name, a number) is harmless; what goes stale is an answer read out of the state of the
            # argument object: an attribute of a parameter, or a parameter handed to an introspecting / container-reading call
            ps = set(fi.params) | {a.arg for a in fi.node.args.kwonlyargs}
            reads = [norm(x)[:40] for x in ast.walk(fi.node) if isinstance(x, ast.Attribute) and isinstance(x.value, ast.Name) and x.value.id in ps]
            reads += [norm(c)[:40] for c in U.calls(fi.node)
                      if (norm(c.func).startswith('inspect.') or norm(c.func) in ('getattr', 'vars', 'dir', 'len', 'list', 'tuple', 'sorted', 'iter', 'dict'))
                      and any(isinstance(a, ast.Name) and a.id in ps for a in c.args)]
            if not reads:
                memo = []
        ctx.ob(rid, f'{fi.fq}:not-memoised', not memo,
               f'{fi.qualname} is decorated with {memo}: its result for an object is frozen at first use and survives into later builds',
               fi.node, fi.module, nontrivial=bool(memo))
    ctx.require(n >= 1200, rid, f'only {n} functions of sc3.synth analysed')


def rule_mutable_defaults(ctx):
    ctx.rule('C20.pure', 'no function of sc3.synth keeps a mutable default argument: a default list/dict/set is one object for the whole '
                         'process; stored on an object or written to, it carries what one definition put there into every later build')
    n = 0
    for fi in sorted(ctx.repo.functions.values(), key=lambda f: f.fq):
        if not fi.module.name.startswith('sc3.synth'):
            continue
        a = fi.node.args
        pos = a.posonlyargs + a.args
        pairs = list(zip(pos[len(pos) - len(a.defaults):], a.defaults)) + [(k, d) for k, d in zip(a.kwonlyargs, a.kw_defaults) if d is not None]
        for arg, d in pairs:
            mutable = isinstance(d, (ast.List, ast.Dict, ast.Set)) or (isinstance(d, ast.Call) and norm(d.func) in ('list', 'dict', 'set'))
            if not mutable:
                continue
            n += 1
            pn = arg.arg
            kept = [norm(x)[:60] for x in walk_local(fi.node) if isinstance(x, ast.Assign)
                    and any(isinstance(t, (ast.Attribute, ast.Subscript)) for t in x.targets) and pn in U.names_in(x.value)
                    and not (isinstance(x.value, ast.BoolOp) and isinstance(x.value.op, ast.Or) and isinstance(x.value.values[0], ast.Name)
                             and x.value.values[0].id == pn)]      # `p or fresh()`: an empty default is falsy and never the one stored
            kept += [norm(c)[:60] for c in U.calls(fi.node) if isinstance(c.func, ast.Attribute) and isinstance(c.func.value, ast.Name)
                     and c.func.value.id == pn and c.func.attr in ('append', 'extend', 'update', 'setdefault', 'add', 'insert', 'pop', 'clear')]
            kept += [norm(x)[:60] for x in walk_local(fi.node) if isinstance(x, (ast.Assign, ast.AugAssign))
                     for t in (x.targets if isinstance(x, ast.Assign) else [x.target])
                     if isinstance(t, ast.Subscript) and isinstance(t.value, ast.Name) and t.value.id == pn]
            ctx.ob('C20.pure', f'{fi.fq}:{pn}:default-not-shared', not kept,
                   f'parameter {pn} of {fi.qualname} defaults to one process-wide {norm(d)} and is stored or written ({kept[:2]}): every call '
                   f'without the argument shares it, later builds read what earlier ones left', fi.node, fi.module)


def run(ctx):
    rule_args(ctx)
    rule_mutable_defaults(ctx)
    rule_memo(ctx)
    rule_param_objects(ctx)
    rule_file(ctx)
    from . import c03
    ctx.rule('C20.own', 'helpers that run during a build do not write into containers handed in by the caller (a unit of one build would outlive it)')
    c03.argument_untouched(ctx, 'C20.own')
    rule_ctx(ctx)
    rule_own(ctx)
    rule_order(ctx)
    rule_pure(ctx)
    ctx.assume('calls and subscripts may raise; attribute loads/stores do not')


MUTANTS = [
    dict(rule='C20.pure', name='metadata and variants default to one shared dict that is kept on the definition (seed C20-m)', file='sc3/synth/synthdef.py',
         edits=[('sc3/synth/synthdef.py', "                 variants=None, metadata=None):", "                 variants={}, metadata={}):"),
                ('sc3/synth/synthdef.py', "        self._metadata = metadata or dict()", "        self._metadata = metadata if metadata is not None else dict()")]),
    dict(rule='C20.pure', name='signature of the graph function memoised per function object (seed C04-j)', file='sc3/synth/synthdef.py',
         old="class MetaSynthDef(type):\n", new="import functools\n\n\n@functools.lru_cache(maxsize=1024)\ndef _signature(func):\n    return inspect.signature(func)\n\n\nclass MetaSynthDef(type):\n"),
    dict(rule='C20.ctx', name='(fix reverted) metadata dumped into the open file after the old one was removed', file='sc3/synth/synthdesc.py',
         old="        if data is not None:\n            with open(path, 'w') as file:\n                file.write(data)\n",
         new="        if synthdef.metadata:\n            with open(path, 'w') as file:\n                json.dump(metadata, file)\n"),
    dict(rule='C20.pure', name='Env keeps its server format once computed (seed C20-h)', file='sc3/synth/envelope.py',
         old="    def _envgen_format(self):  # Was asMultichannelArray.\n",
         new="    def _envgen_format(self):  # Was asMultichannelArray.\n        if getattr(self, '_format', None) is None:\n            self._format = self._build_envgen_format()\n        return self._format\n\n    def _build_envgen_format(self):\n"),
    dict(rule='C20.ctx', name='store serializes into the open file (fix reverted)', file='sc3/synth/synthdef.py',
         old="            data = self.as_bytes()  # Before the file is truncated.\n            with open(path, 'wb') as file:\n                file.write(data)\n",
         new="            with open(path, 'wb') as file:\n                self._write_def_list([self], file)\n"),
    dict(rule='C20.own', name='rate overrides written into the live annotations of the user function (seed C20-g)', file='sc3/synth/synthdef.py',
         old="        rate_names = self._RATE_NAMES\n", new="        rate_names = self._RATE_NAMES\n        live = func.__annotations__\n        for i_, name_ in enumerate(names):\n            if rates[i_] in rate_names:\n                live[name_] = rates[i_]\n"),
    dict(rule='C20.ctx', name='definition serialized into the open file (fix reverted)', file='sc3/synth/synthdef.py',
         old="        data = self.as_bytes()\n        try:\n            # Should write if file doesn't exists or overwrite is True.\n            with open(path, mode) as file:\n                file.write(data)\n",
         new="        try:\n            # Should write if file doesn't exists or overwrite is True.\n            with open(path, mode) as file:\n                self._write_def_list([self], file)\n"),
    dict(rule='C20.order', name='dead-code pass dedupes its inputs with a set (seed C20-f)', file='sc3/synth/ugen.py',
         old="            for input in self.inputs:\n                if isinstance(input, UGen) and input._descendants\\\n                and not any(input is i for i in done):\n                    done.append(input)\n",
         new="            for input in set(i for i in self.inputs if isinstance(i, UGen)):\n                if input._descendants:\n"),
    dict(rule='C20.own', name='rates list of the caller padded in place (fix reverted)', file='sc3/synth/synthdef.py',
         old="        rates = list(rates) + [0] * (len(names) - len(rates))", new="        rates += [0] * (len(names) - len(rates))"),
    dict(rule='C20.own', name='zero replacement writes into the given list (fix reverted)', file='sc3/synth/ugen.py',
         old="        res = []\n        for item in lst:\n            if isinstance(item, (int, float)) and item == 0.0:\n                res.append(silence)\n            elif isinstance(item, list):\n                res.append(cls._replace_zeroes_with_silence(item))\n            else:\n                res.append(item)\n        return res\n",
         new="        for i, item in enumerate(lst):\n            if isinstance(item, (int, float)) and item == 0.0:\n                lst[i] = silence\n            elif isinstance(item, list):\n                lst[i] = cls._replace_zeroes_with_silence(item)\n        return lst\n"),
    dict(rule='C20.ctx', name='NRT replaces the build lock by a no-op context (seed C20-d)', file='sc3/base/main.py',
         old="        cls._clock_scheduler = clk.ClockScheduler()", new="        cls._clock_scheduler = clk.ClockScheduler()\n        cls._def_build_lock = contextlib.nullcontext()"),
    dict(rule='C20.own', name='(fix reverted) as_bytes hands out a writable view of its cache', file='sc3/synth/synthdef.py',
         old="            self._bytes = stream.getvalue()", new="            self._bytes = stream.getbuffer()"),
    dict(rule='C20.ctx', name='(fix reverted) context reset only for Exception subclasses', file='sc3/synth/synthdef.py',
         old="                self._func = func\n            finally:\n                _libsc3.main._current_synthdef = None", new="                self._func = func\n                _libsc3.main._current_synthdef = None\n            except Exception:\n                _libsc3.main._current_synthdef = None\n                raise"),
    dict(rule='C20.own', name='topo-sort lists become class-level defaults shared by all definitions (seed C20-c)', file='sc3/synth/synthdef.py',
         edits=[('sc3/synth/synthdef.py', "        # topo sort\n        self._available = []\n        self._width_first_ugens = []\n        self._rewrite_in_progress = False\n", ""),
                ('sc3/synth/synthdef.py', "        obj._available = []\n        obj._width_first_ugens = []\n        obj._rewrite_in_progress = False\n", ""),
                ('sc3/synth/synthdef.py', "    def __init__(self, name, func, rates=None, prepend=None,", "    _available = []\n    _width_first_ugens = []\n    _rewrite_in_progress = False\n\n    def __init__(self, name, func, rates=None, prepend=None,")]),
    dict(rule='C20.ctx', name='reset dropped from the finally block', file='sc3/synth/synthdef.py',
         old="                self._func = func\n            finally:\n                _libsc3.main._current_synthdef = None", new="                self._func = func\n                _libsc3.main._current_synthdef = None\n            finally:\n                pass"),
    dict(rule='C20.ctx', name='context set before taking the lock', file='sc3/synth/synthdef.py',
         old="        with _libsc3.main._def_build_lock:\n            try:\n                _libsc3.main._current_synthdef = self\n", new="        _libsc3.main._current_synthdef = self\n        with _libsc3.main._def_build_lock:\n            try:\n"),
    dict(rule='C20.ctx', name='reset moved out of the finally in the description reader', file='sc3/synth/synthdesc.py',
         old="            finally:\n                _libsc3.main._current_synthdef = None", new="            finally:\n                pass\n            _libsc3.main._current_synthdef = None"),
    dict(rule='C20.ctx', name='reset only when the build failed', file='sc3/synth/synthdef.py',
         old="                self._func = func\n            finally:\n                _libsc3.main._current_synthdef = None", new="                self._func = func\n            except BaseException:\n                _libsc3.main._current_synthdef = None\n                raise"),
    dict(rule='C20.own', name='a UGen method writes the context', file='sc3/synth/ugens/bufio.py',
         old="        max_local_bufs.increment()\n", new="        max_local_bufs.increment()\n        _libsc3.main._current_synthdef = _libsc3.main._current_synthdef\n"),
    dict(rule='C20.own', name='context cached on the class', file='sc3/synth/ugen.py',
         old="    def _add_to_synth(self):\n        self._synthdef = _libsc3.main._current_synthdef\n        if self._synthdef is not None:\n            self._synthdef._add_ugen(self)\n\n    def _collect_constants",
         new="    def _add_to_synth(self):\n        self._synthdef = type(self)._last_synthdef\n        if self._synthdef is not None:\n            self._synthdef._add_ugen(self)\n\n    def _collect_constants"),
    dict(rule='C20.order', name='sort removed in _arrange', file='sc3/synth/ugen.py',
         old="        descendants = list(self._descendants)\n        descendants.sort(key=lambda x: x._synth_index)\n", new="        descendants = list(self._descendants)\n"),
    dict(rule='C20.order', name='dead-code pass iterates antecedent set', file='sc3/synth/ugen.py',
         old="            for input in self.inputs:\n                if isinstance(input, UGen) and input._descendants\\\n", new="            for input in self._antecedents:\n                if isinstance(input, UGen) and input._descendants\\\n"),
    dict(rule='C20.order', name='constants numbered from the set', file='sc3/synth/synthdef.py',
         old="            self._constants[value] = len(self._constants)", new="            self._constants[value] = list(self._constant_set).index(value)"),
    dict(rule='C20.pure', name='class-level unit counter used on the build path', file='sc3/synth/ugen.py',
         old="        obj._synthdef = None  # Is_current_synthdef after _add_to_synth.\n", new="        obj._synthdef = None  # Is_current_synthdef after _add_to_synth.\n        cls._count = getattr(cls, '_count', 0) + 1\n"),
    dict(rule='C20.ctx', name='context tested before taking the lock', file='sc3/synth/synthdef.py',
         old="    def _build(self, func, rates, prepend):\n        with _libsc3.main._def_build_lock:", new="    def _build(self, func, rates, prepend):\n        if _libsc3.main._current_synthdef is not None:\n            raise Exception('nested build')\n        with _libsc3.main._def_build_lock:"),
]

REPAIRS = []


EQUIV = [
    dict(name='a memoised table lookup over names (immutable keys) in sc3.synth', file='sc3/synth/synthdef.py',
         old="class MetaSynthDef(type):\n", new="import functools\n\n\n@functools.lru_cache(maxsize=None)\ndef _rate_code(name):\n    return {'ir': 0, 'kr': 1, 'ar': 2, 'dr': 3}[name]\n\n\nclass MetaSynthDef(type):\n"),
]
