"""C18 - incoming messages reach exactly the responders that should fire."""

import ast
import re
import re as _re

from ..loader import norm, full, walk_local, walk_local_ordered, qualname_of, dump_name
from .. import util as U

EXPLANATION = (
    'Dispatch and decoding are checked structurally: the address-pattern matcher must be anchored at both ends and '
    'every regex-special character must be either rewritten or share its OSC meaning; every loop that invokes callbacks '
    'iterates a snapshot at every level it iterates and re-checks membership where an earlier callback can remove a '
    'later one; every registry\'s remove deletes from the container its add writes; containers iterated to invoke '
    'responders are insertion-ordered (list/dict), not sets; every integer decoded from a datagram and used as a '
    'slice length or index increment is checked 0 <= n <= remaining first; argument templates index a message only '
    'within its length; the receive path decodes the whole packet before the first dispatch, catches everything and '
    'the receive loop continues.')
LEVEL_TEXT = ('static: anchoring/rewriting table of the pattern matcher, snapshot-iteration rule on 8 dispatch loops, '
              'add/remove effect agreement of 6 registries, ordered-container rule, wire-length hygiene (taint from get_int '
              'to slices/advances), receive-path structure. Acceptance for all addresses/templates is not decided.')
LEVEL_NOTE = '`*` crossing `/` follows sclang and is not alarmed; regex semantics trusted'
LEVEL_TEXT_ADD = ' Also: position census on the per-path lists, re-check in every registry, malformed incoming patterns match nothing, unknown type tags end the parse. Three dispatch-order facts are known findings.'
LEVEL_TEXT_ADD += ' Rounds e-f: removal as an order-preserving filter accepted by the census; truncated floats and star backtracking are known findings.'
LEVEL_TEXT_ADD += ' Round i: free() reaches disable() under no condition but the responder being enabled.'
LEVEL_TEXT = (globals().get('LEVEL_TEXT') or EXPLANATION) + LEVEL_TEXT_ADD
TECHNIQUE = 'static analysis: callback-loop snapshot rule, registry effect summaries, wire-data bounds (taint) rule, regex-table check'


def rule_anchor(ctx):
    ctx.rule('C18.anchor', 'the regex address matcher uses re.fullmatch (or an end anchor); every regex-special character is a '
                           'key of the rewrite table or has the same meaning in OSC patterns')
    om_ = ctx.repo.func('sc3.base._oscmatch:osc_rematch_pattern')
    src_ = full(om_.node)
    ctx.ob('C18.anchor', f'{om_.fq}:star-bounded', any(t in src_ for t in ("count('*')", '(?>', '*+', 'possessive')),
           "every '*' of an incoming pattern becomes an unbounded `.*`: a hostile pattern with n stars makes re.fullmatch backtrack in "
           "O(len ** n) and the receiving thread stalls (12 stars against a 41-character path: minutes)", om_.node, om_.module)
    m = ctx.repo.module('sc3.base._oscmatch')
    f = m.functions['osc_rematch_pattern']
    cs = [c for c in U.calls(f.node) if (dump_name(c.func) or '').startswith('re.') and U.method_name(c) in ('match', 'fullmatch', 'search')]
    ok = len(cs) == 1 and (U.method_name(cs[0]) == 'fullmatch' or any(x in norm(cs[0].args[0]) for x in ("'$'", "'\\\\Z'")))
    ctx.ob('C18.anchor', f'{f.fq}:anchored', ok,
           f'matcher calls {[norm(c.func) for c in cs]}: re.match anchors only at the start, so a message to /foo fires a responder '
           f'registered at /foobar', f.node, m)
    ctx.ob('C18.anchor', f'{f.fq}:operands', bool(cs) and [norm(a) for a in cs[0].args[:2]] == [f.params[0], f.params[1]],
           'the message address is the pattern, the responder path the subject', f.node, m)
    # the incoming address is compiled as a regular expression: an address that is not a well-formed pattern ('/a[') must not
    # raise out of the matcher (the dispatchers after this one would never see the message); it simply matches nothing
    trs = [t for t in walk_local(f.node) if isinstance(t, ast.Try)]
    ok = False
    for t in trs:
        inside = any(c in list(U.calls(ast.Module(body=t.body, type_ignores=[]))) for c in cs)
        hn = [norm(h.type) if h.type is not None else 'bare' for h in t.handlers]
        falsy = all(len(h.body) == 1 and isinstance(h.body[0], ast.Return) and norm(h.body[0].value) == 'False' for h in t.handlers)
        if inside and falsy and any('re.error' in x or x in ('Exception', 'bare') for x in hn):
            ok = True
    ctx.ob('C18.anchor', f'{f.fq}:malformed-pattern', ok,
           'compiling the incoming address can raise re.error (unbalanced [ or {, reversed range): the matcher must catch it and '
           'return False', f.node, m)
    deep = False
    for t in trs:
        inside = any(c in list(U.calls(ast.Module(body=t.body, type_ignores=[]))) for c in cs)
        hn = [norm(h.type) if h.type is not None else 'bare' for h in t.handlers]
        if inside and any('RecursionError' in x or x in ('Exception', 'bare', 'BaseException') for x in hn):
            deep = True
    ctx.ob('C18.anchor', f'{f.fq}:over-deep-pattern', deep,
           'the regex compiler recurses on nested groups: a peer can send an address nested deep enough for RecursionError, which must not '
           'leave the matcher either (the receive functions after the matching dispatcher would be skipped for that datagram)', f.node, m)
    # a comma is an alternation only inside braces (OSC 1.0): the substitution callback must return the comma itself outside
    inner = [x for x in ast.walk(f.node) if isinstance(x, ast.FunctionDef) and x is not f.node]
    ok = False
    for cb in inner:
        for br in ast.walk(cb):
            if isinstance(br, ast.If):
                tests = []
                node = br
                while isinstance(node, ast.If):
                    tests.append((norm(node.test), [norm(x) for x in node.body]))
                    node = node.orelse[0] if len(node.orelse) == 1 and isinstance(node.orelse[0], ast.If) else None
                if any(re.fullmatch(r"symbol == ',' and depth <= 0", t) and b == ["return ','"] for t, b in tests) and \
                        any(t == "symbol == '{'" and b == ['depth += 1'] for t, b in tests) and any(t == "symbol == '}'" and b == ['depth -= 1'] for t, b in tests):
                    ok = True
    ctx.ob('C18.anchor', f'{f.fq}:comma-inside-braces-only', ok,
           "the translator must keep a brace depth and translate ',' to '|' only inside {...}: otherwise the address '/a,/b' fires the "
           "responders on '/a' and on '/b'", f.node, m)
    tab = U.literal(m.assigns.get('_rewrite_symbols'))
    ctx.require(isinstance(tab, dict), 'C18.anchor', '_rewrite_symbols is not a literal dict')
    special = set('.^$*+?{}[]\\|()')
    same_meaning = set('[]')
    missing = sorted(ch for ch in special if ch not in tab and ch not in same_meaning)
    ctx.ob('C18.anchor', f'{m.name}:_rewrite_symbols:complete', not missing,
           f'regex-special characters neither rewritten nor shared with OSC: {missing}', m.assigns['_rewrite_symbols'], m)
    want = {'{': '(?:', ',': '|', '}': ')', '?': '.', '[!': '[^', '*': '.*'}
    for k, v in want.items():
        ctx.ob('C18.anchor', f'{m.name}:_rewrite_symbols[{k}]', tab.get(k) == v, f'OSC {k!r} must become regex {v!r}; is {tab.get(k)!r}', m.assigns['_rewrite_symbols'], m)
    for k in '().^$+|':
        ctx.ob('C18.anchor', f'{m.name}:_rewrite_symbols[{k}]:escaped', tab.get(k) == '\\' + k, f'literal {k!r} must be escaped', m.assigns['_rewrite_symbols'], m)
    r = ctx.repo.module('sc3.base.responders')
    ctx.ob('C18.anchor', f'{r.name}:matcher-import', r.aliases.get('_match_osc_address_pattern', '').endswith('_oscmatch.osc_rematch_pattern') or
           r.aliases.get('_match_osc_address_pattern', '').endswith('_oscmatch.osc_match_pattern'),
           'responders use the library matcher', None, r)


DISPATCH_SITES = [
    'sc3.base.responders:OscMessageDispatcher.__call__',
    'sc3.base.responders:OscMessagePatternDispatcher.__call__',
    'sc3.base._oscinterface:OscInterface._msg_dispatch.<locals>.sched_func',
    'sc3.base.systemactions:SystemAction.run',
    'sc3.base.systemactions:ServerAction._run_actions',
    'sc3.base.model:NotificationCenter.notify',
    'sc3.base.responders:MidiMessageDispatcher.__call__',
    'sc3.base._midiinterface:MidiRtInterface._msg_dispatch.<locals>.sched_func',
]


def is_snapshot(it):
    if isinstance(it, ast.Call):
        if isinstance(it.func, ast.Attribute) and it.func.attr == 'copy':
            return True
        if isinstance(it.func, ast.Attribute) and it.func.attr in ('items', 'values', 'keys') and isinstance(it.func.value, ast.Call) \
                and isinstance(it.func.value.func, ast.Attribute) and it.func.value.func.attr == 'copy':
            return True
        if isinstance(it.func, ast.Name) and it.func.id in ('list', 'tuple', 'sorted'):
            return True
    if isinstance(it, ast.Subscript) and isinstance(it.slice, ast.Slice) and it.slice.lower is None and it.slice.upper is None:
        return True
    return False


def rule_snap(ctx):
    ctx.rule('C18.snap', 'a loop whose body invokes callbacks iterates a snapshot at every level (a shallow copy of a dict of '
                         'lists does not snapshot the lists); where an earlier callback can remove a later one membership is '
                         're-checked before the call')
    n = 0
    for fq in DISPATCH_SITES:
        f = ctx.repo.try_func(fq)
        if f is None:
            continue
        loops = [s for s in walk_local(f.node) if isinstance(s, ast.For)]
        # variables bound by outer loops from a snapshot are still live inner containers
        for lp in loops:
            invokes = any(U.method_name(c) in ('value', '_do_action') or (isinstance(c.func, ast.Name) and c.func.id in ('func', 'action')) or
                          norm(c.func) in ('fn.value',) for c in U.calls(lp))
            if not invokes:
                continue
            n += 1
            ok = is_snapshot(lp.iter)
            ctx.ob('C18.snap', f'{fq}:for {norm(lp.target)} in {norm(lp.iter)}', ok,
                   f'iterates the live container {norm(lp.iter)} while invoking callbacks: a responder that removes itself (one-shot, '
                   f'free) during the call makes the next one miss the message', lp, f.module)
    ctx.require(n >= 7, 'C18.snap', f'only {n} dispatch loops found')
    # membership re-check in the responder dispatchers (free/disable of a later responder by an earlier one)
    for fq in DISPATCH_SITES[:2] + ['sc3.base.responders:MidiMessageDispatcher.__call__']:
        f = ctx.repo.func(fq)
        inner = [s for s in walk_local(f.node) if isinstance(s, ast.For) and any(norm(c.func) == 'fn.value' for c in U.calls(s))]
        inner = [s for s in inner if not any(isinstance(x, ast.For) for x in walk_local(ast.Module(body=s.body, type_ignores=[])))]
        ok = bool(inner) and all(isinstance(s.body[-1], ast.If) and ' in self.active' in norm(s.body[-1].test) and
                                 any(norm(c.func) == 'fn.value' for c in U.calls(s.body[-1])) for s in inner)
        ctx.ob('C18.snap', f'{fq}:recheck', ok, 'a responder freed by an earlier responder of the same message must not be invoked', f.node, f.module)
    sa = ctx.repo.func('sc3.base.systemactions:SystemAction._do_action')
    ctx.ob('C18.snap', f'{sa.fq}:recheck', f'if {sa.params[1]} in cls._actions:' in full(sa.node), 'system actions re-check registration before running', sa.node, sa.module)
    # the other two registries: every invocation inside the snapshot loop is guarded by a membership test on the live registry
    for fq, live in (('sc3.base.systemactions:ServerAction._run_actions', 'cls._servers'), ('sc3.base.model:NotificationCenter.notify', 'cls._registrations')):
        f = ctx.repo.func(fq)
        loops = [x for x in walk_local(f.node) if isinstance(x, ast.For)]
        ok = bool(loops)
        for lp in loops:
            calls = [c for c in U.calls(lp) if norm(c.func) in ('action', 'fn.value')]
            for c in calls:
                inside = {id(x) for x in ast.walk(lp)}
                guarded = any(isinstance(p_, ast.If) and id(p_) in inside and U.in_body(c, p_, 'body') and ' in ' + live in norm(p_.test)
                              for p_ in U.parent_chain(c))
                ok = ok and guarded
            ok = ok and bool(calls)
        ctx.ob('C18.snap', f'{fq}:recheck', ok,
               f'an action removed by an earlier action of the same run must not be run: each call needs a membership test on {live}', f.node, f.module)
    sr = ctx.repo.func('sc3.base.systemactions:ServerAction.run')
    src = full(sr.node)
    ok = U.before(src, 'cls._run_actions(server, server)', "cls._run_actions('default', server)", "cls._run_actions('all', server)")
    ctx.ob('C18.snap', f'{sr.fq}:groups', ok, 'server actions run for the server, then the default group, then all', sr.node, sr.module)


REGISTRIES = [
    # (class fq, add method, remove method, container text as seen in add)
    ('sc3.base.systemactions:SystemAction', 'add', 'remove', 'cls._actions'),
    ('sc3.base.systemactions:ServerAction', 'add', 'remove', 'cls._servers[server]'),
    ('sc3.base._oscinterface:OscInterface', 'add_recv_func', 'remove_recv_func', 'cls._recv_functions'),
    ('sc3.base.responders:AbstractWrappingDispatcher', 'add', 'remove', 'self.active[key]'),
    ('sc3.base.model:NotificationCenter', 'register', 'unregister', 'cls._registrations[obj][msg]'),
    ('sc3.seq.eventstream:EventStreamCleanup', 'add', 'remove', 'self._entries'),
]


def writes_to(fnode, container):
    for s in walk_local(fnode):
        if isinstance(s, ast.Assign):
            for t in s.targets:
                if isinstance(t, ast.Subscript) and norm(t.value) == container:
                    return True
                if norm(t) == container:
                    return True
        if isinstance(s, ast.Call) and isinstance(s.func, ast.Attribute) and s.func.attr in ('add', 'append', 'update', 'setdefault') \
                and norm(s.func.value) == container:
            return True
    return False


def deletes_from(fnode, container):
    for s in walk_local(fnode):
        if isinstance(s, ast.Delete):
            for t in s.targets:
                if isinstance(t, ast.Subscript) and norm(t.value) == container:
                    return True
        if isinstance(s, ast.Call) and isinstance(s.func, ast.Attribute) and s.func.attr in ('pop', 'remove', 'discard') \
                and norm(s.func.value) == container:
            return True
    return False


def rule_effect(ctx):
    ctx.rule('C18.effect', 'in every registry the remove/unregister method deletes from the container the add/register method writes')
    for cfq, add, rem, cont in REGISTRIES:
        ci = ctx.repo.cls(cfq)
        a, r = ci.methods[add], ci.methods[rem]
        ctx.ob('C18.effect', f'{a.fq}:writes {cont}', writes_to(a.node, cont), f'{add} must store into {cont}', a.node, ci.module)
        ctx.ob('C18.effect', f'{r.fq}:deletes-from {cont}', deletes_from(r.node, cont),
               f'{rem} does not delete from {cont}: the action stays registered and keeps running', r.node, ci.module)
    # the notification registry is keyed obj -> msg -> listener and unregister takes a key prefix: what it deletes is exactly as deep as
    # the prefix the caller gave (removing the last listener of one message must not drop the object's other messages)
    un = ctx.repo.func('sc3.base.model:NotificationCenter.unregister')
    ps = un.params[1:]                       # obj, msg, listener
    dels = [d for d in walk_local(un.node) if isinstance(d, ast.Delete)]
    bad = []
    for d in dels:
        for t in d.targets:
            depth, b = 0, t
            while isinstance(b, ast.Subscript):
                depth, b = depth + 1, b.value
            if norm(b) != 'cls._registrations':
                continue
            given = 1
            for q in ps[1:]:
                # q is known to be given where the statement sits in the else-branch of `if q is None`
                if any(isinstance(p_, ast.If) and ((norm(p_.test) == f'{q} is None' and U.in_body(d, p_, 'orelse')) or
                                                  (norm(p_.test) == f'{q} is not None' and U.in_body(d, p_, 'body')))
                       for p_ in U.parent_chain(d)):
                    given += 1
                else:
                    break
            if depth != given:
                bad.append(f'{norm(d)[:60]} (key prefix of {given}, deletes at depth {depth})')
    ctx.ob('C18.effect', f'{un.fq}:deletes-what-was-named', len(dels) >= 3 and not bad,
           f'unregister deletes more or less than the caller named: {bad}: listeners registered under other message names of the object '
           f'(or other listeners of the message) disappear with it', un.node, un.module)
    # enable/disable/free of responders go through the dispatcher's add/remove
    rf = ctx.repo.cls('sc3.base.responders:AbstractResponderFunc')
    en, dis, fr = rf.methods['enable'], rf.methods['disable'], rf.methods['free']
    ctx.ob('C18.effect', f'{en.fq}', 'if not self.enabled:' in full(en.node) and 'self.dispatcher.add(self)' in full(en.node) and 'self.enabled = True' in full(en.node),
           'enable adds the responder once', en.node, rf.module)
    ctx.ob('C18.effect', f'{dis.fq}', 'if self.enabled:' in full(dis.node) and 'self.dispatcher.remove(self)' in full(dis.node) and 'self.enabled = False' in full(dis.node),
           'disable removes the responder', dis.node, rf.module)
    ctx.ob('C18.effect', f'{fr.fq}', 'if self.enabled: self.disable()' in full(fr.node) or any(norm(x) == 'self.disable()' for x in fr.node.body),
           'free disables the responder (disable() tests `enabled` itself, so an unconditional call is the same)', fr.node, rf.module)
    # ... whatever the bookkeeping set says: the only condition on the way to disable() is the responder being enabled (a responder
    # revived with enable() after a free is not in _all_func_proxies unless enable() put it back)
    dcalls = [c for c in U.calls(fr.node) if U.is_self_attr(c.func, 'disable')]
    tests = sorted({norm(p_.test) for c in dcalls for p_ in U.parent_chain(c) if isinstance(p_, ast.If)})
    early = [norm(r)[:40] for r in walk_local(fr.node) if isinstance(r, (ast.Return, ast.Raise)) and dcalls and r.lineno < dcalls[0].lineno]
    ctx.ob('C18.effect', f'{fr.fq}:disables-unconditionally', len(dcalls) == 1 and set(tests) <= {'self.enabled'} and not early,
           f'free() reaches disable() only under {tests} (early exits {early}): a freed responder that was enabled again, a fired one-shot that was '
           f're-armed, or a responder at CmdPeriod stays registered when the extra condition fails', fr.node, rf.module)
    os_ = rf.methods['one_shot']
    src = full(os_.node)
    ctx.ob('C18.effect', f'{os_.fq}', U.before(src, 'self.free()', 'fn.value(wrapped_func, *args)'),
           'a one-shot responder frees itself before running its function (never fires twice)', os_.node, rf.module)


def rule_order(ctx):
    ctx.rule('C18.order', 'containers iterated to invoke responders/actions in registration order are lists or dicts, never sets')
    checks = [('sc3.base._oscinterface:OscInterface', '_recv_functions'), ('sc3.base.systemactions:CmdPeriod', '_actions'),
              ('sc3.base.systemactions:StartUp', '_actions'), ('sc3.base.systemactions:ShutDown', '_actions'),
              ('sc3.base.systemactions:ServerBoot', '_servers'), ('sc3.base.systemactions:ServerQuit', '_servers'),
              ('sc3.base.systemactions:ServerTree', '_servers')]
    for cfq, attr in checks:
        ci = ctx.repo.cls(cfq)
        v = ci.class_assigns.get(attr)
        ok = v is not None and ((isinstance(v, ast.Call) and norm(v.func) in ('dict', 'list')) or isinstance(v, (ast.Dict, ast.List)))
        ctx.ob('C18.order', f'{cfq}:{attr}:ordered', ok,
               f'{ci.name}.{attr} = {norm(v) if v is not None else None}: a set is iterated in hash order, not registration order', ci.node, ci.module)
    d = ctx.repo.cls('sc3.base.responders:AbstractWrappingDispatcher')
    init = d.methods['__init__']
    ctx.ob('C18.order', f'{d.fq}:active', 'self.active = dict()' in full(init.node), 'path -> list of wrapped functions', init.node, d.module)
    a = d.methods['add']
    ctx.ob('C18.order', f'{a.fq}:append', 'self.active[key].append(func)' in full(a.node) and 'self.active[key] = [func]' in full(a.node),
           'responders of a path are kept in a list in registration order', a.node, d.module)
    # census of position-changing operations on the per-path lists: registration appends (add), unregistration removes
    # (remove), a function replacement overwrites the slot in place; nothing else moves a registered responder
    POS = {'append': 'add', 'insert': None, 'extend': None, 'remove': 'remove', 'pop': None, 'sort': None, 'reverse': None, 'clear': None}
    sites = 0
    for ci in [d] + ctx.repo.subclasses(d, strict=True):
        for mname, f in ci.methods.items():
            for c in U.calls(f.node):
                if isinstance(c.func, ast.Attribute) and c.func.attr in POS and isinstance(c.func.value, ast.Subscript) \
                        and U.is_self_attr(c.func.value.value, 'active'):
                    sites += 1
                    allowed = POS[c.func.attr]
                    ctx.ob('C18.order', f'{f.fq}:{norm(c)}', allowed == mname,
                           f'{norm(c)} in {ci.name}.{mname} changes the position of an already registered responder '
                           f'(only add() may append and only remove() may remove; a replacement must keep its slot)', c, ci.module)
            for n in walk_local(f.node):
                if isinstance(n, ast.Assign) and isinstance(n.value, (ast.Call, ast.BinOp, ast.ListComp)) and len(n.targets) == 1 \
                        and isinstance(n.targets[0], ast.Subscript) and U.is_self_attr(n.targets[0].value, 'active') \
                        and ('sorted(' in norm(n.value) or 'reversed(' in norm(n.value) or isinstance(n.value, ast.BinOp)):
                    sites += 1
                    ctx.ob('C18.order', f'{f.fq}:{norm(n)}', False, f'{norm(n)} rebuilds a per-path responder list in another order', n, ci.module)
                elif isinstance(n, ast.Assign) and len(n.targets) == 1 and isinstance(n.targets[0], ast.Subscript) \
                        and U.is_self_attr(n.targets[0].value, 'active') and mname == 'remove':
                    # removal written as an order-preserving filter of the same list (bound directly or through a local)
                    val = n.value
                    if isinstance(val, ast.Name):
                        defs = [x.value for x in walk_local(f.node) if isinstance(x, ast.Assign) and norm(x.targets[0]) == val.id]
                        val = defs[-1] if defs else val
                    if isinstance(val, ast.ListComp) and len(val.generators) == 1 and norm(val.generators[0].iter) == norm(n.targets[0]) \
                            and norm(val.elt) == norm(val.generators[0].target):
                        sites += 1
                        ctx.ob('C18.order', f'{f.fq}:{norm(n)}:filter', True, 'removal as an order-preserving filter', n, ci.module)
    ctx.require(sites >= 2, 'C18.order', f'only {sites} position-changing sites on self.active[...] found')
    u = d.methods['update_func_for_func_proxy']
    src = full(u.node)
    loops = [x for x in walk_local(u.node) if isinstance(x, ast.For)]
    ok = False
    if len(loops) == 1 and isinstance(loops[0].target, ast.Name):
        k = loops[0].target.id
        body = [norm(x) for x in loops[0].body]
        ok = len(body) == 2 and body[0].endswith(f' = self.active[{k}].index(old_func)') and \
            body[1] == f'self.active[{k}][{body[0].split(" = ")[0]}] = func'
    ctx.ob('C18.order', f'{u.fq}:in-place', ok, 'replacing a responder function overwrites the old wrapper at its index on every path key', u.node, d.module)
    # recorded, not repaired (known findings): responders live in per-dispatcher, per-path lists
    md = ctx.repo.func('sc3.base.responders:OscMessagePatternDispatcher.__call__')
    outer = [x for x in walk_local(md.node) if isinstance(x, ast.For) and 'self.active' in norm(x.iter)]
    ctx.ob('C18.order', f'{md.fq}:path-grouped', not outer,
           'the matching dispatcher walks its registry path by path: matching responders registered A(/x/1), B(/x/2), C(/x/1) fire A, C, B '
           'for /x/* (grouped by path, not in registration order)', md.node, md.module)
    of = ctx.repo.cls('sc3.base.responders:OscFunc')
    two = '_default_dispatcher' in of.class_assigns or any('_default_matching_dispatcher' in norm(x) for x in ast.walk(of.node))
    ctx.ob('C18.order', f'{of.fq}:two-dispatchers', not two,
           'plain and matching responders are kept by two dispatchers that the receiver calls one after the other: plain A, matching B, '
           'plain C on one path fire A, C, B', of.node, of.module)
    ed = ctx.repo.func('sc3.base.responders:OscMessageDispatcher.__call__')
    by_wrapper = any(isinstance(x, ast.If) and re.fullmatch(r'func in self\.active\.get\(.+\)', norm(x.test)) for x in walk_local(ed.node))
    replaces = 'self.active[key][i] = func' in full(u.node)
    ctx.ob('C18.order', f'{ed.fq}:recheck-by-wrapper', not (by_wrapper and replaces),
           'the re-check before each call looks for the snapshot wrapper in the live list, and a function replacement swaps the wrapper: '
           'a responder whose function an earlier responder of the same message replaces (func setter, one_shot) is skipped for that message',
           ed.node, ed.module)
    mi = ctx.repo.try_cls('sc3.base._midiinterface:MidiRtInterface')
    if mi is not None:
        src = full(mi.methods['__init__'].node)
        ctx.ob('C18.order', f'{mi.fq}:_recv_functions:ordered', 'self._recv_functions = dict()' in src or 'self._recv_functions = []' in src,
               'MIDI receive functions are kept in registration order', mi.node, mi.module)


def rule_wire(ctx):
    ctx.rule('C18.wire', 'every int decoded from a datagram (get_int) that reaches a slice bound or an index increment is first '
                         'checked to be >= 0 and within the remaining bytes; argument templates never index past the message')
    m = ctx.repo.module('sc3.base._osclib')
    n = 0
    for fi in m.functions.values():
        ss = [s for s in walk_local_ordered(fi.node) if isinstance(s, ast.stmt)]
        for i, s in enumerate(ss):
            if isinstance(s, ast.Assign) and isinstance(s.value, ast.Call) and U.method_name(s.value) == 'get_int' \
                    and isinstance(s.targets[0], ast.Tuple) and isinstance(s.targets[0].elts[0], ast.Name):
                var = s.targets[0].elts[0].id
                # derived names
                tainted = {var}
                uses = []
                neg = upper = False
                for t in ss[i + 1:]:
                    if isinstance(t, ast.If):
                        src = norm(t.test)
                        ends = t.body and isinstance(t.body[-1], ast.Raise)
                        if ends and not uses:
                            if _re.search(rf'\b{var} < 0\b', src):
                                neg = True
                            if any(_re.search(rf'\b{v}\b', src) for v in tainted) and 'len(' in src and ('>' in src or '<' in src.replace(f'{var} < 0', '')):
                                upper = True
                        continue
                    if isinstance(t, ast.Assign) and any(v in U.names_in(t.value) for v in tainted) and isinstance(t.targets[0], ast.Name) \
                            and not any(isinstance(x, ast.Subscript) for x in ast.walk(t.value)):
                        tainted.add(t.targets[0].id)
                        continue
                    for x in ast.walk(t):
                        if isinstance(x, ast.Subscript) and isinstance(x.slice, ast.Slice):
                            for b in (x.slice.lower, x.slice.upper):
                                if b is not None and any(v in U.names_in(b) for v in tainted):
                                    uses.append(x)
                        if isinstance(x, ast.AugAssign) and any(v in U.names_in(x.value) for v in tainted):
                            uses.append(x)
                    if isinstance(t, ast.Return) and any(v in U.names_in(t) for v in tainted):
                        uses.append(t)
                if not uses:
                    continue
                n += 1
                ctx.ob('C18.wire', f'{fi.fq}:{var}:non-negative', neg,
                       f'{var} is decoded from the datagram and used in {norm(uses[0])[:50]} without a `{var} < 0` rejection: a negative '
                       f'size moves the read position backwards (endless loop) or yields a wrong slice', s, m)
                ctx.ob('C18.wire', f'{fi.fq}:{var}:within-remaining', upper,
                       f'{var} is not compared with the remaining length before use: an oversized value is silently truncated by slicing', s, m)
    ctx.require(n >= 2, 'C18.wire', f'only {n} decoded lengths found')
    # fixed-width readers check the remaining length
    for name in ('get_int', 'get_timetag', 'get_double', 'get_rgba', 'get_midi'):
        f = m.functions[name]
        ctx.ob('C18.wire', f'{f.fq}:length-check', 'if len(dgram[start_index:]) < ' in full(f.node) and 'raise Osc' in full(f.node),
               f'{name} rejects truncated datagrams', f.node, m)
    gf = m.functions['get_float']
    short = [t for t in walk_local(gf.node) if isinstance(t, ast.If) and 'len(dgram[start_index:])' in norm(t.test)]
    ctx.ob('C18.wire', f'{gf.fq}:length-check', bool(short) and all(any(isinstance(x, ast.Raise) for x in t.body) for t in short),
           'get_float pads a truncated float with zero bytes instead of rejecting it (kept from python-osc for a sender that omits trailing '
           'zero bytes): a datagram cut inside a float argument is dispatched with an invented value', gf.node, m)
    gs = m.functions['get_string']
    src = full(gs.node)
    ctx.ob('C18.wire', f'{gs.fq}:bounds', 'if start_index < 0: raise OscTypeParseError' in src and 'if offset > len(dgram[start_index:]): raise OscTypeParseError' in src
           and 'except IndexError as e: raise OscTypeParseError' in src, 'string reader rejects negative start, unterminated and short strings', gs.node, m)
    # parser wraps type errors
    pc = ctx.repo.func('sc3.base._osclib:OscBundle._parse_contents')
    lp = [s for s in walk_local(pc.node) if isinstance(s, ast.While)]
    ok = len(lp) == 1 and norm(lp[0].test) == 'self._dgram[index:]'
    ctx.ob('C18.wire', f'{pc.fq}:loop', ok, 'bundle parsing loops while bytes remain', pc.node, m)
    adv = [s for s in walk_local(pc.node) if isinstance(s, ast.AugAssign) and norm(s.target) == 'index']
    ctx.ob('C18.wire', f'{pc.fq}:progress', len(adv) == 1 and isinstance(adv[0].op, ast.Add) and norm(adv[0].value) == 'content_size',
           'each iteration advances by the 4-byte size (get_int) plus a checked non-negative element size: strict progress', pc.node, m)
    am = ctx.repo.cls('sc3.base.responders:OscArgsMatcher')
    c = am.methods['__call__']
    src = full(c.node)
    ok = U.before(src, 'args = msg[1:]', 'if len(self.arg_template) > len(args): return', 'for i, item in enumerate(self.arg_template):')
    ctx.ob('C18.wire', f'{c.fq}:template-bounds', ok,
           'the argument template indexes args[i] for every template position: a message shorter than the template must be '
           'rejected before the loop (IndexError escapes and also suppresses the other responders)', c.node, am.module)


def rule_recv(ctx):
    ctx.rule('C18.recv', '_handle_request decodes the whole packet before the first dispatch and catches everything; the UDP loop '
                         'continues after it; dispatch goes through the clock (logical time update)')
    f = ctx.repo.func('sc3.base._oscinterface:OscInterface._handle_request')
    tries = [t for t in walk_local(f.node) if isinstance(t, ast.Try)]
    ctx.require(len(tries) == 1, 'C18.recv', '_handle_request try block not found')
    t = tries[0]
    body = U.body_nodoc(f.node)
    ctx.ob('C18.recv', f'{f.fq}:all-in-try', len(body) == 1 and body[0] is t, 'everything happens inside the try', f.node, f.module)
    hs = [norm(h.type) if h.type is not None else 'bare' for h in t.handlers]
    ok = hs in (['bare'], ['Exception'], ['BaseException']) and not any(isinstance(x, ast.Raise) for h in t.handlers for s in h.body for x in ast.walk(s))
    ctx.ob('C18.recv', f'{f.fq}:catch-all', ok, f'handlers {hs}: a malformed datagram must raise nothing into the receiver', t, f.module)
    ss = [full(s) for s in t.body]
    i_dec = next((i for i, s in enumerate(ss) if 'oli.OscPacket(' in s), -1)
    i_loop = next((i for i, s in enumerate(ss) if s.startswith('for ') and '_msg_dispatch(' in s), -1)
    ctx.ob('C18.recv', f'{f.fq}:decode-before-dispatch', 0 <= i_dec < i_loop and
           not any('OscPacket' in norm(x) for x in ast.walk(t.body[i_loop]) if isinstance(x, ast.Call)),
           'the whole packet is decoded before the first message is dispatched (a malformed tail invokes nothing)', t, f.module)
    u = ctx.repo.func('sc3.base._oscinterface:OscUdpInterface._udp_run')
    lp = [s for s in walk_local(u.node) if isinstance(s, ast.While)]
    ok = len(lp) == 1 and any(U.method_name(c) == '_handle_request' for c in U.calls(lp[0])) and norm(lp[0].test) == 'self._running'
    ctx.ob('C18.recv', f'{u.fq}:loop', ok, 'the receive loop handles one datagram per iteration and continues', u.node, u.module)
    # a datagram ends the loop only if it is the interface's own wake-up: empty *and* sent from the bound address (unbind() sends it);
    # an empty datagram from anybody else must not stop the receiver
    bad = []
    if len(lp) == 1:
        for br in [x for x in ast.walk(lp[0]) if isinstance(x, (ast.Break, ast.Return))]:
            if any(isinstance(p_, ast.ExceptHandler) for p_ in U.parent_chain(br)):
                continue           # socket errors end the loop (closed socket)
            tests = [norm(p_.test) for p_ in U.parent_chain(br) if isinstance(p_, ast.If)]
            own = any(('getsockname' in t or 'bind_addr' in t or '_bind_addr' in t) and ('==' in t) for t in tests)
            if not own:
                bad.append(tests or ['unconditional'])
    ctx.ob('C18.recv', f'{u.fq}:exit-own-datagram-only', len(lp) == 1 and not bad,
           f'the receive loop is left under {bad}: a zero-length datagram from any sender ends the receiver thread (the port stays '
           f'registered as open, every later datagram is dropped); the exit must also require the sender to be the bound address', u.node, u.module)
    tr = ctx.repo.func('sc3.base._oscinterface:OscTcpInterface._tcp_run')
    hs = [h for t_ in walk_local(tr.node) if isinstance(t_, ast.Try) for h in t_.handlers]
    names = set()
    for h in hs:
        if h.type is None:
            names.add('bare')
        else:
            names |= {norm(e) for e in (h.type.elts if isinstance(h.type, ast.Tuple) else [h.type])}
    ok = bool(hs) and ('bare' in names or 'Exception' in names or {'OSError', 'ValueError', 'struct.error'} <= names) and \
        all(any(norm(x) == 'self._is_connected = False' for x in h.body) and isinstance(h.body[-1], ast.Break) for h in hs)
    ctx.ob('C18.recv', f'{tr.fq}:size-prefix-errors', ok,
           f'the tcp receive loop catches {sorted(names)}: a negative or short size prefix raises ValueError / struct.error, which must end '
           f'the loop as a lost connection (is_connected False) instead of killing the thread silently', tr.node, tr.module)
    d = ctx.repo.func('sc3.base._oscinterface:OscInterface._msg_dispatch')
    src = full(d.node)
    ok = 'clk.SystemClock.sched(0, sched_func)' in src and 'func(list(msg), time, addr, self.port)' in src
    ctx.ob('C18.recv', f'{d.fq}', ok, 'dispatch runs on the clock with (message, time, sender, port); each function gets its own copy of the message', d.node, d.module)


def rule_tags(ctx):
    ctx.rule('C18.wire', 'the message reader consumes the data of every type tag it accepts and refuses the tags it does not handle: '
                         'a skipped tag with data would shift every later argument')
    m = ctx.repo.module('sc3.base._osclib')
    f = m.functions['OscMessage._parse_datagram']
    loops = [x for x in walk_local(f.node) if isinstance(x, ast.For) and norm(x.iter) == 'type_tag']
    ctx.require(len(loops) == 1, 'C18.wire', 'type tag loop not found')
    node = loops[0].body[0]
    n = 0
    while isinstance(node, ast.If):
        tag = norm(node.test)
        body = [norm(x) for x in node.body]
        n += 1
        if len(node.orelse) == 1 and isinstance(node.orelse[0], ast.If):
            node = node.orelse[0]
            continue
        # final else: unknown tag
        eb = node.orelse
        ok = bool(eb) and isinstance(eb[-1], ast.Raise) and 'OscMessageParseError' in norm(eb[-1])
        ctx.ob('C18.wire', f'{f.fq}:unknown-tag', ok,
               f'an unhandled type tag must end the parse with OscMessageParseError (found {[norm(x)[:40] for x in eb]}): its data size '
               f'is unknown, so continuing reads the following arguments at the wrong offset', loops[0], m)
        break
    ctx.require(n >= 10, 'C18.wire', f'only {n} type tag branches found')
    pc = m.functions['OscBundle._parse_contents']
    chains = [x for x in walk_local(pc.node) if isinstance(x, ast.If) and 'dgram_is_bundle' in norm(x.test)]
    ok = False
    if chains:
        node = chains[0]
        while len(node.orelse) == 1 and isinstance(node.orelse[0], ast.If):
            node = node.orelse[0]
        ok = bool(node.orelse) and isinstance(node.orelse[-1], ast.Raise) and 'OscBundleParseError' in norm(node.orelse[-1])
    ctx.ob('C18.wire', f'{pc.fq}:unknown-element', ok,
           'a bundle element that is neither a bundle nor a message makes the whole datagram malformed: the parse must end with '
           'OscBundleParseError instead of skipping the element and dispatching its siblings', pc.node, m)


def rule_accept(ctx):
    ctx.rule('C18.effect', 'the three source/port wrappers accept a message exactly when the sender host equals the responder\'s, the sender '
                           'port equals it unless the responder gave none, and (when given) the receive port equals it; the combined '
                           'wrapper is the conjunction of the two single ones; wrap_func picks the wrapper from what the responder specifies')
    m = ctx.repo.module('sc3.base.responders')
    ADDR = ['self.addr.addr == addr.addr', 'self.addr.port is None or self.addr.port == addr.port']
    PORT = ['self.recv_port == recv_port']
    want = {'OscFuncAddrMessageMatcher': ADDR, 'OscFuncRecvPortMessageMatcher': PORT, 'OscFuncBothMessageMatcher': ADDR + PORT}
    for cname, conj in want.items():
        f = m.classes[cname].methods['__call__']
        body = U.body_nodoc(f.node)
        test = ' and '.join(conj)
        ok = len(body) == 1 and isinstance(body[0], ast.If) and [norm(c) for c in U.conjuncts(body[0].test)] == conj and not body[0].orelse and \
            [norm(x) for x in body[0].body] == ['fn.value(self.func, msg, time, addr, recv_port)']
        ctx.ob('C18.effect', f'{f.fq}:accepts', ok,
               f'{cname} must invoke its function exactly under `{test}` with (msg, time, addr, recv_port)', f.node, m)
    w = m.classes['OscMessageDispatcher'].methods['wrap_func']
    src = full(w.node)
    ok = U.before(src, 'if arg_template is not None: func = OscArgsMatcher(arg_template, func)',
                  'if src_id is not None and recv_port is not None: return OscFuncBothMessageMatcher(src_id, recv_port, func)',
                  'elif src_id is not None: return OscFuncAddrMessageMatcher(src_id, func)',
                  'elif recv_port is not None: return OscFuncRecvPortMessageMatcher(recv_port, func)', 'else: return func')
    ctx.ob('C18.effect', f'{w.fq}:selection', ok, 'the wrapper chosen tests exactly what the responder specified (template inside, source/port outside)', w.node, m)


def run(ctx):
    rule_accept(ctx)
    rule_tags(ctx)
    rule_anchor(ctx)
    rule_snap(ctx)
    rule_effect(ctx)
    rule_order(ctx)
    rule_wire(ctx)
    rule_recv(ctx)


MUTANTS = [
    dict(rule='C18.anchor', name='(fix reverted) RecursionError of the regex compiler leaves the matcher', file='sc3/base/_oscmatch.py',
         old="    except (re.error, RecursionError):", new="    except re.error:"),
    dict(rule='C18.effect', name='removing the last listener of a message drops the whole object entry (seed C18-j)', file='sc3/base/model.py',
         old="                del cls._registrations[obj][msg][listener]\n",
         new="                del cls._registrations[obj][msg][listener]\n                if not cls._registrations[obj][msg]:\n                    del cls._registrations[obj]\n"),
    dict(rule='C18.effect', name='free disables only responders still listed in the proxy set (seed C18-i)', file='sc3/base/responders.py',
         old="            cls._all_func_proxies.remove(self)\n        if self.enabled:\n            self.disable()\n",
         new="            cls._all_func_proxies.remove(self)\n            if self.enabled:\n                self.disable()\n"),
    dict(rule='C18.recv', name='any empty datagram ends the udp receiver (seed C18-g)', file='sc3/base/_oscinterface.py',
         old="                if not data and address == bind_addr:\n                    break", new="                if not data:\n                    break"),
    dict(rule='C18.effect', name='source matcher ignores the sender port', file='sc3/base/responders.py', count=2,
         old="and (self.addr.port is None or self.addr.port == addr.port)", new="and True"),
    dict(rule='C18.effect', name='wrap_func drops the receive-port test when a source is given', file='sc3/base/responders.py',
         old="            return OscFuncBothMessageMatcher(src_id, recv_port, func)", new="            return OscFuncAddrMessageMatcher(src_id, func)"),
    dict(rule='C18.anchor', name='(fix reverted) every comma of a pattern is an alternation', file='sc3/base/_oscmatch.py',
         old="        elif symbol == ',' and depth <= 0:\n            return ','  # A comma is only special within braces.\n", new=""),
    dict(rule='C18.wire', name='(fix reverted) an unidentifiable bundle element is skipped', file='sc3/base/_osclib.py',
         old="                    raise OscBundleParseError(\n                        'Could not identify content type '\n                        f'of dgram {content_dgram}')", new="                    _logger.warning('Could not identify content type '\n                                    f'of dgram {content_dgram}')"),
    dict(rule='C18.recv', name='(fix reverted) tcp receiver only catches OSError', file='sc3/base/_oscinterface.py',
         old="            except (OSError, ValueError, struct.error) as e:", new="            except OSError as e:"),
    dict(rule='C18.anchor', name='(fix reverted) re.error escapes the pattern matcher', file='sc3/base/_oscmatch.py',
         old="    try:\n        return re.fullmatch(pattern, address) is not None\n    except (re.error, RecursionError):\n        # A malformed pattern ('/a[', '/a{x') matches nothing, neither does\n        # one nested deeper than the regex compiler can follow.\n        return False\n", new="    return re.fullmatch(pattern, address) is not None\n"),
    dict(rule='C18.wire', name='(fix reverted) unknown type tags are skipped without consuming their data', file='sc3/base/_osclib.py',
         old="                    raise OscMessageParseError(\n                        f'Unhandled parameter type: {param}')\n", new="                    _logger.warning(f'Unhandled parameter type: {param}')\n                    continue\n"),
    dict(rule='C18.snap', name='(fix reverted) ServerAction runs an action removed during the run', file='sc3/base/systemactions.py',
         old="            if action in cls._servers.get(key, ()):\n                action(server, *pk[0], **pk[1])", new="            action(server, *pk[0], **pk[1])"),
    dict(rule='C18.snap', name='(fix reverted) notify calls a listener unregistered during the notification', file='sc3/base/model.py',
         old="                if listener in cls._registrations.get(obj, {}).get(msg, ()):\n                    fn.value(action, obj, msg, listener, *args, **kwargs)", new="                fn.value(action, obj, msg, listener, *args, **kwargs)"),
    dict(rule='C18.order', name='function replacement moves the responder to the end (seed C18-b)', file='sc3/base/responders.py',
         old="            i = self.active[key].index(old_func)\n            self.active[key][i] = func", new="            self.active[key].remove(old_func)\n            self.active[key].append(func)"),
    dict(rule='C18.anchor', name='(fix reverted) re.match', file='sc3/base/_oscmatch.py',
         old="return re.fullmatch(pattern, address) is not None", new="return re.match(pattern, address) is not None"),
    dict(rule='C18.anchor', name="'+' not escaped", file='sc3/base/_oscmatch.py', old="    '+': '\\+',\n", new=""),
    dict(rule='C18.anchor', name="'?' rewritten to '.*'", file='sc3/base/_oscmatch.py', old="    '?': '.'\n", new="    '?': '.*'\n"),
    dict(rule='C18.snap', name='(fix reverted) live list iterated in exact dispatcher', file='sc3/base/responders.py',
         old="            for func in self.active[msg[0]][:]:", new="            for func in self.active[msg[0]]:"),
    dict(rule='C18.snap', name='(fix reverted) live list iterated in pattern dispatcher', file='sc3/base/responders.py',
         old="                for func in funcs[:]:", new="                for func in funcs:"),
    dict(rule='C18.snap', name='system actions iterate live dict', file='sc3/base/systemactions.py',
         old="        \'\'\'Evaluate functions in order of registration.\'\'\'\n        for action in cls._actions.copy():", new="        \'\'\'Evaluate functions in order of registration.\'\'\'\n        for action in cls._actions:"),
    dict(rule='C18.snap', name='membership re-check dropped', file='sc3/base/responders.py',
         old="                if func in self.active.get(msg[0], ()):\n                    fn.value(func, msg, time, addr, recv_port)", new="                fn.value(func, msg, time, addr, recv_port)"),
    dict(rule='C18.effect', name='(fix reverted) ServerAction.remove is a lookup', file='sc3/base/systemactions.py',
         old="cls._servers[server].pop(action, None)  # discard", new="cls._servers[server].get(action, None)  # discard"),
    dict(rule='C18.effect', name='disable does not leave the dispatcher', file='sc3/base/responders.py',
         old="            self.dispatcher.remove(self)\n            self.enabled = False", new="            self.enabled = False"),
    dict(rule='C18.effect', name='one-shot frees after running', file='sc3/base/responders.py',
         old="            self.free()\n            fn.value(wrapped_func, *args)", new="            fn.value(wrapped_func, *args)\n            self.free()"),
    dict(rule='C18.order', name='(fix reverted) receive functions in a set', file='sc3/base/_oscinterface.py',
         old="    _recv_functions = dict()  # Ordered set: registration order.", new="    _recv_functions = set()"),
    dict(rule='C18.wire', name='(fix reverted) negative element size accepted', file='sc3/base/_osclib.py',
         old="                if content_size < 0\\\n                or content_size > len(self._dgram) - index:\n                    raise OscBundleParseError(\n                        f'Invalid bundle element size {content_size}')\n", new=""),
    dict(rule='C18.wire', name='(fix reverted) negative blob size accepted', file='sc3/base/_osclib.py',
         old="    if size < 0:\n        raise OscTypeParseError(f'Invalid blob size {size}')\n", new=""),
    dict(rule='C18.wire', name='(fix reverted) template indexes past the message', file='sc3/base/responders.py',
         old="        if len(self.arg_template) > len(args):\n            return  # The message is shorter than the template.\n", new=""),
    dict(rule='C18.recv', name='dispatch inside the parse', file='sc3/base/_oscinterface.py',
         old="            packet = oli.OscPacket(data)\n            for timed_msg in packet.messages:", new="            for timed_msg in oli.OscPacket(data).messages:"),
    dict(rule='C18.recv', name='handler narrowed to OscParseError', file='sc3/base/_oscinterface.py',
         old="        except:\n            _logger.error(\n                'Exception happened during processing '", new="        except oli.OscParseError:\n            _logger.error(\n                'Exception happened during processing '"),
]

REPAIRS = []


EQUIV = [
    dict(name='free calls disable() without repeating its enabled test', file='sc3/base/responders.py',
         old="        if self.enabled:\n            self.disable()\n\n    # def clear(self):", new="        self.disable()\n\n    # def clear(self):"),
    dict(name='unregister spelled with nested if/else and the positive tests', file='sc3/base/model.py',
         old="            if msg is None:\n                del cls._registrations[obj]\n            elif listener is None:\n                del cls._registrations[obj][msg]\n            else:\n                del cls._registrations[obj][msg][listener]\n",
         new="            if msg is not None:\n                if listener is not None:\n                    del cls._registrations[obj][msg][listener]\n                else:\n                    del cls._registrations[obj][msg]\n            else:\n                del cls._registrations[obj]\n"),
]
