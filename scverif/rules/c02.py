"""C02 - emitted definitions are well-formed, topologically ordered SCgf v2."""

import ast
import re

from ..loader import AnalysisError, dump_name, norm, full, walk_local, walk_local_ordered
from .. import util as U
from ..flow import enumerate_paths
from ..tables import GrammarExtractor, canon, show, parse_ref

EXPLANATION = (
    'The field grammar of the SynthDef writer (SynthDef._write_def_list/_write_def/_write_constants, '
    'SynthObject._write_def and every _write_input_spec/_write_output_specs override reached through the class '
    'hierarchy) is extracted from the source as a regular expression over {pstr,i8,i16,i32,f32,raw} and compared '
    'with the SCgf v2 reference grammar; the same extraction on SynthDesc gives the reader grammar, which must be a '
    'prefix-compatible reading of the writer grammar. Every count written must be the length of the collection the '
    'following loop iterates, no path may leave a counted loop early without raising, _num_outputs and '
    '_write_output_specs must be overridden together, the build pipeline must run '
    'optimise < collect-constants < check-inputs < sort < index, ordering edges are installed symmetrically, and every '
    '_check_inputs override must end every non-error path in the generic validity check.')
LEVEL_TEXT = ('static: writer grammar == SCgf v2 reference == reader grammar (shape, widths, signedness, order); '
              'count/loop agreement; no early exit from counted loops; pipeline order; symmetric ordering edges; '
              'every _check_inputs override validates all inputs. Does not decide that the sort output is '
              'topological for every graph nor value equality through SynthDesc.')
LEVEL_NOTE = 'reference grammar in scverif/refs (SCgf v2 spec); struct semantics of CPython trusted'
LEVEL_TEXT_ADD = ' Also: one input = one input spec (sequence inputs refused by the generic validity check) and the or-default rule over the description reader (C02.desc).'
LEVEL_TEXT_ADD += " Rounds e-f: the unit's own output list is not handed out; the writer refuses what the reader rejects (duplicate names, > 255 names); foreign units refused; name table / variant block sources (shared with C04)."
LEVEL_TEXT = (globals().get('LEVEL_TEXT') or EXPLANATION) + LEVEL_TEXT_ADD
TECHNIQUE = 'static analysis: format-grammar extraction over the AST + path enumeration (count/early-exit, validation discipline)'

REF_FILE = 'raw4 i32 i16 ( DEF )*'
REF_DEF = 'pstr i32 ( f32 )* i32 ( f32 )* i32 ( pstr i32 )* i32 ( UNIT )* i16 ( pstr ( f32 )* )*'
REF_UNIT = 'pstr i8 i32 i32 i16 ( i32 i32 )* ( i8 )*'
FMT = {'read_pascal_str': ('B', 1), 'read_i8': ('b', 1), 'read_i16': ('>h', 2), 'read_i32': ('>i', 4),
       'write_i8': ('b', None), 'write_i16': ('>h', None), 'write_i32': ('>i', None), 'write_f32': ('>f', None),
       'write_pascal_str': ('B', None)}


def ref_grammar():
    g = REF_FILE.replace('DEF', REF_DEF.replace('UNIT', REF_UNIT))
    return parse_ref(g)


def ref_reader_grammar():
    # the reader consumes exactly what the writer emits, variant blocks included (it keeps only their count): in a stream of
    # several definitions anything left unread is parsed as the start of the next definition
    return ref_grammar()


def rule_fmt(ctx):
    ctx.rule('C02.fmt', 'every _fmtrw helper uses the big-endian signed struct format of its name; readers consume '
                        'exactly the width they unpack')
    m = ctx.repo.module('sc3.synth._fmtrw')
    for name, (fmt, width) in FMT.items():
        f = m.functions.get(name)
        ctx.require(f is not None, 'C02.fmt', f'_fmtrw.{name} vanished')
        sc = [c for c in U.calls(f.node) if U.call_name(c) in ('struct.pack', 'struct.unpack')]
        ok = len(sc) == 1 and U.is_str(sc[0].args[0], fmt)
        ctx.ob('C02.fmt', f'{m.name}:{name}:format', ok,
               f'{name} must use struct format {fmt!r}; found {[norm(c.args[0]) for c in sc]}', f.node, m)
        if width is not None:
            rd = [c for c in U.calls(f.node) if U.method_name(c) == 'read']
            ok = bool(rd) and U.is_num(rd[0].args[0], width)
            ctx.ob('C02.fmt', f'{m.name}:{name}:width', ok, f'{name} must read {width} byte(s) for the header', f.node, m)
    for name, ch, w in (('read_i8_list', 'b', 1), ('read_i32_list', 'i', 4), ('read_f32_list', 'f', 4)):
        f = m.functions.get(name)
        ctx.require(f is not None, 'C02.fmt', f'_fmtrw.{name} vanished')
        src = full(f.node)
        be = "'>' + " if w > 1 else ''
        ok = (f"struct.unpack({be}'{ch}' * n, data)" in src) and \
             (f'stream.read(n * {w})' in src if w > 1 else 'stream.read(n)' in src)
        ctx.ob('C02.fmt', f'{m.name}:{name}:format', ok, f'{name} must read n big-endian {ch!r} items of {w} bytes', f.node, m)
    f = m.functions['write_pascal_str']
    src = full(f.node)
    ctx.ob('C02.fmt', f'{m.name}:write_pascal_str:length-prefix',
           "struct.pack('B', len(string))" in src and "bytes(string, 'ascii')" in src,
           'pascal string = u8 length + ascii bytes', f.node, m)


def make_resolver(ctx, side):
    repo = ctx.repo
    so = repo.cls('sc3.synth.ugen:SynthObject')
    sd = repo.cls('sc3.synth.synthdef:SynthDef')
    desc = repo.cls('sc3.synth.synthdesc:SynthDesc')
    gp = repo.cls('sc3.synth._graphparam:UGenParameter')

    def impls(base, name):
        out = []
        for ci in repo.classes.values():
            if repo.is_subclass(ci, base) and name in ci.methods:
                out.append(ci.methods[name])
        return sorted(out, key=lambda f: f.fq)

    def resolve(call, fi):
        name = U.method_name(call)
        if side == 'w':
            if name == '_write_def':
                recv = norm(call.func.value)
                if fi.qualname == 'SynthDef._write_def_list':
                    return [sd.methods['_write_def']]
                return impls(so, '_write_def')
            if name == '_write_constants':
                return [sd.methods['_write_constants']]
            if name == '_write_input_spec':
                return impls(gp, '_write_input_spec')
            if name == '_write_output_specs':
                return impls(so, '_write_output_specs')
            if name == '_write_output_spec':
                return impls(so, '_write_output_spec')
            return []
        else:
            if name in ('_read_synthdef2', '_read_ugen_spec2', '_read_synthdef', '_read_ugen_spec'):
                return [desc.methods[name]]
            return []
    return resolve


def rule_grammars(ctx):
    ctx.rule('C02.wgram', 'grammar extracted from the writer call tree == SCgf v2 reference grammar')
    ctx.rule('C02.rgram', 'grammar extracted from SynthDesc._read_stream/new_from == reference grammar up to the '
                          'variant tail the reader skips')
    repo = ctx.repo
    sd = repo.cls('sc3.synth.synthdef:SynthDef')
    gx = GrammarExtractor(repo, make_resolver(ctx, 'w'))
    wl = sd.methods.get('_write_def_list')
    ctx.require(wl is not None, 'C02.wgram', 'SynthDef._write_def_list vanished')
    wg = gx.of_func(wl)
    cw = canon(wg)
    ref = canon(ref_grammar())
    ctx.ob('C02.wgram', f'{sd.module.name}:SynthDef._write_def_list:grammar', cw == ref,
           f'writer grammar is  {show(cw)}  but SCgf v2 is  {show(ref)}', wl.node, sd.module)
    ctx.extra['writer_grammar'] = show(cw)
    # magic / version literals
    toks = list(_flatten_tokens(wg))
    ok = len(toks) >= 3 and toks[0][0] == 'raw' and toks[0][2] == 'SCgf' and toks[1] == ('tok', 'i32', '2')
    ctx.ob('C02.wgram', f'{sd.module.name}:SynthDef._write_def_list:header', ok,
           "file must start with b'SCgf' and i32 version 2", wl.node, sd.module)
    # each writer function individually (diagnosability): unit grammar
    so = repo.cls('sc3.synth.ugen:SynthObject')
    ug = canon(GrammarExtractor(repo, make_resolver(ctx, 'w')).of_func(so.methods['_write_def']))
    ctx.ob('C02.wgram', f'{so.module.name}:SynthObject._write_def:grammar', ug == canon(parse_ref(REF_UNIT)),
           f'unit grammar is  {show(ug)}  but SCgf v2 unit is  {REF_UNIT}', so.methods['_write_def'].node, so.module)
    # reader
    desc = repo.cls('sc3.synth.synthdesc:SynthDesc')
    rref = canon(ref_reader_grammar())
    rs = desc.methods.get('_read_stream')
    ctx.require(rs is not None, 'C02.rgram', 'SynthDesc._read_stream vanished')
    rg = canon(GrammarExtractor(repo, make_resolver(ctx, 'r')).of_func(rs))
    ctx.ob('C02.rgram', f'{desc.module.name}:SynthDesc._read_stream:grammar', rg == rref,
           f'reader grammar is  {show(rg)}  but must be  {show(rref)}', rs.node, desc.module)
    nf = desc.methods.get('new_from')
    ng = canon(GrammarExtractor(repo, make_resolver(ctx, 'r')).of_func(nf))
    one = canon(parse_ref('raw4 i32 i16 ' + REF_DEF.replace('UNIT', REF_UNIT)))
    ctx.ob('C02.rgram', f'{desc.module.name}:SynthDesc.new_from:grammar', ng == one,
           f'new_from grammar is  {show(ng)}  but must be  {show(one)}', nf.node, desc.module)
    ctx.extra['reader_grammar'] = show(rg)
    # reader counts: list reads use the count read just before
    f = desc.methods['_read_synthdef2']
    _reader_counts(ctx, f)
    _reader_counts(ctx, desc.methods['_read_ugen_spec2'])
    _reader_counts(ctx, rs)


def _flatten_tokens(g):
    if g[0] in ('tok', 'raw'):
        yield g
    elif g[0] == 'seq':
        for x in g[1]:
            yield from _flatten_tokens(x)
    elif g[0] == 'star':
        yield from _flatten_tokens(g[-1])
    elif g[0] == 'alt':
        for x in g[1]:
            yield from _flatten_tokens(x)


def _reader_counts(ctx, f):
    """every repetition in the reader is driven by a variable assigned from a read_iN of the stream"""
    mod = f.module
    counts = {}
    for s in walk_local_ordered(f.node):
        if isinstance(s, ast.Assign) and isinstance(s.targets[0], ast.Name) and isinstance(s.value, ast.Call) \
                and U.method_name(s.value) in ('read_i32', 'read_i16', 'read_i8'):
            counts[s.targets[0].id] = U.method_name(s.value)
    for s in walk_local_ordered(f.node):
        if isinstance(s, ast.For) and isinstance(s.iter, ast.Call) and U.method_name(s.iter) == 'range' \
                and any(U.method_name(c) and (U.method_name(c).startswith('read_') or U.method_name(c).startswith('_read_'))
                        for c in U.calls(s)):
            n = s.iter.args[0] if len(s.iter.args) == 1 else None
            ok = isinstance(n, ast.Name) and n.id in counts
            ctx.ob('C02.rgram', ctx.key(mod, s, f'for range({norm(n) if n is not None else "?"})'), ok,
                   'a reading loop must be driven by a count read from the stream', s, mod)
        if isinstance(s, ast.Call) and U.method_name(s) in ('read_i8_list', 'read_i32_list', 'read_f32_list'):
            n = s.args[1]
            base = n.left if isinstance(n, ast.BinOp) else n
            ok = isinstance(base, ast.Name) and base.id in counts
            ctx.ob('C02.rgram', ctx.key(mod, s, f'{U.method_name(s)}({norm(n)})'), ok,
                   'a list read must be driven by a count read from the stream', s, mod)


# ------------------------------------------------------------------ count
def rule_count(ctx):
    ctx.rule('C02.count', 'each written count is len() of the collection the next loop iterates (or a _num_X() that '
                          'resolves to it); a counted loop has no exit other than exhaustion or an exception; '
                          '_num_outputs and _write_output_specs are overridden together and agree')
    repo = ctx.repo
    sd = repo.cls('sc3.synth.synthdef:SynthDef')
    so = repo.cls('sc3.synth.ugen:SynthObject')
    n = 0
    for f in (sd.methods['_write_def_list'], sd.methods['_write_def'], sd.methods['_write_constants'],
              so.methods['_write_def']):
        mod = f.module
        stmts = [s for s in walk_local_ordered(f.node) if isinstance(s, ast.stmt)]
        # count tokens: write_i32/i16(file, len(X)) or self._num_X()
        aliases = {}
        for s in stmts:
            if isinstance(s, ast.Assign) and isinstance(s.targets[0], ast.Name):
                aliases[s.targets[0].id] = s.value
        pending = None
        for s in stmts:
            if isinstance(s, ast.Expr) and isinstance(s.value, ast.Call) and U.method_name(s.value) in ('write_i32', 'write_i16') \
                    and len(s.value.args) == 2:
                v = s.value.args[1]
                if isinstance(v, ast.Name) and v.id in aliases:
                    v = aliases[v.id]
                if isinstance(v, ast.Call) and U.method_name(v) == 'len':
                    pending = (s, norm(v.args[0]), 'len')
                elif isinstance(v, ast.Call) and U.is_self_attr(v.func) and v.func.attr.startswith('_num_'):
                    pending = (s, v.func.attr, 'num')
                continue
            if isinstance(s, ast.For) and pending is not None and _writes(s):
                cs, what, kind = pending
                over = norm(s.iter)
                if isinstance(s.iter, ast.Call) and U.method_name(s.iter) == 'items':
                    over = norm(s.iter.func.value)
                if kind == 'len':
                    # `arr = [None] * size` with size = len(X): resolve one level
                    ok = over == what or _same_collection(over, what, aliases)
                    n += 1
                    ctx.ob('C02.count', ctx.key(mod, cs, f'count len({what}) / loop over {over}'), ok,
                           f'count written is len({what}) but the loop iterates {over}', s, mod)
                pending = None
                # early exits
                for inner in walk_local_ordered(s):
                    if isinstance(inner, (ast.Return, ast.Break)):
                        n += 1
                        ctx.ob('C02.count', ctx.key(mod, inner, f'{norm(inner)} inside counted loop over {over}'), False,
                               f'`{norm(inner)}` leaves the loop over {over} after its count was written: the emitted '
                               f'count no longer matches what follows (malformed SCgf instead of an exception)', inner, mod)
            elif isinstance(s, ast.Expr) and isinstance(s.value, ast.Call) and pending is not None and \
                    U.method_name(s.value) == '_write_output_specs':
                pending = None
        # _num_inputs is len(self.inputs) and the loop iterates self.inputs
    f = so.methods['_write_def']
    ni = repo.resolve_method(so, '_num_inputs')
    ok = ni is not None and full(ni.node).endswith('return len(self.inputs)')
    loops = [s for s in walk_local(f.node) if isinstance(s, ast.For) and norm(s.iter) == 'self.inputs' and _writes(s)]
    n += 1
    ctx.ob('C02.count', f'{so.module.name}:SynthObject._write_def:num_inputs', ok and len(loops) == 1,
           'input count must be len(self.inputs) and the wire-spec loop must iterate self.inputs', f.node, so.module)
    for ci in repo.classes.values():
        if repo.is_subclass(ci, so) and '_num_inputs' in ci.methods and ci is not so:
            ctx.ob('C02.count', f'{ci.module.name}:{ci.qualname}._num_inputs:override', False,
                   '_num_inputs overridden: the input count may no longer match the wire specs written', ci.methods['_num_inputs'].node, ci.module)
    # sibling pairs
    for ci in repo.classes.values():
        if not repo.is_subclass(ci, so):
            continue
        a = '_num_outputs' in ci.methods
        b = '_write_output_specs' in ci.methods
        if not (a or b):
            continue
        n += 1
        key = f'{ci.module.name}:{ci.qualname}:num_outputs/write_output_specs'
        if a != b:
            ctx.ob('C02.count', key, False, f'{ci.name} overrides only one of _num_outputs/_write_output_specs', ci.node, ci.module)
            continue
        no = full(ci.methods['_num_outputs'].node)
        wo = ci.methods['_write_output_specs']
        wbody = U.body_nodoc(wo.node)
        if no.endswith('return 0'):
            ok = all(isinstance(s, ast.Pass) for s in wbody)
            msg = 'declares 0 outputs, must write no output spec'
        elif no.endswith('return 1'):
            ok = len(wbody) == 1 and norm(wbody[0]) == 'self._write_output_spec(file)'
            msg = 'declares 1 output, must write exactly one output spec'
        elif no.endswith('return len(self._channels)'):
            ok = len(wbody) == 1 and isinstance(wbody[0], ast.For) and norm(wbody[0].iter) == 'self._channels' and \
                len(wbody[0].body) == 1 and norm(wbody[0].body[0]) == f'{norm(wbody[0].target)}._write_output_spec(file)'
            msg = 'declares len(self._channels) outputs, must write one spec per channel'
        else:
            ok = False
            msg = f'unrecognised _num_outputs: {no[-60:]}'
        ctx.ob('C02.count', key, ok, f'{ci.name} {msg}', wo.node, ci.module)
    # _write_output_spec is a single i8 of the rate number everywhere
    for ci in repo.classes.values():
        if repo.is_subclass(ci, so) and '_write_output_spec' in ci.methods:
            f = ci.methods['_write_output_spec']
            b = U.body_nodoc(f.node)
            ok = len(b) == 1 and norm(b[0]) == 'frw.write_i8(file, self._rate_number())'
            ctx.ob('C02.count', f'{ci.module.name}:{ci.qualname}._write_output_spec', ok,
                   'an output spec is one i8 rate number', f.node, ci.module)
    # _rate_number maps rate names to server numbers
    rn = so.methods['_rate_number']
    pairs = {}
    default = None
    for s in rn.node.body:
        if isinstance(s, ast.If):
            cp = U.compare_parts(s.test)
            if cp and norm(cp[0]) == 'self.rate' and U.is_str(cp[2]) and isinstance(s.body[0], ast.Return):
                pairs[cp[2].value] = U.num_value(s.body[0].value)
        elif isinstance(s, ast.Return):
            default = U.num_value(s.value)
    ctx.ob('C02.count', f'{so.module.name}:SynthObject._rate_number:table',
           pairs == {'audio': 2, 'control': 1, 'demand': 3} and default == 0,
           f'rate numbers must be scalar 0, control 1, audio 2, demand 3; found {pairs} default {default}', rn.node, so.module)
    ctx.require(n >= 8, 'C02.count', f'only {n} count instances')


def _writes(node):
    return any(U.method_name(c) and (U.method_name(c).startswith('write_') or U.method_name(c).startswith('_write_'))
               for c in U.calls(node))


def _same_collection(over, what, aliases):
    # allcns_tmp etc: names equal. `arr` built as [None]*size with size=len(X) and filled by index from X.items()
    if over in aliases:
        v = aliases[over]
        if isinstance(v, ast.BinOp) and isinstance(v.op, ast.Mult):
            r = v.right
            if isinstance(r, ast.Name) and r.id in aliases:
                rv = aliases[r.id]
                if isinstance(rv, ast.Call) and U.method_name(rv) == 'len' and norm(rv.args[0]) == what:
                    return True
    return False


# ------------------------------------------------------------------ order
def rule_order(ctx):
    ctx.rule('C02.order', '_finish_build runs optimise < collect constants < check inputs < topological sort < index; '
                          '_check_inputs raises when a unit reports an error; no handler on the write path swallows')
    sd = ctx.repo.cls('sc3.synth.synthdef:SynthDef')
    f = sd.methods['_finish_build']
    seq_ = [c.func.attr for c in U.calls(f.node) if U.is_self_attr(c.func)]
    want = ['_optimize_graph', '_collect_constants', '_check_inputs', '_topological_sort', '_index_ugens']
    pos = [seq_.index(w) if w in seq_ else -1 for w in want]
    ok = all(p >= 0 for p in pos) and pos == sorted(pos) and all(seq_.count(w) == 1 for w in want)
    straight = all(isinstance(s, ast.Expr) for s in U.body_nodoc(f.node))
    ctx.ob('C02.order', f'{sd.module.name}:SynthDef._finish_build:pipeline', ok and straight,
           f'pipeline order must be {want} on a single straight path; found {seq_}', f.node, sd.module)
    # _build calls init < graph < finish
    b = sd.methods['_build']
    seq_ = [c.func.attr for c in U.calls(b.node) if U.is_self_attr(c.func)]
    ctx.ob('C02.order', f'{sd.module.name}:SynthDef._build:steps', seq_ == ['_init_build', '_build_ugen_graph', '_finish_build'],
           f'_build must run _init_build, _build_ugen_graph, _finish_build; found {seq_}', b.node, sd.module)
    # _check_inputs
    f = sd.methods['_check_inputs']
    # shape: V = None; for ...: err = u._check_inputs(); if err: if V is None: V = ...; after the loop: if V: raise
    body = U.body_nodoc(f.node)
    var = None
    for s in body:
        if isinstance(s, ast.Assign) and isinstance(s.targets[0], ast.Name) and isinstance(s.value, ast.Constant) \
                and s.value.value is None:
            var = s.targets[0].id
            break
    ok = False
    if var is not None:
        lp = [s for s in body if isinstance(s, ast.For)]
        after = body[body.index(lp[0]) + 1:] if lp else []
        set_in_loop = False
        if lp:
            for s in walk_local(lp[0]):
                if isinstance(s, ast.If) and norm(s.test) == 'err':
                    for t in walk_local(s):
                        if isinstance(t, ast.Assign) and norm(t.targets[0]) == var:
                            set_in_loop = True
                    # nothing else may swallow: the `if err` body must not `continue`/reset var to None
        raised = any(isinstance(s, ast.If) and norm(s.test) == var and s.body and isinstance(s.body[-1], ast.Raise)
                     for s in after)
        ok = set_in_loop and raised
    ctx.ob('C02.order', f'{sd.module.name}:SynthDef._check_inputs:raises', ok,
           'an input error reported by any unit must be recorded and raised after the loop', f.node, sd.module)
    loops = [s for s in walk_local(f.node) if isinstance(s, ast.For) and norm(s.iter) == 'self._children']     # (inner loops over a unit's inputs are fine)
    ok = len(loops) == 1 and norm(loops[0].iter) == 'self._children' and \
        any(U.method_name(c) == '_check_inputs' and norm(c.func.value) == norm(loops[0].target) for c in U.calls(loops[0]))
    ctx.ob('C02.order', f'{sd.module.name}:SynthDef._check_inputs:all-units', ok,
           'every unit in _children must be asked to check its inputs', f.node, sd.module)
    # writer error propagation: handlers in write path must re-raise
    so = ctx.repo.cls('sc3.synth.ugen:SynthObject')
    for fi in (sd.methods['_write_def'], so.methods['_write_def'], sd.methods['as_bytes'], sd.methods['_write_def_list'],
               sd.methods['_write_constants']):
        for t in walk_local(fi.node):
            if isinstance(t, ast.Try):
                for h in t.handlers:
                    ok = bool(h.body) and isinstance(h.body[-1], ast.Raise)
                    ctx.ob('C02.order', f'{fi.module.name}:{fi.qualname}:handler[{norm(h.type) if h.type else "bare"}]', ok,
                           'an exception while writing must propagate (handler must re-raise)', h, fi.module)
    # _index_ugens assigns position
    f = sd.methods['_index_ugens']
    ok = 'for i, ugen in enumerate(self._children): ugen._synth_index = i' in full(f.node)
    ctx.ob('C02.order', f'{sd.module.name}:SynthDef._index_ugens', ok, 'unit index must be its position in _children', f.node, sd.module)
    # topological sort structure
    f = sd.methods['_topological_sort']
    src = full(f.node)
    ok = U.before(src, 'self._init_topo_sort()', 'self._available.pop()', 'self._children = out_stack')
    ctx.ob('C02.order', f'{sd.module.name}:SynthDef._topological_sort:structure', ok and 'ugen._arrange(out_stack)' in src,
           'sort must initialise edges, drain _available through _arrange and install the resulting order', f.node, sd.module)
    ar = so.methods['_arrange']
    src = full(ar.node)
    ctx.ob('C02.order', f'{so.module.name}:SynthObject._arrange:emit-after-release',
           'ugen._remove_antecedent(self)' in src and src.rstrip().endswith('out_stack.append(self)'),
           'a unit is emitted and releases its descendants (each descendant loses this antecedent)', ar.node, so.module)
    ra = so.methods['_remove_antecedent']
    src = full(ra.node)
    ctx.ob('C02.order', f'{so.module.name}:SynthObject._remove_antecedent', U.before(src, 'self._antecedents.remove(ugen)', 'self._make_available()'),
           'a descendant becomes available only after the antecedent was removed', ra.node, so.module)
    ma = so.methods['_make_available']
    b = U.body_nodoc(ma.node)
    ok = len(b) == 1 and isinstance(b[0], ast.If) and norm(b[0].test) == 'not self._antecedents' and \
        norm(b[0].body[0]) == 'self._synthdef._available.append(self)'
    ctx.ob('C02.order', f'{so.module.name}:SynthObject._make_available', ok,
           'a unit is available only when it has no remaining antecedents', ma.node, so.module)


# ------------------------------------------------------------------- topo
def rule_topo(ctx):
    ctx.rule('C02.topo', 'every self._antecedents.add(u) is paired with u._descendants.add(self) for data inputs and '
                         'width-first antecedents; OutputProxy resolves to its source; width-first units are recorded '
                         'and snapshotted for later units')
    so = ctx.repo.cls('sc3.synth.ugen:SynthObject')
    f = so.methods['_init_topo_sort']
    mod = so.module
    loops = [s for s in f.node.body if isinstance(s, ast.For)]
    overs = [norm(l.iter) for l in loops]
    ctx.ob('C02.topo', f'{mod.name}:SynthObject._init_topo_sort:loops',
           'self.inputs' in overs and 'self._width_first_antecedents' in overs,
           f'edges must be installed for data inputs and width-first antecedents; loops over {overs}', f.node, mod)
    for l in loops:
        adds = [c for c in U.calls(l) if U.method_name(c) == 'add']
        ants = [norm(c.args[0]) for c in adds if norm(c.func.value) == 'self._antecedents']
        descs = [norm(c.func.value)[:-len('._descendants')] for c in adds if norm(c.func.value).endswith('._descendants')
                 and norm(c.args[0]) == 'self']
        ctx.ob('C02.topo', f'{mod.name}:SynthObject._init_topo_sort:{norm(l.iter)}:symmetric',
               sorted(ants) == sorted(descs) and len(ants) >= 1,
               f'antecedent edges {ants} must mirror descendant edges {descs}', l, mod)
        # adds must sit in the same block (same path)
        for c in adds:
            pass
    # ... for every input that is a unit, whatever its kind: the only test between the loop and the edge is `isinstance(input, UGen)`
    # and nothing skips an iteration (a control created in the middle of the graph by SynthDef.wrap must be waited for like any unit)
    for l in loops:
        if norm(l.iter) != 'self.inputs':
            continue
        skips = [norm(x) for x in ast.walk(l) if isinstance(x, (ast.Continue, ast.Break, ast.Return))]
        tests = set()
        for c in U.calls(l):
            if U.method_name(c) == 'add' and norm(c.func.value) == 'self._antecedents':
                for p_ in U.parent_chain(c):
                    if p_ is l:
                        break
                    if isinstance(p_, ast.If):
                        tests.add(norm(p_.test))
        ctx.ob('C02.topo', f'{mod.name}:SynthObject._init_topo_sort:every-unit-input', not skips and tests <= {'isinstance(input, UGen)'},
               f'an input edge is installed only under {sorted(tests)} and the loop contains {skips}: some unit inputs get no edge, their '
               f'readers can be emitted before them (forward wire)', l, mod)
    src = full(f.node)
    ctx.ob('C02.topo', f'{mod.name}:SynthObject._init_topo_sort:proxy',
           'if isinstance(input, OutputProxy): ugen = input.source_ugen else: ugen = input' in src,
           'an OutputProxy input must resolve to its source unit', f.node, mod)
    wf = ctx.repo.cls('sc3.synth.ugen:WidthFirstUGen')
    a = wf.methods.get('_add_to_synth')
    ok = a is not None and 'self._synthdef._add_ugen(self)' in full(a.node) and \
        'self._synthdef._width_first_ugens.append(self)' in full(a.node)
    ctx.ob('C02.topo', f'{mod.name}:WidthFirstUGen._add_to_synth', ok,
           'width-first units must be recorded in _width_first_ugens', wf.node, mod)
    sd = ctx.repo.cls('sc3.synth.synthdef:SynthDef')
    au = sd.methods['_add_ugen']
    p = au.params[1]
    ok = f'{p}._width_first_antecedents = self._width_first_ugens[:]' in full(au.node) and \
        f'self._children.append({p})' in full(au.node)
    ctx.ob('C02.topo', f'{sd.module.name}:SynthDef._add_ugen:snapshot', ok,
           'each new unit snapshots the width-first units created before it', au.node, sd.module)
    # units created by the optimiser are not registered by _add_ugen (rewrite in progress): _replace_ugen must hand the
    # ordering edges of the replaced unit over, otherwise a fused unit can be sorted before a width-first unit created earlier
    rp = ctx.repo.func('sc3.synth.synthdef:SynthDef._replace_ugen')
    pa_, pb_ = rp.params[1], rp.params[2]
    ok = any(isinstance(x, ast.Assign) and norm(x.targets[0]) == f'{pb_}._width_first_antecedents' and
             norm(x.value) == f'{pa_}._width_first_antecedents' for x in walk_local(rp.node))
    ctx.ob('C02.topo', f'{rp.module.name}:SynthDef._replace_ugen:inherits-width-first-antecedents', ok,
           'a replacement unit must inherit the width-first antecedents of the unit it replaces (it was created while _add_ugen is disabled)', rp.node, rp.module)
    ok = 'if not self._rewrite_in_progress:' in full(au.node)
    ctx.ob('C02.topo', f'{sd.module.name}:SynthDef._add_ugen:rewrite-guard', ok, 'units created during optimisation are installed by _replace_ugen, not appended', au.node, sd.module)
    # classes that override _add_to_synth must still register (or be OutputProxy)
    for ci in ctx.repo.classes.values():
        if ctx.repo.is_subclass(ci, so) and '_add_to_synth' in ci.methods and ci not in (so, wf):
            src = full(ci.methods['_add_to_synth'].node)
            ok = ci.name == 'OutputProxy' or '_add_ugen(self)' in src
            ctx.ob('C02.topo', f'{ci.module.name}:{ci.qualname}._add_to_synth', ok,
                   'an _add_to_synth override must register the unit with the definition', ci.methods['_add_to_synth'].node, ci.module)
    # _init_topo_sort of the definition resets and populates all
    f = sd.methods['_init_topo_sort']
    src = full(f.node)
    ok = 'ugen._antecedents = set()' in src and 'ugen._descendants = set()' in src and 'ugen._init_topo_sort()' in src \
        and 'for ugen in reversed(self._children): ugen._make_available()' in src
    ctx.ob('C02.topo', f'{sd.module.name}:SynthDef._init_topo_sort', ok,
           'edges are reset, populated for every unit, and sources made available', f.node, sd.module)


# ------------------------------------------------------------------ valid
VALIDATORS = ('_check_valid_inputs', '_check_n_inputs', '_check_sr_as_first_input')
VALID_EXCEPTIONS = {
    # fq -> (reason, predicate name)
    'sc3.synth.ugens.line:T2K._check_inputs':
        'single-input unit (A2K.kr passes exactly one input) and that input was just tested to be audio rate, '
        'which only a unit can be: nothing is left to validate',
}


def rule_valid(ctx):
    ctx.rule('C02.valid', 'every _check_inputs override returns, on each path, either an error string or the result '
                          'of _check_valid_inputs/_check_n_inputs/_check_sr_as_first_input/super()._check_inputs()')
    repo = ctx.repo
    so = repo.cls('sc3.synth.ugen:SynthObject')
    n = 0
    for ci in sorted(repo.classes.values(), key=lambda c: c.fq):
        if not repo.is_subclass(ci, so) or '_check_inputs' not in ci.methods or ci is so:
            continue
        f = ci.methods['_check_inputs']
        n += 1
        mod = ci.module
        for ev, out in enumerate_paths(f.node, unroll=1):
            if out[0] == 'raise' or out[0] == 'cut':
                continue
            if out[0] == 'return' and out[1].value is not None:
                v = out[1].value
                if isinstance(v, ast.Call) and (U.is_self_attr(v.func) and v.func.attr in VALIDATORS or
                                                norm(v.func) == 'super()._check_inputs'):
                    ctx.ob('C02.valid', f'{mod.name}:{ci.qualname}._check_inputs:return {norm(v)}', True,
                           'delegates to the generic validity check', out[1], mod)
                    continue
                if isinstance(v, (ast.JoinedStr,)) or U.is_str(v):
                    ctx.ob('C02.valid', f'{mod.name}:{ci.qualname}._check_inputs:return <error string>', True,
                           'returns an error message', out[1], mod, nontrivial=False)
                    continue
                if not (isinstance(v, ast.Constant) and v.value is None):
                    ctx.ob('C02.valid', f'{mod.name}:{ci.qualname}._check_inputs:return {norm(v)}', False,
                           'returns something that is neither an error string nor the generic validity check', out[1], mod)
                    continue
            # return None / bare return / fall off the end
            where = out[1] if out[0] == 'return' else f.node
            key = f'{mod.name}:{ci.qualname}._check_inputs:accepts-without-validation'
            if f.fq in VALID_EXCEPTIONS:
                ok = _t2k_condition(ctx, ci, ev)
                ctx.ob('C02.valid', key, ok, VALID_EXCEPTIONS[f.fq] if ok else
                       'listed exception no longer satisfies its reason (inputs != 1 or test changed)', where, mod)
                continue
            ctx.ob('C02.valid', key, False,
                   f'{ci.name}._check_inputs accepts its inputs on a path that never calls the generic validity check: '
                   f'NaN or non-numeric inputs compile to bytes instead of being rejected', where, mod)
    ctx.require(n >= 30, 'C02.valid', f'only {n} _check_inputs overrides found')
    # the generic check itself
    f = so.methods['_check_valid_inputs']
    src = full(f.node)
    ok = 'for i, input in enumerate(self.inputs)' in src and 'not gpp.ugen_param(input)._is_valid_ugen_input()' in src
    ctx.ob('C02.valid', f'{so.module.name}:SynthObject._check_valid_inputs', ok,
           'generic check must test every input with _is_valid_ugen_input', f.node, so.module)
    # one input = one input spec: every graph-parameter class that can pass the generic check writes exactly one spec
    # (two i32) per input; the sequence parameter writes one per element, so sequences must be refused by the check
    gm = repo.module('sc3.synth._graphparam')
    multi = []
    for ci in gm.classes.values():
        w = ci.methods.get('_write_input_spec')
        if w is not None and any(isinstance(x, (ast.For, ast.While)) for x in walk_local(w.node)):
            multi.append(ci)
    ctx.require(len(multi) >= 1, 'C02.valid', 'no multi-spec graph parameter found (UGenSequence vanished?)')
    for ci in multi:
        pt = ci.methods.get('_param_type')
        types = sorted(re.findall(r'\b(list|tuple)\b', full(pt.node))) if pt is not None else []
        refused = all(re.search(rf'isinstance\(input, \([^)]*\b{t}\b[^)]*\)\)', src) for t in types) and bool(types)
        ctx.ob('C02.valid', f'{ci.fq}:one-spec-per-input', refused,
               f'{ci.name} writes one input spec per element but counts as one input of the unit; the generic validity check must refuse '
               f'{types} inputs, otherwise the unit declares fewer inputs than it writes (malformed definition)', f.node, so.module)
    base = so.methods['_check_inputs']
    ctx.ob('C02.valid', f'{so.module.name}:SynthObject._check_inputs', full(base.node).endswith('return self._check_valid_inputs()'),
           'base _check_inputs must delegate to _check_valid_inputs', base.node, so.module)
    for nm in ('_check_n_inputs', '_check_sr_as_first_input'):
        g = so.methods[nm]
        paths = enumerate_paths(g.node, unroll=1)
        ok = all(out[0] == 'return' and (isinstance(out[1].value, (ast.JoinedStr, ast.BinOp)) or U.is_str(out[1].value) or
                                          norm(out[1].value) == 'self._check_valid_inputs()') for ev, out in paths)
        ctx.ob('C02.valid', f'{so.module.name}:SynthObject.{nm}', ok,
               f'{nm} must end every non-error path in _check_valid_inputs', g.node, so.module)
    sc = ctx.repo.cls('sc3.synth._graphparam:UGenScalar')
    g = sc.methods.get('_is_valid_ugen_input')
    ok = g is not None and full(g.node).endswith('return not isnan(self._param_value)')
    ctx.ob('C02.valid', f'{sc.module.name}:UGenScalar._is_valid_ugen_input', ok, 'NaN constants must be invalid inputs',
           sc.node, sc.module)
    up = ctx.repo.cls('sc3.synth._graphparam:UGenParameter')
    gp = ctx.repo.cls('sc3.synth._graphparam:GraphParameter')
    g = ctx.repo.resolve_method(up, '_is_valid_ugen_input')
    ok = g is not None and g.cls is not so and full(g.node).endswith('return False')
    ctx.ob('C02.valid', f'{up.module.name}:UGenParameter._is_valid_ugen_input:default', ok,
           'objects of unknown kind must be invalid inputs by default', up.node, up.module)


def _t2k_condition(ctx, ci, ev):
    tests = [(norm(n), x) for k, n, x in ev if k == 'test']
    if tests != [("gpp.ugen_param(self.inputs[0])._as_ugen_rate() != 'audio'", False)]:
        return False
    for mname in ('ar', 'kr', 'ir'):
        m = ctx.repo.resolve_method(ci, mname)
        if m is None:
            continue
        for c in U.calls(m.node):
            if U.method_name(c) == '_multi_new' and len(c.args) != 2:
                return False
    if ctx.repo.resolve_method(ci, '_init_ugen').cls.name != 'SynthObject':
        return False
    return True


def rule_multiout(ctx):
    ctx.rule('C02.count', 'every constructible multi-output unit class creates its outputs: its _init_ugen (own or inherited below '
                          'MultiOutUGen) calls _init_outputs or assigns self._channels; otherwise the unit is written with 0 outputs and '
                          'its consumers point at outputs that do not exist')
    repo = ctx.repo
    mo = repo.cls('sc3.synth.ugen:MultiOutUGen')
    base_names = {'MultiOutUGen', 'UGen', 'SynthObject'}
    n = 0
    for ci in sorted(repo.subclasses(mo, strict=True), key=lambda c: c.fq):
        ctors = [k for k in ('ar', 'kr', 'ir', 'dr', 'new') if k in ci.methods or any(
            k in b.methods for b in repo.mro(ci) if b.name not in base_names and repo.is_subclass(b, mo))]
        if not ctors:
            continue          # abstract base without constructors of its own
        n += 1
        init = repo.resolve_method(ci, '_init_ugen')
        ok = init is not None and init.cls is not None and init.cls.name not in base_names and (
            any(U.method_name(c) == '_init_outputs' for c in U.calls(init.node)) or
            any(isinstance(x, ast.Assign) and any(U.is_self_attr(t, '_channels') for t in x.targets) for x in walk_local(init.node)))
        ctx.ob('C02.count', f'{ci.fq}:creates-outputs', ok,
               f'{ci.name} is a multi-output unit with constructors {ctors} but no _init_ugen that creates its output proxies', ci.node, ci.module)
    ctx.require(n >= 30, 'C02.count', f'only {n} constructible multi-output classes found')
    # the unit's own output list is what _num_outputs/_write_output_specs read: it is not handed to user code, where a pop()/append()
    # would change the declared outputs under the consumers' feet
    ug = repo.cls('sc3.synth.ugen:UGen')
    n1 = repo.resolve_method(ug, '_new1')
    rets = [x for x in walk_local(n1.node) if isinstance(x, ast.Return)]
    direct = [r for r in rets if r.value is not None and any(U.method_name(c) == '_init_ugen' for c in U.calls(r.value))]
    guarded = False
    for br in [x for x in walk_local(n1.node) if isinstance(x, ast.If)]:
        cp = U.compare_parts(br.test)
        if cp and cp[1] is ast.Is and norm(cp[2]).endswith('._channels') and isinstance(cp[0], ast.Name):
            v = cp[0].id
            guarded = any(isinstance(x, ast.Assign) and norm(x.targets[0]) == v and isinstance(x.value, ast.Call) and
                          norm(x.value.func) in ('ChannelList', 'list', 'type(' + v + ')') for x in br.body) and \
                any(r.value is not None and norm(r.value) == v for r in rets)
    ctx.ob('C02.count', f'{n1.fq}:own-output-list-not-handed-out', guarded and not direct,
           'UGen._new1 must return a copy when _init_ugen returned the unit\'s own _channels list (In.ar(0, 4).pop() otherwise makes the '
           'unit declare 3 outputs while a consumer reads output 3)', n1.node, n1.module)
    for ci in sorted(repo.subclasses(mo, strict=True), key=lambda c: c.fq):
        own = ci.methods.get('_new1')
        if own is None:
            continue
        bad = [r for r in walk_local(own.node) if isinstance(r, ast.Return) and r.value is not None and
               any(U.method_name(c) == '_init_ugen' for c in U.calls(r.value))]
        ctx.ob('C02.count', f'{own.fq}:own-output-list-not-handed-out', not bad,
               'a multi-output class that overrides _new1 must go through UGen._new1 (or copy) instead of returning _init_ugen\'s list', own.node, own.module)


def run(ctx):
    from ..report import SubCtx
    from . import c04
    sub_c04 = SubCtx(ctx, 'C02.ctl', 'the control units must cover the slots the name table points at: control-unit creation and slot advance, as decided for C04')
    c04.rule_ctl(sub_c04)
    from . import c04
    sub = SubCtx(ctx, 'C02.names', 'the name table and the variant blocks are part of the emitted bytes: their sources (one entry per control name, one full-width block per variant), as decided for C04')
    c04.rule_names(sub)
    from . import c01
    sub_c01 = SubCtx(ctx, 'C02.order', 'every input of an emitted unit is an emitted unit: a rewrite of the optimiser rewires every slot that held the replaced unit (a stale reference never becomes available in the sort, its reader and everything downstream is dropped without an error), as decided for C01')
    c01.rule_opt(sub_c01)
    rule_multiout(ctx)
    # the bytes of a definition are cached only after the writer returned: a write that raises must not leave a truncated
    # prefix behind that later as_bytes()/send() hand out
    ctx.rule('C02.valid', 'rejected graphs produce no bytes (also not on a second request)')
    ab = ctx.repo.func('sc3.synth.synthdef:SynthDef.as_bytes')
    ws = [x for x in walk_local_ordered(ab.node) if isinstance(x, ast.Assign) and any(U.is_self_attr(t, '_bytes') for t in x.targets)]
    ok = bool(ws)
    for w in ws:
        in_handler = any(isinstance(p_, ast.Try) and (U.in_body(w, p_, 'finalbody') or any(w in list(ast.walk(h)) for h in p_.handlers))
                         for p_ in U.parent_chain(w))
        blk = w._parent.body if hasattr(w._parent, 'body') and w in getattr(w._parent, 'body', []) else None
        after_write = blk is not None and any('_write_def_list(' in norm(x) for x in blk[:blk.index(w)])
        ok = ok and not in_handler and after_write
    ctx.ob('C02.valid', f'{ab.fq}:cached-only-after-success', ok,
           'self._bytes must be assigned on the normal path right after _write_def_list returned (never in a finally/except block): '
           'otherwise a definition that cannot be written raises once and then hands out its truncated prefix', ab.node, ab.module)
    # writer/reader agreement on what is malformed: every condition under which the reader's final check raises has a raise in the writer
    rd = ctx.repo.func('sc3.synth.synthdesc:SynthDesc._check_synthdesc2')
    wr = ctx.repo.func('sc3.synth.synthdef:SynthDef._write_def')

    def raising_tests(fn):
        out = []
        for br in [x for x in walk_local(fn.node) if isinstance(x, ast.If)]:
            node = br
            while True:
                if any(isinstance(x, ast.Raise) for x in node.body):
                    out.append(node.test)
                if len(node.orelse) == 1 and isinstance(node.orelse[0], ast.If):
                    node = node.orelse[0]
                else:
                    break
        return out
    rt, wt = raising_tests(rd), raising_tests(wr)
    ctx.require(len(rt) >= 2, 'C02.valid', f'reader rejection conditions not bound: {[norm(t) for t in rt]}')

    def kind(t):
        for c in U.conjuncts(t):
            cp = U.compare_parts(c)
            if cp and cp[1] is ast.In and isinstance(cp[2], ast.Name):
                return ('duplicate', cp[2].id)
            if cp and cp[1] is ast.Gt and norm(cp[0]).startswith('len(') and isinstance(U.literal(cp[2]), int):
                return ('count', U.literal(cp[2]))
            if cp and cp[1] is ast.Lt and norm(cp[2]).startswith('len(') and isinstance(U.literal(cp[0]), int):     # canonical spelling
                return ('count', U.literal(cp[0]))
        return None
    wk = [kind(t) for t in wt]
    for t in rt:
        k = kind(t)
        if k is None:
            ctx.ob('C02.valid', f'{rd.fq}:rejects[{norm(t)}]:writer-refuses', False, f'reader rejection `{norm(t)}` not understood', t, rd.module)
        elif k[0] == 'duplicate':
            ok = any(w and w[0] == 'duplicate' for w in wk) and any(
                U.method_name(c) == 'add' and isinstance(c.func.value, ast.Name) and ('duplicate', c.func.value.id) in wk for c in U.calls(wr.node))
            ctx.ob('C02.valid', f'{rd.fq}:rejects[duplicated-name]:writer-refuses', ok,
                   'the reader rejects a definition with a duplicated control name; the writer must refuse to emit one (two SynthDef.wrap of one function)', wr.node, wr.module)
        else:
            ok = any(w and w[0] == 'count' and w[1] <= k[1] for w in wk)
            ctx.ob('C02.valid', f'{rd.fq}:rejects[more-than-{k[1]}-names]:writer-refuses', ok,
                   f'the reader rejects more than {k[1]} control names; the writer must refuse to emit them', wr.node, wr.module)
    # a unit built for another definition is not among this definition's units: whatever reads it never becomes available in the
    # topological sort and is dropped without a word; the generic validity check must refuse it
    cv = ctx.repo.func('sc3.synth.ugen:SynthObject._check_valid_inputs')
    foreign = False
    for t in walk_local(cv.node):
        if isinstance(t, ast.If) and any(isinstance(x, ast.Return) and x.value is not None and not (isinstance(x.value, ast.Constant) and x.value.value is None)
                                         for x in t.body):
            for c in U.conjuncts(t.test):
                cp = U.compare_parts(c)
                if cp and cp[1] in (ast.IsNot, ast.NotEq) and {norm(cp[0]).split('.')[-1], norm(cp[2]).split('.')[-1]} == {'_synthdef'} \
                        and 'self._synthdef' in (norm(cp[0]), norm(cp[2])):
                    foreign = True
    # ... centrally as well: units override _check_inputs (and may return before the generic check), and width-first units are not
    # UGen instances; the definition's own loop over its units is the one place every input passes
    sc_ = ctx.repo.func('sc3.synth.synthdef:SynthDef._check_inputs')
    central = False
    for t in walk_local(sc_.node):
        if isinstance(t, ast.If):
            cj = [norm(c) for c in U.conjuncts(t.test)]
            if any('._synthdef is not self' in c or 'self is not ' in c and '._synthdef' in c for c in cj) and \
                    any('SynthObject' in c for c in cj) and not any('ugn.UGen)' in c for c in cj):
                central = True
    ctx.ob('C02.valid', f'{sc_.fq}:foreign-unit', central,
           'SynthDef._check_inputs must refuse, for every unit, an input that is a SynthObject of another definition (not only UGen instances, '
           'and independently of the unit\'s own _check_inputs)', sc_.node, sc_.module)
    ctx.ob('C02.valid', f'{cv.fq}:foreign-unit', foreign,
           'an input that is a unit of another definition (a closure leak from an earlier build) must make the validity check return an error', cv.node, cv.module)
    from .. import beliefs
    ctx.rule('C02.desc', 'the description keeps what it read: no value read from the definition is replaced because it is falsy (bus 0)')
    beliefs.rule_ordefault(ctx, 'C02.desc', ['sc3.synth.synthdesc'])
    ru = ctx.repo.func('sc3.synth.synthdesc:SynthDesc._read_ugen_spec2')
    rsrc = full(ru.node)
    ok = 'b = ugen.inputs[0]' in rsrc and 'cmp_index = b._output_index + b.source_ugen._special_index' in rsrc and \
        'if item.index == cmp_index: control = item break' in rsrc and 'iolst.append(IODesc(rate, nchan, b, ugen_class))' in rsrc
    ctx.ob('C02.desc', f'{ru.fq}.add_iodesc:bus', ok,
           'the bus of an input/output unit is its first input; a control output is named by the control whose slot is output index + special index', ru.node, ru.module)
    ok = 'elif issubclass(ugen_class, iou.AbstractIn): add_iodesc(self.inputs, len(ugen._channels))' in rsrc and \
        'elif issubclass(ugen_class, iou.AbstractOut): add_iodesc(self.outputs, ugen._num_audio_channels())' in rsrc
    ctx.ob('C02.desc', f'{ru.fq}:io-lists', ok, 'In units are listed as inputs with their channel count, Out units as outputs with their signal channel count', ru.node, ru.module)
    io = ctx.repo.cls('sc3.synth.synthdesc:IODesc').methods['__init__']
    ctx.ob('C02.desc', f'{io.fq}:starting-channel', "self.starting_channel = '?' if starting_channel is None else starting_channel" in full(io.node),
           'only a missing starting channel is shown as ?; bus 0 stays 0', io.node, io.module)
    from .c04 import rule_groups
    rule_groups(ctx, 'C02.slots')
    rule_fmt(ctx)
    rule_grammars(ctx)
    rule_count(ctx)
    rule_order(ctx)
    rule_topo(ctx)
    rule_valid(ctx)
    ctx.assume('calls may raise; attribute loads do not')


MUTANTS = [
    dict(rule='C02.topo', name='control units get no ordering edge (seed C02-h)', file='sc3/synth/ugen.py',
         old="                    ugen = input\n                self._antecedents.add(ugen)",
         new="                    ugen = input\n                if type(ugen).__name__.endswith('Control'):\n                    continue\n                self._antecedents.add(ugen)"),
    dict(rule='C02.valid', name='central foreign-unit refusal dropped (fix reverted)', file='sc3/synth/synthdef.py',
         old="                    if isinstance(input, ugn.SynthObject)\\\n                    and input._synthdef is not self:\n", new="                    if False:\n"),
    dict(rule='C02.valid', name='foreign units accepted as inputs (fix reverted)', file='sc3/synth/ugen.py',
         old="            if isinstance(input, UGen)\\\n            and input._synthdef is not self._synthdef:\n", new="            if False:\n"),
    dict(rule='C02.desc', name='description lists Out units as inputs', file='sc3/synth/synthdesc.py',
         old="            add_iodesc(self.outputs, ugen._num_audio_channels())", new="            add_iodesc(self.inputs, ugen._num_audio_channels())"),
    dict(rule='C02.desc', name='control bus name looked up without the special index', file='sc3/synth/synthdesc.py',
         old="                cmp_index = b._output_index + b.source_ugen._special_index", new="                cmp_index = b._output_index"),
    dict(rule='C02.valid', name='writer emits duplicated control names (fix reverted)', file='sc3/synth/synthdef.py',
         old="                elif item.name in cnames:\n                    raise Exception(\n                        f\"duplicated control name '{item.name}'\")\n", new=""),
    dict(rule='C02.valid', name='writer name limit above the reader limit', file='sc3/synth/synthdef.py',
         old="            if len(allcns_tmp) > 255:", new="            if len(allcns_tmp) > 65535:"),
    dict(rule='C02.count', name='unit hands out its own output list (fix reverted)', file='sc3/synth/ugen.py',
         old="        ret = obj._init_ugen(*args)\n        if ret is obj._channels:\n            # The unit's own output list is not handed out.\n            ret = ChannelList(ret)\n        return ret\n",
         new="        return obj._init_ugen(*args)\n"),
    dict(rule='C02.count', name='(fix reverted) BeatTrack2 without _init_ugen', file='sc3/synth/ugens/machinelistening.py',
         old="            paccuracy, lock, wscheme)\n\n    def _init_ugen(self, *inputs):  # override\n        self._inputs = inputs\n        return self._init_outputs(6, self.rate)\n", new="            paccuracy, lock, wscheme)\n"),
    dict(rule='C02.rgram', name='(fix reverted) reader leaves the variant blocks unread', file='sc3/synth/synthdesc.py',
         old="                for _ in range(num_variants):\n                    # Skip each block to leave the stream at the next def.\n                    frw.read_pascal_str(stream)\n                    frw.read_f32_list(stream, num_controls)\n", new=""),
    dict(rule='C02.valid', name='as_bytes caches the buffer in a finally block (seed C02-d)', file='sc3/synth/synthdef.py',
         old="            self._write_def_list([self], stream)\n            self._bytes = stream.getvalue()", new="            try:\n                self._write_def_list([self], stream)\n            finally:\n                self._bytes = stream.getvalue()\n                stream.close()"),
    dict(rule='C02.desc', name='(fix reverted) IODesc replaces bus 0 by ?', file='sc3/synth/synthdesc.py',
         old="        self.starting_channel = '?' if starting_channel is None\\\n            else starting_channel", new="        self.starting_channel = starting_channel or '?'"),
    dict(rule='C02.valid', name='(fix reverted) sequences pass the generic validity check', file='sc3/synth/ugen.py',
         old="            if isinstance(input, (list, tuple))\\\n            or not gpp.ugen_param(input)._is_valid_ugen_input():", new="            if not gpp.ugen_param(input)._is_valid_ugen_input():"),
    dict(rule='C02.wgram', name='num inputs written as i16', file='sc3/synth/ugen.py',
         old="frw.write_i32(file, self._num_inputs())", new="frw.write_i16(file, self._num_inputs())"),
    dict(rule='C02.wgram', name='rate and num_inputs swapped', file='sc3/synth/ugen.py',
         old="            frw.write_i8(file, self._rate_number())\n            frw.write_i32(file, self._num_inputs())",
         new="            frw.write_i32(file, self._num_inputs())\n            frw.write_i8(file, self._rate_number())"),
    dict(rule='C02.wgram', name='constant index written as i16', file='sc3/synth/_graphparam.py',
         old="frw.write_i32(file, const_index)", new="frw.write_i16(file, const_index)"),
    dict(rule='C02.wgram', name='version 1', file='sc3/synth/synthdef.py',
         old="frw.write_i32(file, 2)  # // file version", new="frw.write_i32(file, 1)"),
    dict(rule='C02.rgram', name='reader special index as i32', file='sc3/synth/synthdesc.py',
         old="special_index = frw.read_i16(stream)", new="special_index = frw.read_i32(stream)"),
    dict(rule='C02.rgram', name='reader input specs single width', file='sc3/synth/synthdesc.py',
         old="frw.read_i32_list(stream, num_inputs * 2)", new="frw.read_i32_list(stream, num_inputs)"),
    dict(rule='C02.fmt', name='little endian i32', file='sc3/synth/_fmtrw.py',
         old="stream.write(struct.pack('>i', value))", new="stream.write(struct.pack('<i', value))"),
    dict(rule='C02.fmt', name='read_i16 unsigned', file='sc3/synth/_fmtrw.py',
         old="struct.unpack('>h', stream.read(2))", new="struct.unpack('>H', stream.read(2))"),
    dict(rule='C02.count', name='count of one list, loop over another', file='sc3/synth/synthdef.py',
         old="            frw.write_i32(file, len(self._controls))\n            for item in self._controls:",
         new="            frw.write_i32(file, len(self._controls))\n            for item in self._constants:"),
    dict(rule='C02.count', name='override only _num_outputs', file='sc3/synth/ugens/trig.py',
         old="    def _num_outputs(self):  # override\n        return 0\n\n    def _write_output_specs(self, file):  # override\n        pass\n\n\nclass SendReply",
         new="    def _num_outputs(self):  # override\n        return 0\n\n\nclass SendReply"),
    dict(rule='C02.count', name='rate number table', file='sc3/synth/ugen.py',
         old="if self.rate == 'control': return 1", new="if self.rate == 'control': return 0"),
    dict(rule='C02.order', name='index before sort', file='sc3/synth/synthdef.py',
         old="        self._topological_sort()\n        self._index_ugens()\n        # UGen.buildSynthDef",
         new="        self._index_ugens()\n        self._topological_sort()\n        # UGen.buildSynthDef"),
    dict(rule='C02.order', name='_check_inputs error swallowed', file='sc3/synth/synthdef.py',
         old="        if first_err:\n            raise ValueError(first_err)", new="        if first_err:\n            _logger.warning(first_err)"),
    dict(rule='C02.order', name='write error swallowed', file='sc3/synth/ugen.py',
         old="        except Exception as e:\n            raise Exception('SynthDef: could not write def') from e\n\n    @property\n    def name",
         new="        except Exception as e:\n            pass\n\n    @property\n    def name"),
    dict(rule='C02.topo', name='width-first descendant edge dropped', file='sc3/synth/ugen.py',
         old="        for ugen in self._width_first_antecedents:\n            self._antecedents.add(ugen)\n            ugen._descendants.add(self)",
         new="        for ugen in self._width_first_antecedents:\n            self._antecedents.add(ugen)"),
    dict(rule='C02.topo', name='width-first loop dropped', file='sc3/synth/ugen.py',
         old="        for ugen in self._width_first_antecedents:\n            self._antecedents.add(ugen)\n            ugen._descendants.add(self)\n",
         new=""),
    dict(rule='C02.topo', name='width-first unit not recorded', file='sc3/synth/ugen.py',
         old="            self._synthdef._width_first_ugens.append(self)\n", new=""),
    dict(rule='C02.valid', name='override returns None early', file='sc3/synth/ugens/pan.py',
         old="    def _check_inputs(self):  # override\n        return self._check_n_inputs(3)",
         new="    def _check_inputs(self):  # override\n        if self.rate != 'audio':\n            return None\n        return self._check_n_inputs(3)"),
    dict(rule='C02.count', name='(fix reverted) variant count taken before validation', file='sc3/synth/synthdef.py',
         old="frw.write_i16(file, len(variants))", new="frw.write_i16(file, len(self._variants))"),
    dict(rule='C02.count', name='early return inside the counted variants loop', file='sc3/synth/synthdef.py',
         old="            for varname, varcontrols in variants:\n                frw.write_pascal_str(file, varname)\n",
         new="            for varname, varcontrols in variants:\n                if len(varname) > 32:\n                    return False\n                frw.write_pascal_str(file, varname)\n"),
    dict(rule='C02.valid', name='(fix reverted) AmpComp returns None', file='sc3/synth/ugens/line.py',
         old="""            return self._check_sr_as_first_input()
        else:
            return self._check_valid_inputs()


class AmpCompA""", new="""            return self._check_sr_as_first_input()
        else:
            return None


class AmpCompA"""),
    dict(rule='C02.valid', name='NaN accepted', file='sc3/synth/_graphparam.py',
         old="return not isnan(self._param_value)", new="return True"),
    dict(rule='C02.topo', name='replacement unit forgets width-first antecedents', file='sc3/synth/synthdef.py',
         old="        b._width_first_antecedents = a._width_first_antecedents\n", new="        b._width_first_antecedents = []\n"),
    dict(rule='C02.slots', name='name table slot advances by a stale size', file='sc3/synth/synthdef.py',
         old="                cn.index = index\n                index += len(utl.as_list(cn.default_value))\n                arguments[cn.arg_num] = ctrl_ugens[i]\n                self._set_control_names(ctrl_ugens[i], cn)\n\n        self._control_names",
         new="                cn.index = index\n                index += valsize\n                arguments[cn.arg_num] = ctrl_ugens[i]\n                self._set_control_names(ctrl_ugens[i], cn)\n\n        self._control_names"),
]

REPAIRS = []
