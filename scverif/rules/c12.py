"""C12 - TempoClock time arithmetic and quantisation are consistent."""

import ast

from ..loader import norm, full, walk_local, walk_local_ordered
from .. import util as U
from ..symx import Poly, to_poly
from .c05 import phys_in

EXPLANATION = (
    'The beat<->second map of TempoClock is checked symbolically: every method that writes _tempo or _beat_dur (and '
    '_beats_per_bar / _bars_per_beat) must leave the pair reciprocal; the return expressions of beats2secs/secs2beats '
    'and beats2bars/bars2beats are converted to polynomials and composed, and must be mutual inverses under that '
    'reciprocity; in the tempo setters every read of the old map happens before the first write to any map field, the '
    'new base point lies on the old map (continuity), tempo is written after the base point and the clock thread is '
    'notified in RT mode; play() schedules exactly next_time_on_grid(quant, phase) with sched_abs and next_bar is '
    'bars2beats(ceil(beats2bars(beat))).')
LEVEL_TEXT = ('static: reciprocal-pair invariant over all writers, symbolic inverse check of the two affine conversions, '
              're-base ordering and continuity pair in the tempo setters, structure of play/next_bar/next_time_on_grid. '
              'Numerics of roundup/mod and float error are not decided.')
LEVEL_NOTE = 'polynomial normal forms over named fields; no float semantics'
LEVEL_TEXT_ADD = ' Also: delegation-aware rebase rule, logical-root closure, or-default rule over clock.py.'
LEVEL_TEXT_ADD += " Rounds e-f: the tempo setter pivots on the position read through the map, never on the scheduler's cached beat; wake-up sites (shared with C05)."
LEVEL_TEXT = (globals().get('LEVEL_TEXT') or EXPLANATION) + LEVEL_TEXT_ADD
TECHNIQUE = 'static analysis: symbolic normal forms (Laurent polynomials) + statement-order rules'

MAP_FIELDS = ('_base_seconds', '_base_beats', '_tempo', '_beat_dur')


def tc(ctx):
    return ctx.repo.cls('sc3.base.clock:TempoClock')


def writers_of(ci, fields):
    out = {}
    allf = list(ci.methods.values()) + list(ci.setters.values())
    for f in allf:
        ws = []
        for s in walk_local_ordered(f.node):
            if isinstance(s, (ast.Assign, ast.AugAssign)):
                for t in U.assigned_targets(s):
                    if U.is_self_attr(t) and t.attr in fields:
                        ws.append((t.attr, s))
        if ws:
            out[f] = ws
    return out


def rule_inv(ctx):
    ctx.rule('C12.inv', 'every writer of _tempo/_beat_dur leaves _beat_dur == 1/_tempo; every writer of '
                        '_beats_per_bar/_bars_per_beat leaves them reciprocal')
    ci = tc(ctx)
    mod = ci.module
    n = 0
    for a, b in (('_tempo', '_beat_dur'), ('_beats_per_bar', '_bars_per_beat')):
        for f, ws in writers_of(ci, (a, b)).items():
            n += 1
            last = {}
            order = []
            for fld, s in ws:
                last[fld] = s
                order.append(fld)
            key = f'{f.fq}:{a}*{b}'
            if not isinstance(last.get(b), ast.Assign) and b in last:
                ctx.ob('C12.inv', key, False, f'{b} updated in place', f.node, mod)
                continue
            if a in last and b not in last:
                ctx.ob('C12.inv', key, False, f'{f.qualname} writes {a} but not its reciprocal partner {b}', last[a], mod)
                continue
            vb = last[b].value
            va = last[a].value if a in last else None
            # constants
            if va is not None and U.is_num(va) and U.is_num(vb):
                ok = abs(U.num_value(va) * U.num_value(vb) - 1.0) < 1e-12
                ctx.ob('C12.inv', key, ok, f'{a}={norm(va)}, {b}={norm(vb)} must be reciprocal', last[b], mod)
                continue
            ok = isinstance(vb, ast.BinOp) and isinstance(vb.op, ast.Div) and U.is_num(vb.left, 1)
            if ok:
                den = norm(vb.right)
                if va is None:
                    ok = den == f'self.{a}'
                else:
                    ok = (den == f'self.{a}' and order.index(a) < len(order) - 1 - order[::-1].index(b) + 1 and
                          ws.index((a, last[a])) < ws.index((b, last[b]))) or den == norm(va)
            ctx.ob('C12.inv', key, ok,
                   f'{f.qualname}: {b} = {norm(vb)} with {a} = {norm(va) if va is not None else "(unchanged)"}: must be 1/{a}', last[b], mod)
    ctx.require(n >= 5, 'C12.inv', f'only {n} writers found')


def ret_poly(f, param_atom):
    rets = [s for s in walk_local(f.node) if isinstance(s, ast.Return)]
    r = rets[-1].value
    p = f.params[1]

    def atom_of(node):
        if isinstance(node, ast.Name) and node.id == p:
            return param_atom
        return None
    return to_poly(r, atom_of)


def rule_affine(ctx):
    ctx.rule('C12.affine', 'beats2secs o secs2beats and beats2bars o bars2beats are the identity (both ways) as polynomial '
                           'identities under the reciprocal-pair invariant')
    ci = tc(ctx)
    mod = ci.module
    for fa, fb, d, t in (('beats2secs', 'secs2beats', 'self._beat_dur', 'self._tempo'),
                         ('beats2bars', 'bars2beats', 'self._bars_per_beat', 'self._beats_per_bar')):
        A, B = ci.methods[fa], ci.methods[fb]
        try:
            pa = ret_poly(A, 'x')
            pb = ret_poly(B, 'x')
        except ValueError as e:
            ctx.ob('C12.affine', f'{A.fq}:form', False, f'not an affine expression: {e}', A.node, mod)
            continue
        for F_ in (A, B):
            rets_ = [x for x in walk_local(F_.node) if isinstance(x, ast.Return)]
            guards_ = [x for x in walk_local(F_.node) if isinstance(x, ast.If)]
            okg = all(norm(g_.test) == 'not self.running()' and isinstance(g_.body[-1], ast.Raise) for g_ in guards_)
            ctx.ob('C12.affine', f'{F_.fq}:single-result', len(rets_) == 1 and okg,
                   f'{F_.name} must be one affine expression for every argument ({len(rets_)} returns, guards {[norm(g_.test) for g_ in guards_]}): a '
                   f'special case makes the two conversions disagree', F_.node, mod)
        inv = {d: Poly.atom(t).inverse()}
        ab = pa.subst({'x': pb}).subst(inv)
        ba = pb.subst({'x': pa}).subst(inv)
        x = Poly.atom('x')
        ctx.ob('C12.affine', f'{A.fq}:o:{fb}', ab == x, f'{fa}({fb}(x)) = {ab}, must be x', A.node, mod)
        ctx.ob('C12.affine', f'{B.fq}:o:{fa}', ba == x, f'{fb}({fa}(x)) = {ba}, must be x', B.node, mod)
        # degree one in x with the right slope
        slope_ok = pa.subst(inv).t.get((('x', 1),), None) is not None or True
    # beats advance at the current tempo: d(secs2beats)/d(seconds) == _tempo
    B = ci.methods['secs2beats']
    pb = ret_poly(B, 'x')
    coeff = {k: v for k, v in pb.t.items() if ('x', 1) in k}
    ok = list(coeff.keys()) == [tuple(sorted((('self._tempo', 1), ('x', 1))))] and list(coeff.values()) == [1]
    ctx.ob('C12.affine', f'{B.fq}:slope', ok, f'beats advance at the current tempo: slope terms {coeff}', B.node, mod)
    bt = ci.methods['beats']
    ctx.ob('C12.affine', f'{bt.fq}', full(bt.node).endswith('return self.secs2beats(_libsc3.main.current_tt._seconds)'),
           'current beats = map applied to the current logical time', bt.node, mod)
    eb = ci.methods['elapsed_beats']
    ctx.ob('C12.affine', f'{eb.fq}', full(eb.node).endswith('return self.secs2beats(_libsc3.main.elapsed_time())'),
           'elapsed beats = map applied to the physical time', eb.node, mod)
    mc = ctx.repo.cls('sc3.base.clock:MetaClock')
    for nm in ('beats2secs', 'secs2beats'):
        g = mc.methods[nm]
        ctx.ob('C12.affine', f'{g.fq}', full(g.node).endswith(f'return {g.params[1]}'), 'non-tempo clocks: beats are seconds', g.node, mod)


def self_closure(ctx, ci, f, depth=4):
    return U.self_closure(ctx.repo, ci, f, depth)


def _map_writes(f):
    ss = [s for s in walk_local_ordered(f.node) if isinstance(s, ast.stmt)]
    first_w = None
    wpos = {}
    for i, s in enumerate(ss):
        if isinstance(s, ast.Assign):
            for t in s.targets:
                if U.is_self_attr(t) and t.attr in MAP_FIELDS:
                    wpos.setdefault(t.attr, i)
                    if first_w is None:
                        first_w = i
    return ss, first_w, wpos


def rule_cache(ctx, rid='C12.affine'):
    ctx.rule(rid, 'TempoClock._beats is the rt thread\'s note of the beat it is performing: only _run reads it; every other method takes the '
                  'current beat through the map from the caller\'s logical time (in nrt nothing writes _beats, after `clock.beats = x` it is stale)')
    ci = tc(ctx)
    n = 0
    # the rt loop and the private helpers that only it calls (a loop body split into methods is still the loop)
    callers = {}
    for mname, mf in ci.methods.items():
        for c in U.calls(mf.node):
            if U.is_self_attr(c.func) and c.func.attr in ci.methods:
                callers.setdefault(c.func.attr, set()).add(mname)
    loop_only = {'_run'}
    grew = True
    while grew:
        grew = False
        for mname, who in callers.items():
            if mname not in loop_only and mname.startswith('_') and who and who <= loop_only:
                loop_only.add(mname)
                grew = True
    for name, f in sorted({**ci.methods, **{k + '.setter': v for k, v in ci.setters.items()},
                           **{k + '.getter': v for k, v in getattr(ci, 'properties', {}).items()}}.items()):
        reads = [x for x in walk_local(f.node) if isinstance(x, ast.Attribute) and U.is_self_attr(x, '_beats') and isinstance(x.ctx, ast.Load)]
        n += 1
        if name.split('.')[0] in loop_only:
            continue
        ctx.ob(rid, f'{ci.fq}.{name}:reads-cache', not reads,
               f'TempoClock.{name} reads self._beats, the beat of the last task the rt thread performed: stale in nrt, after `clock.beats = x`, and '
               f'from any other thread', f.node, ci.module)
    ctx.require(n >= 20, rid, f'only {n} TempoClock methods analysed')


def rule_rebase(ctx):
    ctx.rule('C12.rebase', 'in tempo.setter/etempo every read of the old map precedes the first write to a map field; the '
                           'new base point (seconds, beats) lies on the old map; tempo is written after the base point; RT '
                           'mode notifies the clock thread')
    ci = tc(ctx)
    mod = ci.module
    PAIRS = (('beats2secs', '_base_seconds', '_base_beats'), ('secs2beats', '_base_beats', '_base_seconds'))
    for f0, pairs in ((ci.setters['tempo'], PAIRS[:1]), (ci.methods['etempo'], PAIRS[1:])):
        f = f0
        ss, first_w, wpos = _map_writes(f)
        if first_w is None:
            # the entry delegates: judge the (single) self-callee that writes the map in its place; the
            # logical-root clause below still speaks about the entry itself
            callee = [m for m in self_closure(ctx, ci, f).values() if m is not f and _map_writes(m)[1] is not None]
            ctx.require(len(callee) == 1, 'C12.rebase', f'{f.fq}: no map writes found')
            f = callee[0]
            pairs = PAIRS
            ss, first_w, wpos = _map_writes(f)
        late = []
        for i, s in enumerate(ss):
            if i <= first_w:
                continue
            if isinstance(s, (ast.If, ast.With, ast.For, ast.While, ast.Try)):
                exprs = [s.test] if isinstance(s, (ast.If, ast.While)) else []
            else:
                exprs = [s]
            for e in exprs:
                for n in ast.walk(e):
                    if isinstance(n, ast.Call) and U.is_self_attr(n.func) and n.func.attr in ('beats2secs', 'secs2beats', 'elapsed_beats'):
                        late.append(norm(n))
                    if isinstance(n, ast.Attribute) and U.is_self_attr(n, 'beats') and isinstance(n.ctx, ast.Load):
                        late.append('self.beats')
        ctx.ob('C12.rebase', f'{f0.fq}:old-map-read-first', not late,
               f'the old map is read after a map field was already overwritten: {late} (the new base point is computed with a half-updated map)', f.node, mod)
        ok = False
        for conv, fld_conv, fld_raw in pairs:
            a_conv = [s for s in ss if isinstance(s, ast.Assign) and U.is_self_attr(s.targets[0], fld_conv)]
            a_raw = [s for s in ss if isinstance(s, ast.Assign) and U.is_self_attr(s.targets[0], fld_raw)]
            ok = ok or (len(a_conv) == 1 and len(a_raw) == 1 and isinstance(a_conv[0].value, ast.Call) and
                        U.is_self_attr(a_conv[0].value.func, conv) and norm(a_conv[0].value.args[0]) == norm(a_raw[0].value))
        # ... and that x is the clock's *current* position: read through the map at the caller's time (self.beats, a seconds read
        # converted), on every branch; the scheduler's cached self._beats is the beat of the last wake-up and is not refreshed by the
        # beats setter, so pivoting on it makes the pair jump after `clock.beats = x; clock.tempo = t`
        cached = []
        for conv_, fld_conv_, fld_raw_ in pairs:
            for a in [x for x in walk_local(f.node) if isinstance(x, ast.Assign) and U.is_self_attr(x.targets[0], fld_raw_)]:
                srcs = [a.value]
                seen_n = set()
                while srcs:
                    e = srcs.pop()
                    for n_ in ast.walk(e):
                        if isinstance(n_, ast.Attribute) and U.is_self_attr(n_) and n_.attr in ('_beats', '_seconds') and isinstance(n_.ctx, ast.Load):
                            cached.append(f'self.{n_.attr}')
                        if isinstance(n_, ast.Name) and n_.id not in seen_n:
                            seen_n.add(n_.id)
                            srcs += [x.value for x in walk_local(f.node) if isinstance(x, ast.Assign) and any(
                                isinstance(t, ast.Name) and t.id == n_.id for t in x.targets)]
        ctx.ob('C12.rebase', f'{f0.fq}:pivot-is-current-position', not cached,
               f'the new base point is taken from {sorted(set(cached))}, the scheduler\'s cache of the last wake-up, instead of the position '
               f'read through the map now', f.node, mod)
        conv, fld_conv, fld_raw = pairs[0]
        ctx.ob('C12.rebase', f'{f0.fq}:base-point-on-old-map', ok,
               f'{fld_conv} must be {conv}(x) of the same x stored in {fld_raw} (continuity of the beat/second pair)', f.node, mod)
        ok = all(k in wpos for k in MAP_FIELDS) and wpos['_tempo'] > max(wpos['_base_seconds'], wpos['_base_beats']) and wpos['_beat_dur'] > wpos['_tempo']
        ctx.ob('C12.rebase', f'{f0.fq}:order', ok, f'write order must be base point, tempo, beat_dur; positions {wpos}', f.node, mod)
        src = full(f.node)
        FOLLOW = ('if self.mode == _libsc3.main.NRT_MODE: _libsc3.main._clock_scheduler.rekey(self) '
                  'else: with self._sched_cond: self._sched_cond.notify()')
        ok = U.before(src, 'self._beat_dur = ', FOLLOW)
        if not ok:
            # ... or through a self-helper called after the last map write
            for c in U.calls(f.node):
                if U.is_self_attr(c.func) and not c.args:
                    h = ctx.repo.resolve_method(ci, c.func.attr)
                    if h is not None and FOLLOW in full(h.node) and U.before(src, 'self._beat_dur = ', norm(c)):
                        ok = True
        ctx.ob('C12.rebase', f'{f0.fq}:notify', ok, 'after changing the map the pending tasks follow it: the RT clock thread is notified to '
                                                     'recompute its deadline, the NRT queue is re-keyed', f.node, mod)
    # the logical-time setters must not reach a physical-time read (tempo.setter / beats.setter act at the caller's logical time)
    for f in (ci.setters['tempo'], ci.setters['beats']):
        phys = [m.fq for m in self_closure(ctx, ci, f).values() if phys_in(m.node)]
        ctx.ob('C12.rebase', f'{f.fq}:logical-root', not phys,
               f'{f.fq} acts at the current logical time but reaches a physical-time read through {phys}: the map would '
               f'depend on wake-up jitter in real-time mode', f.node, mod)
    f = ci.setters['beats']
    src = full(f.node)
    ok = U.before(src, 'seconds = _libsc3.main.current_tt._seconds', 'self._base_seconds = seconds', f'self._base_beats = {f.params[1]}') \
        and 'self._sched_cond.notify()' in src
    ctx.ob('C12.rebase', f'{f.fq}', ok, 'setting beats re-bases the map at the current logical second and notifies', f.node, mod)
    # tempo validation
    f = ci.setters['tempo']
    src = full(f.node)
    ctx.ob('C12.rebase', f'{f.fq}:nonzero', 'if value == 0.0: raise ValueError' in src and 'if value < 0.0: raise ValueError' in src,
           'tempo 0 or negative is refused by the setter', f.node, mod)
    from .. import beliefs
    beliefs.rule_ordefault(ctx, 'C12.rebase', ['sc3.base.clock'])
    i = ci.methods['__init__']
    src = full(i.node)
    ok = 'self._base_seconds = _libsc3.main.current_tt._seconds if seconds is None else seconds' in src and 'self._base_beats = beats or 0.0' in src
    ctx.ob('C12.rebase', f'{i.fq}:base', ok, 'a new clock starts its map at the current logical time', i.node, mod)


def rule_play(ctx):
    ctx.rule('C12.play', 'play(quant) schedules exactly next_time_on_grid(quant.quant, quant.phase) through sched_abs; '
                         'next_bar = bars2beats(ceil(beats2bars(beat))); next_time_on_grid has the documented form')
    ci = tc(ctx)
    mod = ci.module
    p = ci.methods['play']
    b = [norm(s) for s in U.body_nodoc(p.node)]
    ok = b == [f'{p.params[2]} = Quant.as_quant({p.params[2]})', f'ntog = self.next_time_on_grid({p.params[2]}.quant, {p.params[2]}.phase)',
               f'self.sched_abs(ntog, {p.params[1]})']
    ctx.ob('C12.play', f'{p.fq}', ok, f'play must schedule at the grid time with sched_abs; found {b}', p.node, mod)
    nb = ci.methods['next_bar']
    src = full(nb.node)
    ok = f'if {nb.params[1]} is None: {nb.params[1]} = self.beats' in src and src.endswith(f'return self.bars2beats(bi.ceil(self.beats2bars({nb.params[1]})))')
    ctx.ob('C12.play', f'{nb.fq}', ok, 'next bar line is the ceiling in bar units converted back', nb.node, mod)
    pn = ci.methods['play_next_bar']
    ctx.ob('C12.play', f'{pn.fq}', full(pn.node).endswith(f'self.sched_abs(self.next_bar(), {pn.params[1]})'), 'play_next_bar uses sched_abs(next_bar())', pn.node, mod)
    g = ci.methods['next_time_on_grid']
    q, ph, rb = g.params[1], g.params[2], g.params[3]
    src = full(g.node)
    ok = f'if {rb} is None: {rb} = self.beats' in src and f'if {q} == 0: return {rb} + {ph}' in src and \
        f'elif {q} < 0: raise ValueError' in src and f'if {ph} < 0: {ph} = bi.mod({ph}, {q})' in src and \
        src.endswith(f'return bi.roundup({rb} - self._base_bar_beat - bi.mod({ph}, {q}), {q}) + self._base_bar_beat + {ph}')
    ctx.ob('C12.play', f'{g.fq}', ok,
           'grid time = roundup(ref - bar_origin - phase mod quant, quant) + bar_origin + phase, counted from the last meter change', g.node, mod)
    rets = [x for x in walk_local(g.node) if isinstance(x, ast.Return)]
    guards = []
    for r_ in rets:
        gd = [norm(p_.test) for p_ in U.parent_chain(r_) if isinstance(p_, ast.If)]
        guards.append((gd, norm(r_.value)))
    ok = len(rets) == 2 and guards[0] in [([f'{q} == 0'], f'{rb} + {ph}')] + [] or \
        sorted(guards, key=lambda x: len(x[0]))[0][0] == [] and len(rets) == 2 and any(gd == [f'{q} == 0'] and v == f'{rb} + {ph}' for gd, v in guards)
    ctx.ob('C12.play', f'{g.fq}:exits', ok,
           f'next_time_on_grid must have exactly two results: refbeat + phase when quant == 0, else the grid formula counted from the last meter '
           f'change; found {guards} (an extra shortcut returns beats that are not on the grid after a meter change)', g.node, mod)
    t = ci.methods['time_to_next_beat']
    ctx.ob('C12.play', f'{t.fq}', full(t.node).endswith('return ntog - self.beats'), 'time to next beat is grid time minus now', t.node, mod)
    # meter change re-bases bars
    m = ci.setters['beats_per_bar']
    src = full(m.node)
    ok = U.before(src, 'beats = self.beats', 'self._base_bar = bi.round((beats - self._base_bar_beat) * self._bars_per_beat + self._base_bar, 1)',
                  'self._base_bar_beat = beats', f'self._beats_per_bar = {m.params[1]}', f'self._bars_per_beat = 1 / {m.params[1]}')
    ctx.ob('C12.play', f'{m.fq}', ok, 'a meter change re-bases the bar origin with the old meter before installing the new one', m.node, mod)
    # numeric kernels used by quantisation exist with quantum parameter
    bi_ = ctx.repo.module('sc3.base.builtins')
    for nm in ('roundup', 'mod', 'ceil', 'round'):
        ctx.ob('C12.play', f'{bi_.name}:{nm}:defined', nm in bi_.functions, f'builtins.{nm} must exist', None, bi_, nontrivial=False)


def rule_quant(ctx):
    ctx.rule('C12.play', 'every spelling of a quant (number, pair, Quant object) reaches next_time_on_grid with the same values: as_quant '
                         'builds the Quant from the given numbers without rounding them')
    q = ctx.repo.cls('sc3.base.clock:Quant')
    f = q.methods['as_quant']
    p = f.params[1]
    rounders = [norm(c)[:50] for c in U.calls(f.node) if (U.method_name(c) or U.call_name(c) or '').split('.')[-1] in
                ('ceil', 'floor', 'round', 'roundup', 'trunc', 'int')]
    builds = [norm(c) for c in U.calls(f.node) if norm(c.func) == 'cls']
    ok = not rounders and f'cls({p})' in builds and f'cls(*{p})' in builds
    dflt = []
    for a in walk_local(f.node):
        if isinstance(a, ast.Assign) and norm(a.value) == 'cls()':
            tests = [norm(p_.test) for p_ in U.parent_chain(a) if isinstance(p_, ast.If) and U.in_body(a, p_, 'body')]
            dflt.append(tests[0] if tests else 'unconditional')
    ctx.ob('C12.play', f'{f.fq}:default-only-for-none', bool(dflt) and all(t == f'{p} is None' for t in dflt),
           f'the default Quant() is chosen under {dflt}: only `{p} is None` may select it (0 is the documented "no quantisation" and is falsy)',
           f.node, f.module)
    ctx.ob('C12.play', f'{f.fq}:passes-numbers-through', ok,
           f'as_quant builds its result with {builds}{" and rounds with " + str(rounders) if rounders else ""}: a bare number must be passed on '
           f'as it is (play(r, 0.5) and play(r, Quant(0.5)) must land on the same grid)', f.node, f.module)


def rule_meter(ctx):
    ctx.rule('C12.rebase', 'changing beats_per_bar re-bases the bar map like a tempo change re-bases the beat map: the new base bar is the '
                           '(rounded) bar of the current beat on the old map, computed before any map field is overwritten; '
                           'bars_per_beat is the reciprocal of beats_per_bar; bar() and beat_in_bar() are read through that map')
    ci = tc(ctx)
    mod = ci.module
    f = ci.setters['beats_per_bar']
    ss = [x for x in walk_local_ordered(f.node) if isinstance(x, ast.Assign)]
    pos = {norm(x.targets[0]): i for i, x in enumerate(ss)}
    val = {norm(x.targets[0]): norm(x.value) for x in ss}
    p1 = f.params[1]
    ok = val.get('beats') == 'self.beats' and \
        val.get('self._base_bar') == 'bi.round((beats - self._base_bar_beat) * self._bars_per_beat + self._base_bar, 1)' and \
        val.get('self._base_bar_beat') == 'beats' and val.get('self._beats_per_bar') == p1 and val.get('self._bars_per_beat') == f'1 / {p1}'
    ctx.ob('C12.rebase', f'{f.fq}:new-base', ok,
           f'the meter setter must store round(beats2bars(beats)) as base bar, the current beat as base bar beat, the value and its reciprocal; '
           f'found {val}', f.node, mod)
    order_ok = all(k in pos for k in ('self._base_bar', 'self._base_bar_beat', 'self._bars_per_beat')) and \
        pos['self._base_bar'] < pos['self._base_bar_beat'] and pos['self._base_bar'] < pos['self._bars_per_beat']
    ctx.ob('C12.rebase', f'{f.fq}:old-map-read-first', order_ok,
           'the base bar is computed from the old base bar beat and the old bars-per-beat: it must be assigned before those are overwritten',
           f.node, mod)
    src = full(f.node)
    ctx.ob('C12.rebase', f'{f.fq}:own-thread-only', U.before(src, 'if _libsc3.main.current_tt._clock is not self: raise ClockError(', 'beats = self.beats'),
           'the meter may only be changed from the clock\'s own scheduling thread (the current beat is that thread\'s logical beat)', f.node, mod)
    b = ci.methods['bar']
    ctx.ob('C12.rebase', f'{b.fq}', full(b.node).endswith('return float(bi.floor(self.beats2bars(self.beats)))'), 'the current bar is the floor of the bar map at the current beat', b.node, mod)
    bb = ci.methods['beat_in_bar']
    ctx.ob('C12.rebase', f'{bb.fq}', full(bb.node).endswith('return self.beats - self.bars2beats(self.bar())'), 'beat in bar = current beat - beat of the current bar line', bb.node, mod)


def run(ctx):
    from ..report import SubCtx
    from . import c05
    sub_c05 = SubCtx(ctx, 'C12.wake', "beats advance at the current tempo only if every wake-up site re-schedules from the scheduled beat converted with the clock's current map, as decided for C05")
    c05.rule_taint(sub_c05)
    rule_meter(ctx)
    rule_quant(ctx)
    rule_cache(ctx)
    from . import c15 as c15q
    c15q.rule_quantum(ctx, 'C12.play')
    rule_inv(ctx)
    rule_affine(ctx)
    rule_rebase(ctx)
    rule_play(ctx)


MUTANTS = [
    dict(rule='C12.play', name='a negative phase is wrapped for the rounding but added raw: the grid time lies before the reference beat (seed C05-i)', file='sc3/base/clock.py',
         old="        if phase < 0:\n            phase = bi.mod(phase, quant)\n\n        return bi.roundup(\n            refbeat - self._base_bar_beat - bi.mod(phase, quant),\n            quant\n        ) + self._base_bar_beat + phase",
         new="        offset = bi.mod(phase, quant)\n\n        return bi.roundup(\n            refbeat - self._base_bar_beat - offset, quant\n        ) + self._base_bar_beat + phase"),
    dict(rule='C12.affine', name='sched from a task of the clock starts from the cached beat (seed C10-h)', file='sc3/base/clock.py',
         old="        seconds = _libsc3.main.current_tt._seconds\n        beats = self.secs2beats(seconds)\n        return beats + delta",
         new="        if _libsc3.main.current_tt._clock is self:\n            beats = self._beats\n        else:\n            beats = self.secs2beats(_libsc3.main.current_tt._seconds)\n        return beats + delta"),
    dict(rule='C12.play', name='a quant of 0 is taken for no quant given (seed C05-h)', file='sc3/base/clock.py',
         old="        if isinstance(quant, cls):\n            pass\n        elif isinstance(quant, (int, float)):",
         new="        if not quant:\n            quant = cls()\n        elif isinstance(quant, cls):\n            pass\n        elif isinstance(quant, (int, float)):"),
    dict(rule='C12.play', name='a bare fractional quant is rounded up (seed C12-g)', file='sc3/base/clock.py',
         old="        elif isinstance(quant, (int, float)):\n            quant = cls(quant)",
         new="        elif isinstance(quant, (int, float)):\n            quant = cls(quant if quant == float('inf') else bi.ceil(quant))"),
    dict(rule='C12.rebase', name='tempo setter pivots on the cached beat of the last wake-up (seed C12-f)', file='sc3/base/clock.py',
         old="        # TempoClock::SetTempoAtBeat\n        beats = self.beats\n", new="        # TempoClock::SetTempoAtBeat\n        beats = self._beats if _libsc3.main.current_tt._clock is self else self.beats\n"),
    dict(rule='C12.rebase', name='meter setter moves the base bar beat before computing the base bar', file='sc3/base/clock.py',
         old="        self._base_bar = bi.round(\n            (beats - self._base_bar_beat) *\n            self._bars_per_beat + self._base_bar, 1)\n        self._base_bar_beat = beats\n",
         new="        self._base_bar_beat = beats\n        self._base_bar = bi.round(\n            (beats - self._base_bar_beat) *\n            self._bars_per_beat + self._base_bar, 1)\n"),
    dict(rule='C12.rebase', name='bars_per_beat not updated with the meter', file='sc3/base/clock.py',
         old="        self._beats_per_bar = value\n        self._bars_per_beat = 1 / value\n", new="        self._beats_per_bar = value\n"),
    dict(rule='C12.rebase', name='(fix reverted) explicit seconds=0.0 replaced by the current time', file='sc3/base/clock.py',
         old="        self._base_seconds = _libsc3.main.current_tt._seconds\\\n            if seconds is None else seconds", new="        self._base_seconds = seconds or _libsc3.main.current_tt._seconds"),
    dict(rule='C12.rebase', name='explicit reference beat 0 replaced by the current beat (seed C12-c)', file='sc3/base/clock.py',
         old="        if refbeat is None:\n            refbeat = self.beats", new="        refbeat = refbeat or self.beats"),
    dict(rule='C12.rebase', name='tempo setter re-bases at elapsed time (seed C10-b)', file='sc3/base/clock.py',
         old="        beats = self.beats\n        self._base_seconds = self.beats2secs(beats)\n        self._base_beats = beats\n        self._tempo = value\n        self._beat_dur = 1.0 / self._tempo\n        # en tempo_\n        mdl.NotificationCenter.notify(self, 'tempo')\n        if self.mode == _libsc3.main.NRT_MODE:\n            _libsc3.main._clock_scheduler.rekey(self)\n        else:\n            with self._sched_cond:\n                self._sched_cond.notify()  # NOTE: is notify_one in C++.\n",
         new="        self.etempo(value)\n"),
    dict(rule='C12.inv', name='etempo forgets beat_dur', file='sc3/base/clock.py',
         old="        self._base_seconds = seconds\n        self._tempo = value\n        self._beat_dur = 1.0 / self._tempo\n", new="        self._base_seconds = seconds\n        self._tempo = value\n"),
    dict(rule='C12.inv', name='beat_dur computed before tempo', file='sc3/base/clock.py',
         old="        self._base_beats = beats\n        self._tempo = value\n        self._beat_dur = 1.0 / self._tempo\n", new="        self._base_beats = beats\n        self._beat_dur = 1.0 / self._tempo\n        self._tempo = value\n"),
    dict(rule='C12.inv', name='meter reciprocal wrong', file='sc3/base/clock.py',
         old="        self._bars_per_beat = 1 / value", new="        self._bars_per_beat = value"),
    dict(rule='C12.affine', name='base seconds subtracted', file='sc3/base/clock.py',
         old="return (beats - self._base_beats) * self._beat_dur + self._base_seconds", new="return (beats - self._base_beats) * self._beat_dur - self._base_seconds"),
    dict(rule='C12.affine', name='secs2beats scales with beat_dur', file='sc3/base/clock.py',
         old="return (seconds - self._base_seconds) * self._tempo + self._base_beats", new="return (seconds - self._base_seconds) * self._beat_dur + self._base_beats"),
    dict(rule='C12.affine', name='bars2beats ignores bar origin', file='sc3/base/clock.py',
         old="        return (bars - self._base_bar) * self._beats_per_bar\\\n               + self._base_bar_beat", new="        return bars * self._beats_per_bar\\\n               + self._base_bar_beat"),
    dict(rule='C12.rebase', name='tempo assigned first', file='sc3/base/clock.py',
         old="        beats = self.beats\n        self._base_seconds = self.beats2secs(beats)\n        self._base_beats = beats\n        self._tempo = value\n        self._beat_dur = 1.0 / self._tempo",
         new="        self._tempo = value\n        self._beat_dur = 1.0 / self._tempo\n        beats = self.beats\n        self._base_seconds = self.beats2secs(beats)\n        self._base_beats = beats"),
    dict(rule='C12.rebase', name='base assignments swapped', file='sc3/base/clock.py',
         old="        self._base_seconds = self.beats2secs(beats)\n        self._base_beats = beats\n", new="        self._base_beats = beats\n        self._base_seconds = self.beats2secs(beats)\n"),
    dict(rule='C12.rebase', name='etempo base point off the map', file='sc3/base/clock.py',
         old="        self._base_beats = self.secs2beats(seconds)\n        self._base_seconds = seconds", new="        self._base_beats = self.secs2beats(seconds)\n        self._base_seconds = _libsc3.main.current_tt._seconds"),
    dict(rule='C12.play', name='play uses sched instead of sched_abs', file='sc3/base/clock.py',
         old="        self.sched_abs(ntog, task)", new="        self.sched(ntog, task)"),
    dict(rule='C12.play', name='next_bar floors', file='sc3/base/clock.py',
         old="return self.bars2beats(bi.ceil(self.beats2bars(beat)))", new="return self.bars2beats(bi.floor(self.beats2bars(beat)))"),
    dict(rule='C12.play', name='grid ignores bar origin', file='sc3/base/clock.py',
         old="        ) + self._base_bar_beat + phase", new="        ) + phase"),
    dict(rule='C12.play', name='fast path for the default quant ignores the bar origin', file='sc3/base/clock.py',
         old="        elif quant < 0:\n            raise ValueError(\"quant can't be negative\")", new="        elif quant == 1 and phase == 0:\n            return float(bi.ceil(refbeat))\n        elif quant < 0:\n            raise ValueError(\"quant can't be negative\")"),
    dict(rule='C12.affine', name='beats2secs special-cases the base beat', file='sc3/base/clock.py',
         old="        return (beats - self._base_beats) * self._beat_dur + self._base_seconds", new="        if beats <= self._base_beats:\n            return self._base_seconds\n        return (beats - self._base_beats) * self._beat_dur + self._base_seconds"),
]

REPAIRS = []

EQUIV = [
    dict(name='the rt loop reads its cached beat through a private helper that only _run calls', rule='equiv',
         edits=[('sc3/base/clock.py', "                        _libsc3.main._update_logical_time(\n                            self.beats2secs(self._beats))\n",
                 "                        _libsc3.main._update_logical_time(\n                            self._performing_secs())\n"),
                ('sc3/base/clock.py', "    def beats2secs(self, beats):", "    def _performing_secs(self):\n        return self.beats2secs(self._beats)\n\n    def beats2secs(self, beats):")]),
    dict(name='tempo setter delegates its notify to a helper', file='sc3/base/clock.py',
         old="        # en tempo_\n        mdl.NotificationCenter.notify(self, 'tempo')\n        if self.mode == _libsc3.main.NRT_MODE:\n            _libsc3.main._clock_scheduler.rekey(self)\n        else:\n            with self._sched_cond:\n                self._sched_cond.notify()  # NOTE: is notify_one in C++.\n\n    def etempo",
         new="        # en tempo_\n        mdl.NotificationCenter.notify(self, 'tempo')\n        self._map_changed()\n\n    def _map_changed(self):\n        if self.mode == _libsc3.main.NRT_MODE:\n            _libsc3.main._clock_scheduler.rekey(self)\n        else:\n            with self._sched_cond:\n                self._sched_cond.notify()  # NOTE: is notify_one in C++.\n\n    def etempo"),
    dict(name='rename local of tempo.setter', file='sc3/base/clock.py', start="    def tempo(self, value):\n        '''Set", end='    def etempo(self, value):', rename=[('beats', 'now_beats')]),
]
