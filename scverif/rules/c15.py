"""C15 - operators lift uniformly over functions, streams, patterns, lists, operands."""

import ast

from ..loader import norm, full, walk_local, walk_local_ordered
from .. import util as U
from . import c01

EXPLANATION = (
    'The lifting machinery is checked for uniformity: every operator method of AbstractObject hands the selector it is '
    'named after to the hook of its arity (shared with C01.sel); every reflected dunder calls _rcompose_binop and no '
    'other method does; every lifting family (functions, streams, patterns, sequences, operands, unit generators) '
    'provides all four hooks, builds its binary composition with (self, other) in _compose_binop and (other, self) in '
    '_rcompose_binop, and its composition objects apply selector(a, b) in constructor order; the three scbuiltin '
    'decorators try the left operand\'s hook, then the right operand\'s reflected hook with swapped arguments, then '
    'the numeric kernel, and keep the kernel\'s __name__ (the special-index lookup depends on it); every builtin '
    'referenced by an operator method is decorated with the decorator of that arity.')
LEVEL_TEXT = ('static sibling agreement over ~150 operator methods, 6 hook families x 4 hooks, 9 composition classes and the '
              '3 decorator wrappers; decorator/arity agreement of ~110 builtins. Numeric range/inverse laws of the kernels are not decided.')
LEVEL_NOTE = 'numeric laws (wrap/fold ranges, inverses) quantify over runtime values and are declined'
TECHNIQUE = 'static analysis: sibling-implementation agreement and argument-order rules across hook families'

FAMILIES = [
    ('sc3.base.functions:AbstractFunction', 'UnopFunction', 'BinopFunction', 'NaropFunction', None),
    ('sc3.base.stream:Stream', 'UnopStream', 'BinopStream', 'NaropStream', 'stream'),
    ('sc3.seq.pattern:Pattern', 'Punop', 'Pbinop', 'Pnarop', None),
]


def rule_refl(ctx):
    ctx.rule('C15.refl', 'every __rX__ method calls _rcompose_binop, and only reflected methods do')
    ao = ctx.repo.cls('sc3.base.absobject:AbstractObject')
    n = 0
    for name, f in ao.methods.items():
        if name.startswith('_compose') or name.startswith('_rcompose'):
            continue
        hooks = [c.func.attr for c in U.calls(f.node) if U.is_self_attr(c.func) and c.func.attr in ('_compose_unop', '_compose_binop', '_rcompose_binop', '_compose_narop')]
        if not hooks:
            continue
        n += 1
        refl = name.startswith('__r') and name.endswith('__') and name not in ('__round__', '__repr__') and \
            ('__' + name[3:]) in ao.methods
        if refl:
            ctx.ob('C15.refl', f'{f.fq}:reflected', hooks == ['_rcompose_binop'], f'{name} is a reflected operator but calls {hooks}', f.node, ao.module)
            fwd = ao.methods['__' + name[3:]]
            a = [c for c in U.calls(f.node) if U.is_self_attr(c.func)][0]
            b = [c for c in U.calls(fwd.node) if U.is_self_attr(c.func)][0]
            ctx.ob('C15.refl', f'{f.fq}:same-selector', norm(a.args[0]) == norm(b.args[0]),
                   f'{name} uses {norm(a.args[0])} but {fwd.name} uses {norm(b.args[0])}', f.node, ao.module)
        else:
            ctx.ob('C15.refl', f'{f.fq}:forward', '_rcompose_binop' not in hooks, f'{name} is not a reflected operator but calls _rcompose_binop', f.node, ao.module)
        # argument forwarding: parameters after self are forwarded in order
        call = [c for c in U.calls(f.node) if U.is_self_attr(c.func) and c.func.attr in ('_compose_binop', '_rcompose_binop', '_compose_narop')]
        if call:
            fw = [norm(x) for x in call[0].args[1:]]
            ps = f.params[1:]
            okf = fw == ps or (name == '__trunc__' and fw == ['1'])
            ctx.ob('C15.refl', f'{f.fq}:operands', okf, f'{name}{tuple(ps)} forwards {fw}', f.node, ao.module)
    ctx.require(n >= 130, 'C15.refl', f'only {n} operator methods found')


def rule_hooks(ctx):
    ctx.rule('C15.hooks', 'each lifting family defines the four hooks; _compose_binop builds (self, other), _rcompose_binop builds '
                          '(other, self); composition objects apply selector(a, b) in constructor order')
    repo = ctx.repo
    for cfq, un, bi_, na, conv in FAMILIES:
        ci = repo.cls(cfq)
        mod = ci.module
        for h in ('_compose_unop', '_compose_binop', '_rcompose_binop', '_compose_narop'):
            ctx.ob('C15.hooks', f'{ci.fq}.{h}:defined', h in ci.methods, f'{ci.name} must define {h}', ci.node, mod)
        w = (lambda x: f'{conv}({x})') if conv else (lambda x: x)
        exp = {'_compose_unop': f'return {un}(selector, self)', '_compose_binop': f'return {bi_}(selector, self, {w("other")})',
               '_rcompose_binop': f'return {bi_}(selector, {w("other")}, self)'}
        for h, want in exp.items():
            f = ci.methods.get(h)
            if f is None:
                continue
            src = full(f.node)
            p = f.params
            want_p = want.replace('selector', p[1]).replace('other', p[2] if len(p) > 2 else 'other')
            ctx.ob('C15.hooks', f'{f.fq}:argument-order', src.endswith(want_p), f'{ci.name}.{h} must be `{want_p}`; found `{src[-70:]}`', f.node, mod)
        # composition classes
        bc = mod.classes.get(bi_)
        ctx.require(bc is not None, 'C15.hooks', f'{bi_} vanished')
        init = bc.methods['__init__']
        b = [norm(s) for s in U.body_nodoc(init.node)][:3]
        ps = init.params
        ctx.ob('C15.hooks', f'{bc.fq}.__init__:fields', b == [f'self.selector = {ps[1]}', f'self.a = {ps[2]}', f'self.b = {ps[3]}'],
               f'{bi_} stores (selector, a, b) in constructor order; found {b}', init.node, mod)
        ev = bc.methods.get('__call__') or bc.methods.get('next') or bc.methods.get('__stream__')
        src = full(ev.node)
        if ev.name == '__call__':
            ok = src.endswith('return self.selector(a_value, b_value)') and 'a_value = self.a(*args, **kwargs) if callable(self.a) else self.a' in src \
                and 'b_value = self.b(*args, **kwargs) if callable(self.b) else self.b' in src
        elif ev.name == 'next':
            ok = U.before(src, 'a = self.a.next(inval)', 'b = self.b.next(inval)', 'return self.selector(a, b)')
        else:
            ok = 'stm.BinopStream(self.selector, stm.stream(self.a), stm.stream(self.b))' in src
        ctx.ob('C15.hooks', f'{ev.fq}:applies-in-order', ok, f'{bi_} must apply selector(a, b) in that operand order', ev.node, mod)
        uc = mod.classes.get(un)
        ev = uc.methods.get('__call__') or uc.methods.get('next') or uc.methods.get('__stream__')
        src = full(ev.node)
        ok = 'self.selector(self.a(' in src or 'return self.selector(a)' in src or 'stm.UnopStream(self.selector, stm.stream(self.a))' in src
        ctx.ob('C15.hooks', f'{ev.fq}:applies', ok, f'{un} applies the selector to its operand', ev.node, mod)
        nc = mod.classes.get(na)
        ev = nc.methods.get('__call__') or nc.methods.get('next') or nc.methods.get('__stream__')
        src = full(ev.node)
        ok = 'self.selector(self.a(*args, **kwargs), *evaluated_args)' in src or 'return self.selector(a, *args)' in src or \
            'stm.NaropStream(self.selector, stm.stream(self.a), *args)' in src
        ctx.ob('C15.hooks', f'{ev.fq}:applies', ok, f'{na} applies selector(a, *args)', ev.node, mod)
    # operand, sequence, ugen
    op = repo.cls('sc3.base.operand:Operand')
    mod = op.module
    f = op.methods['_compose_binop']
    src = full(f.node)
    ok = 'a = self.value' in src and 'b = other.value if isinstance(other, Operand) else other' in src and src.endswith('return type(self)(selector(a, b))')
    ctx.ob('C15.hooks', f'{f.fq}:argument-order', ok, 'Operand: selector(self.value, other)', f.node, mod)
    f = op.methods['_rcompose_binop']
    src = full(f.node)
    ok = 'a = other.value if isinstance(other, Operand) else other' in src and 'b = self.value' in src and src.endswith('return type(self)(selector(a, b))')
    ctx.ob('C15.hooks', f'{f.fq}:argument-order', ok, 'Operand reflected: selector(other, self.value)', f.node, mod)
    for h in ('_compose_unop', '_compose_narop'):
        ctx.ob('C15.hooks', f'{op.fq}.{h}:defined', h in op.methods, f'Operand must define {h}', op.node, mod)
    sq = repo.cls('sc3.base.absobject:AbstractSequence')
    for h, want in (('_compose_binop', 'utl.list_binop(selector, self, other, type(self))'), ('_rcompose_binop', 'utl.list_binop(selector, other, self, type(self))'),
                    ('_compose_unop', 'utl.list_unop(selector, self, type(self))'), ('_compose_narop', 'utl.list_narop(selector, self, *args, t=type(self))')):
        f = sq.methods.get(h)
        ctx.ob('C15.hooks', f'{sq.fq}.{h}:argument-order', f is not None and full(f.node).endswith('return ' + want), f'sequence {h} must be {want}', sq.node, sq.module)
    ug = repo.cls('sc3.synth.ugen:UGen')
    f = ug.methods['_compose_binop']
    ctx.ob('C15.hooks', f'{f.fq}:argument-order', f'BinaryOpUGen.new(selector, self, {f.params[2]})' in full(f.node), 'UGen: BinaryOpUGen(selector, self, input)', f.node, ug.module)
    f = ug.methods['_rcompose_binop']
    ctx.ob('C15.hooks', f'{f.fq}:argument-order', f'BinaryOpUGen.new(selector, {f.params[2]}, self)' in full(f.node), 'UGen reflected: BinaryOpUGen(selector, input, self)', f.node, ug.module)
    lb = repo.func('sc3.base.utils:list_binop')
    src = full(lb.node)
    ok = 'return t((op(i[0], i[1]) for i in zip(a, b)))' in src and 'return t((list_binop(op, item_a, b, type(item_a)) for item_a in a))' in src and \
        'return t((list_binop(op, a, item_b, type(item_b)) for item_b in b))' in src and src.endswith('return op(a, b)')
    ctx.ob('C15.hooks', f'{lb.fq}:operand-order', ok, 'list algebra keeps (a, b) operand order on every branch', lb.node, lb.module)


def rule_order(ctx, rid='C15.order', families=None, least=10):
    from .. import opflow
    ctx.rule(rid, 'in every method of every composition class (Unop/Binop/Narop x Function/Stream/Pattern), on every path, each '
                  '`self.selector(...)` call and each hand-over of `self.selector` to a sibling class passes the operands in '
                  'constructor order: (a), (a, b) or (a, *args) with args element-wise, unfiltered and in order')
    repo = ctx.repo
    n = 0
    for cfq, un, bi_, na, conv in (families or FAMILIES):
        mod = repo.cls(cfq).module
        for cname, order, fields in ((un, ['a'], {'a': 'f'}), (bi_, ['a', 'b'], {'a': 'f', 'b': 'f'}),
                                     (na, ['a', 'args'], {'a': 'f', 'args': 'seq'})):
            ci = mod.classes.get(cname)
            ctx.require(ci is not None, rid, f'{cname} vanished from {mod.name}')
            exp = opflow.expected_for(order, fields)
            k = 0
            for mname, f in sorted(ci.methods.items()):
                if mname in ('__init__', '__repr__', 'reset'):
                    continue
                for call, pos, deleg in opflow.selector_calls(f.node, fields, repo=repo):
                    k += 1
                    n += 1
                    ok = opflow.matches(pos, exp)
                    what = 'hands the operands to ' + norm(call.func) if deleg else 'applies the selector'
                    ctx.ob(rid, f'{f.fq}:{norm(call)}', ok,
                           f'{cname}.{mname} {what} as {opflow.describe(pos)}; constructor order is {opflow.describe(exp)}', call, mod)
            ctx.ob(rid, f'{ci.fq}:applies-selector', k >= 1, f'{cname} has no method applying or handing over its selector', ci.node, mod)
    ctx.require(n >= least, rid, f'only {n} selector applications found')


def rule_wrap(ctx):
    ctx.rule('C15.wrap', 'scbuiltin.unop/binop/narop: left operand hook, then right operand reflected hook with swapped arguments, '
                         'then the kernel; the wrapper keeps the kernel __name__; every builtin used by an operator method has the '
                         'decorator of that arity')
    m = ctx.repo.module('sc3.base.builtins')
    sb = m.classes['scbuiltin']
    un = sb.methods['unop']
    inner = [n for n in ast.walk(un.node) if isinstance(n, ast.FunctionDef) and n is not un.node]
    ok = len(inner) == 1 and [norm(s) for s in inner[0].body] == ["if hasattr(x, '_compose_unop'): return x._compose_unop(func)", 'return func(x)']
    ctx.ob('C15.wrap', f'{un.fq}:dispatch', ok, 'unary wrapper: operand hook, else kernel', un.node, m)
    bn = sb.methods['binop']
    inner = [n for n in ast.walk(bn.node) if isinstance(n, ast.FunctionDef) and n is not bn.node]
    want = ["if hasattr(a, '_compose_binop'): return a._compose_binop(func, b)", "if hasattr(b, '_rcompose_binop'): return b._rcompose_binop(func, a)", 'return func(a, b)']
    ok = len(inner) == 2 and all([norm(s) for s in i.body] == want for i in inner)
    ctx.ob('C15.wrap', f'{bn.fq}:dispatch', ok, f'binary wrapper (both variants) must be {want}', bn.node, m)
    na = sb.methods['narop']
    inner = [n for n in ast.walk(na.node) if isinstance(n, ast.FunctionDef) and n is not na.node]
    ok = len(inner) == 1 and [norm(s) for s in inner[0].body] == ["if hasattr(x, '_compose_narop'): return x._compose_narop(func, *args)", 'return func(x, *args)']
    ctx.ob('C15.wrap', f'{na.fq}:dispatch', ok, 'n-ary wrapper: first operand hook, else kernel', na.node, m)
    for f in (un, bn, na):
        ok = 'scbuiltin_.__name__ = func.__name__' in full(f.node) and full(f.node).rstrip().endswith('return scbuiltin_')
        ctx.ob('C15.wrap', f'{f.fq}:keeps-name', ok, 'the wrapper must keep the kernel __name__ (special-index lookup uses it)', f.node, m)
    # decorator arity of builtins referenced by operator methods
    ao = ctx.repo.cls('sc3.base.absobject:AbstractObject')
    n = 0
    for name, f in ao.methods.items():
        for c in U.calls(f.node):
            if U.is_self_attr(c.func) and c.func.attr in ('_compose_unop', '_compose_binop', '_rcompose_binop', '_compose_narop') and c.args:
                sel = norm(c.args[0])
                if not sel.startswith('bi.'):
                    continue
                bf = m.functions.get(sel[3:])
                if bf is None:
                    continue
                n += 1
                arity = {'_compose_unop': 'scbuiltin.unop', '_compose_binop': 'scbuiltin.binop', '_rcompose_binop': 'scbuiltin.binop', '_compose_narop': 'scbuiltin.narop'}[c.func.attr]
                ctx.ob('C15.wrap', f'{m.name}:{bf.name}:decorator[{name}]', arity in bf.decorators,
                       f'{sel} is used as a {arity.split(".")[1]} selector by {name} but is decorated with {bf.decorators}: it does not lift over '
                       f'objects of the other kinds', bf.node, m)
    ctx.require(n >= 90, 'C15.wrap', f'only {n} builtin selectors found')


def run(ctx):
    c01.rule_sel(ctx, rid='C15.sel')
    rule_refl(ctx)
    rule_hooks(ctx)
    rule_order(ctx)
    rule_wrap(ctx)


MUTANTS = [
    dict(rule='C15.order', name='Pbinop.__embed__ shortcut swaps operands for a number on the left (seed C15-b)', file='sc3/seq/pattern.py',
         old='        # NOTE: See BinaryOpXStream implementation options. Class is not\n        # defined.\n\n', new='        # NOTE: See BinaryOpXStream implementation options. Class is not\n        # defined.\n\n    def __embed__(self, inval=None):\n        if isinstance(self.b, (int, float)):\n            stream, number = stm.stream(self.a), self.b\n        elif isinstance(self.a, (int, float)):\n            stream, number = stm.stream(self.b), self.a\n        else:\n            return (yield from super().__embed__(inval))\n        try:\n            while True:\n                inval = yield self.selector(stream.next(inval), number)\n        except stm.StopStream:\n            return inval\n\n'),
    dict(rule='C15.order', name='Pnarop.__embed__ polls only pattern arguments, constants appended last (seed C13-b)', file='sc3/seq/pattern.py',
         old="        stream_lst = [stm.stream(x) for x in self.args]\n        try:\n            while True:\n                a = stream_a.next(inval)\n                args = [x.next(inval) for x in stream_lst]\n                inval = yield self.selector(a, *args)",
         new="        stream_lst = [stm.stream(x) for x in self.args if hasattr(x, '__stream__')]\n        const_lst = [x for x in self.args if not hasattr(x, '__stream__')]\n        try:\n            while True:\n                a = stream_a.next(inval)\n                args = [x.next(inval) for x in stream_lst]\n                inval = yield self.selector(a, *args, *const_lst)"),
    dict(rule='C15.order', name='NaropStream evaluates its arguments in reverse', file='sc3/base/stream.py',
         old="        for item in self.args:\n            res = item.next(inval)  # raises StopStream\n            args.append(res)\n        return self.selector(a, *args)",
         new="        for item in reversed(self.args):\n            res = item.next(inval)  # raises StopStream\n            args.append(res)\n        return self.selector(a, *args)"),
    dict(rule='C15.sel', name='cpsmidi hands midicps', file='sc3/base/absobject.py',
         old="return self._compose_unop(bi.cpsmidi)", new="return self._compose_unop(bi.midicps)"),
    dict(rule='C15.refl', name='__rsub__ composes forward', file='sc3/base/absobject.py',
         old="return self._rcompose_binop(operator.sub, other)", new="return self._compose_binop(operator.sub, other)"),
    dict(rule='C15.refl', name='__rtruediv__ uses another selector', file='sc3/base/absobject.py',
         old="return self._rcompose_binop(operator.truediv, other)", new="return self._rcompose_binop(operator.floordiv, other)"),
    dict(rule='C15.hooks', name='function reflected hook keeps order', file='sc3/base/functions.py',
         old="        return BinopFunction(selector, other, self)", new="        return BinopFunction(selector, self, other)"),
    dict(rule='C15.hooks', name='stream binop applies (b, a)', file='sc3/base/stream.py',
         old="        b = self.b.next(inval)\n        return self.selector(a, b)", new="        b = self.b.next(inval)\n        return self.selector(b, a)"),
    dict(rule='C15.hooks', name='operand reflected hook keeps order', file='sc3/base/operand.py',
         old="        a = other.value if isinstance(other, Operand) else other\n        b = self.value", new="        b = other.value if isinstance(other, Operand) else other\n        a = self.value"),
    dict(rule='C15.hooks', name='pattern reflected hook keeps order', file='sc3/seq/pattern.py',
         old="        return Pbinop(selector, other, self)", new="        return Pbinop(selector, self, other)"),
    dict(rule='C15.wrap', name='reflected dispatch without swap', file='sc3/base/builtins.py',
         old="            def scbuiltin_(a, b):\n                if hasattr(a, '_compose_binop'):\n                    return a._compose_binop(func, b)\n                if hasattr(b, '_rcompose_binop'):\n                    return b._rcompose_binop(func, a)",
         new="            def scbuiltin_(a, b):\n                if hasattr(a, '_compose_binop'):\n                    return a._compose_binop(func, b)\n                if hasattr(b, '_rcompose_binop'):\n                    return b._compose_binop(func, a)"),
    dict(rule='C15.wrap', name='wrapper loses the kernel name', file='sc3/base/builtins.py',
         old="        scbuiltin_.__name__ = func.__name__  # used to obtain special_index.\n        scbuiltin_.__qualname__ += func.__name__\n        return scbuiltin_\n\n    @staticmethod\n    def binop",
         new="        scbuiltin_.__qualname__ += func.__name__\n        return scbuiltin_\n\n    @staticmethod\n    def binop"),
]

REPAIRS = []


EQUIV = [
    dict(name='Pbinop.__embed__ shortcut with the operands in order on both arms', file='sc3/seq/pattern.py',
         old='        # NOTE: See BinaryOpXStream implementation options. Class is not\n        # defined.\n\n', new='        # NOTE: See BinaryOpXStream implementation options. Class is not\n        # defined.\n\n    def __embed__(self, inval=None):\n        if isinstance(self.b, (int, float)):\n            stream, number = stm.stream(self.a), self.b\n            try:\n                while True:\n                    inval = yield self.selector(stream.next(inval), number)\n            except stm.StopStream:\n                return inval\n        elif isinstance(self.a, (int, float)):\n            stream, number = stm.stream(self.b), self.a\n            try:\n                while True:\n                    inval = yield self.selector(number, stream.next(inval))\n            except stm.StopStream:\n                return inval\n        else:\n            return (yield from super().__embed__(inval))\n\n'),
]
