"""C15 - operators lift uniformly over functions, streams, patterns, lists, operands."""

import ast
import re

from ..loader import norm, full, walk_local, walk_local_ordered
from .. import util as U
from . import c01

EXPLANATION = (
    'The lifting machinery is checked for uniformity: every operator method of AbstractObject hands the selector it is '
    'named after to the hook of its arity (shared with C01.sel); every reflected dunder calls _rcompose_binop and no '
    'other method does; every lifting family (functions, streams, patterns, sequences, operands, unit generators) '
    'provides all four hooks, builds its binary composition with (self, other) in _compose_binop and (other, self) in '
    '_rcompose_binop, and its composition objects apply selector(a, b) in constructor order; the three scbuiltin '
    'decorators try the left operand\'s hook, then the right operand\'s reflected hook with swapped arguments, then '
    'the numeric kernel, and keep the kernel\'s __name__ (the special-index lookup depends on it); every builtin '
    'referenced by an operator method is decorated with the decorator of that arity.')
LEVEL_TEXT = ('static sibling agreement over ~150 operator methods, 6 hook families x 4 hooks, 9 composition classes and the '
              '3 decorator wrappers; decorator/arity agreement of ~110 builtins. Of the numeric laws only structural necessary conditions are decided (see the end of this text); kernel values are not.')
LEVEL_NOTE = 'kernel values are not decided: a wrong constant or off-by-one inside a numeric kernel (seed C15-a) is not detected; the inverse pairs and the bounds-unmodified clauses are necessary conditions only'
LEVEL_TEXT_ADD = ' Also: path-sensitive operand provenance and in-value forwarding in the nine composition classes (C15.order); the four conversion pairs as inverse chains, bounds/quantum reach the arithmetic unmodified, integer fast paths test every parameter they read (C15.laws).'
LEVEL_TEXT_ADD += ' Rounds e-f: list_unop/list_sum, the wrappers hand themselves to the operand hook, modulo remainder fix-up conditioned on the remainder; n-ary reflected dispatch is a known finding.'
LEVEL_TEXT = (globals().get('LEVEL_TEXT') or EXPLANATION) + LEVEL_TEXT_ADD
TECHNIQUE = 'static analysis: sibling-implementation agreement and argument-order rules across hook families'

FAMILIES = [
    ('sc3.base.functions:AbstractFunction', 'UnopFunction', 'BinopFunction', 'NaropFunction', None),
    ('sc3.base.stream:Stream', 'UnopStream', 'BinopStream', 'NaropStream', 'stream'),
    ('sc3.seq.pattern:Pattern', 'Punop', 'Pbinop', 'Pnarop', None),
]


def rule_refl(ctx):
    ctx.rule('C15.refl', 'every __rX__ method calls _rcompose_binop, and only reflected methods do')
    ao = ctx.repo.cls('sc3.base.absobject:AbstractObject')
    n = 0
    for name, f in ao.methods.items():
        if name.startswith('_compose') or name.startswith('_rcompose'):
            continue
        hooks = [c.func.attr for c in U.calls(f.node) if U.is_self_attr(c.func) and c.func.attr in ('_compose_unop', '_compose_binop', '_rcompose_binop', '_compose_narop')]
        if not hooks:
            continue
        n += 1
        refl = name.startswith('__r') and name.endswith('__') and name not in ('__round__', '__repr__') and \
            ('__' + name[3:]) in ao.methods
        if refl:
            ctx.ob('C15.refl', f'{f.fq}:reflected', hooks == ['_rcompose_binop'], f'{name} is a reflected operator but calls {hooks}', f.node, ao.module)
            fwd = ao.methods['__' + name[3:]]
            a = [c for c in U.calls(f.node) if U.is_self_attr(c.func)][0]
            b = [c for c in U.calls(fwd.node) if U.is_self_attr(c.func)][0]
            ctx.ob('C15.refl', f'{f.fq}:same-selector', norm(a.args[0]) == norm(b.args[0]),
                   f'{name} uses {norm(a.args[0])} but {fwd.name} uses {norm(b.args[0])}', f.node, ao.module)
        else:
            ctx.ob('C15.refl', f'{f.fq}:forward', '_rcompose_binop' not in hooks, f'{name} is not a reflected operator but calls _rcompose_binop', f.node, ao.module)
        # argument forwarding: parameters after self are forwarded in order
        call = [c for c in U.calls(f.node) if U.is_self_attr(c.func) and c.func.attr in ('_compose_binop', '_rcompose_binop', '_compose_narop')]
        if call:
            fw = [norm(x) for x in call[0].args[1:]]
            ps = f.params[1:]
            okf = fw == ps or (name == '__trunc__' and fw == ['1'])
            ctx.ob('C15.refl', f'{f.fq}:operands', okf, f'{name}{tuple(ps)} forwards {fw}', f.node, ao.module)
    ctx.require(n >= 130, 'C15.refl', f'only {n} operator methods found')


def rule_hooks(ctx):
    ctx.rule('C15.hooks', 'each lifting family defines the four hooks; _compose_binop builds (self, other), _rcompose_binop builds '
                          '(other, self); composition objects apply selector(a, b) in constructor order')
    repo = ctx.repo
    for cfq, un, bi_, na, conv in FAMILIES:
        ci = repo.cls(cfq)
        mod = ci.module
        for h in ('_compose_unop', '_compose_binop', '_rcompose_binop', '_compose_narop'):
            ctx.ob('C15.hooks', f'{ci.fq}.{h}:defined', h in ci.methods, f'{ci.name} must define {h}', ci.node, mod)
        w = (lambda x: f'{conv}({x})') if conv else (lambda x: x)
        exp = {'_compose_unop': f'return {un}(selector, self)', '_compose_binop': f'return {bi_}(selector, self, {w("other")})',
               '_rcompose_binop': f'return {bi_}(selector, {w("other")}, self)'}
        for h, want in exp.items():
            f = ci.methods.get(h)
            if f is None:
                continue
            src = full(f.node)
            p = f.params
            want_p = want.replace('selector', p[1]).replace('other', p[2] if len(p) > 2 else 'other')
            ctx.ob('C15.hooks', f'{f.fq}:argument-order', src.endswith(want_p), f'{ci.name}.{h} must be `{want_p}`; found `{src[-70:]}`', f.node, mod)
        # composition classes
        bc = mod.classes.get(bi_)
        ctx.require(bc is not None, 'C15.hooks', f'{bi_} vanished')
        init = bc.methods['__init__']
        b = [norm(s) for s in U.body_nodoc(init.node)][:3]
        ps = init.params
        ctx.ob('C15.hooks', f'{bc.fq}.__init__:fields', b == [f'self.selector = {ps[1]}', f'self.a = {ps[2]}', f'self.b = {ps[3]}'],
               f'{bi_} stores (selector, a, b) in constructor order; found {b}', init.node, mod)
        ev = bc.methods.get('__call__') or bc.methods.get('next') or bc.methods.get('__stream__')
        src = full(ev.node)
        if ev.name == '__call__':
            ok = src.endswith('return self.selector(a_value, b_value)') and 'a_value = self.a(*args, **kwargs) if callable(self.a) else self.a' in src \
                and 'b_value = self.b(*args, **kwargs) if callable(self.b) else self.b' in src
        elif ev.name == 'next':
            ok = U.before(src, 'a = self.a.next(inval)', 'b = self.b.next(inval)', 'return self.selector(a, b)')
        else:
            ok = 'stm.BinopStream(self.selector, stm.stream(self.a), stm.stream(self.b))' in src
        ctx.ob('C15.hooks', f'{ev.fq}:applies-in-order', ok, f'{bi_} must apply selector(a, b) in that operand order', ev.node, mod)
        uc = mod.classes.get(un)
        ev = uc.methods.get('__call__') or uc.methods.get('next') or uc.methods.get('__stream__')
        src = full(ev.node)
        ok = 'self.selector(self.a(' in src or 'return self.selector(a)' in src or 'stm.UnopStream(self.selector, stm.stream(self.a))' in src
        ctx.ob('C15.hooks', f'{ev.fq}:applies', ok, f'{un} applies the selector to its operand', ev.node, mod)
        nc = mod.classes.get(na)
        ev = nc.methods.get('__call__') or nc.methods.get('next') or nc.methods.get('__stream__')
        src = full(ev.node)
        ok = 'self.selector(self.a(*args, **kwargs), *evaluated_args)' in src or 'return self.selector(a, *args)' in src or \
            'stm.NaropStream(self.selector, stm.stream(self.a), *args)' in src
        ctx.ob('C15.hooks', f'{ev.fq}:applies', ok, f'{na} applies selector(a, *args)', ev.node, mod)
    # operand, sequence, ugen
    op = repo.cls('sc3.base.operand:Operand')
    mod = op.module
    f = op.methods['_compose_binop']
    src = full(f.node)
    ok = 'a = self.value' in src and 'b = other.value if isinstance(other, Operand) else other' in src and src.endswith('return type(self)(selector(a, b))')
    ctx.ob('C15.hooks', f'{f.fq}:argument-order', ok, 'Operand: selector(self.value, other)', f.node, mod)
    f = op.methods['_rcompose_binop']
    src = full(f.node)
    ok = 'a = other.value if isinstance(other, Operand) else other' in src and 'b = self.value' in src and src.endswith('return type(self)(selector(a, b))')
    ctx.ob('C15.hooks', f'{f.fq}:argument-order', ok, 'Operand reflected: selector(other, self.value)', f.node, mod)
    for h in ('_compose_unop', '_compose_narop'):
        ctx.ob('C15.hooks', f'{op.fq}.{h}:defined', h in op.methods, f'Operand must define {h}', op.node, mod)
    f = op.methods['_compose_narop']
    src = full(f.node)
    ok = U.before(src, 'args = [x.value if isinstance(x, Operand) else x for x in args]', 'return type(self)(selector(self.value, *args))')
    ctx.ob('C15.hooks', f'{f.fq}:unwraps-arguments', ok,
           'like the binary hooks, the n-ary hook takes the value of Operand arguments before calling the kernel '
           '(Operand(2).wrap(Operand(1), Operand(3)) otherwise computes with wrapper objects)', f.node, mod)
    sq = repo.cls('sc3.base.absobject:AbstractSequence')
    for h, want in (('_compose_binop', 'utl.list_binop(selector, self, other, type(self))'), ('_rcompose_binop', 'utl.list_binop(selector, other, self, type(self))'),
                    ('_compose_unop', 'utl.list_unop(selector, self, type(self))'), ('_compose_narop', 'utl.list_narop(selector, self, *args, t=type(self))')):
        f = sq.methods.get(h)
        ctx.ob('C15.hooks', f'{sq.fq}.{h}:argument-order', f is not None and full(f.node).endswith('return ' + want), f'sequence {h} must be {want}', sq.node, sq.module)
    ug = repo.cls('sc3.synth.ugen:UGen')
    f = ug.methods['_compose_binop']
    ctx.ob('C15.hooks', f'{f.fq}:argument-order', f'BinaryOpUGen.new(selector, self, {f.params[2]})' in full(f.node), 'UGen: BinaryOpUGen(selector, self, input)', f.node, ug.module)
    f = ug.methods['_rcompose_binop']
    ctx.ob('C15.hooks', f'{f.fq}:argument-order', f'BinaryOpUGen.new(selector, {f.params[2]}, self)' in full(f.node), 'UGen reflected: BinaryOpUGen(selector, input, self)', f.node, ug.module)
    lb = repo.func('sc3.base.utils:list_binop')
    src = full(lb.node)
    ok = 'return t((op(i[0], i[1]) for i in zip(a, b)))' in src and 'return t((list_binop(op, item_a, b, type(item_a)) for item_a in a))' in src and \
        'return t((list_binop(op, a, item_b, type(item_b)) for item_b in b))' in src and src.endswith('return op(a, b)')
    ctx.ob('C15.hooks', f'{lb.fq}:operand-order', ok, 'list algebra keeps (a, b) operand order on every branch', lb.node, lb.module)
    # wrap-around: when both operands are sequences the shorter one is wrap-extended to the longer one before anything else
    # happens (a short-cut for singletons would treat [[10, 20]] as the scalar [10, 20] and lose one nesting level)
    body = U.body_nodoc(lb.node)
    top = [x for x in body if isinstance(x, ast.If)]
    ok = False
    if top and norm(top[0].test) == 'isinstance(a, t_seq) and isinstance(b, t_seq)':
        first = top[0].body[0]
        ok = isinstance(first, ast.If) and norm(first.test) == 'len(a) >= len(b)' and \
            [norm(x) for x in first.body] == ['b = wrap_extend(list(b), len(a))'] and [norm(x) for x in first.orelse] == ['a = wrap_extend(list(a), len(b))']
        tests = []
        node = top[0]
        while isinstance(node, ast.If):
            tests.append(norm(node.test))
            node = node.orelse[0] if len(node.orelse) == 1 and isinstance(node.orelse[0], ast.If) else None
        ok = ok and tests == ['isinstance(a, t_seq) and isinstance(b, t_seq)', 'isinstance(a, t_seq)', 'isinstance(b, t_seq)']
    ln = repo.func('sc3.base.utils:list_narop')
    lsrc = full(ln.node)
    okn = U.before(lsrc, 'if isinstance(a, t_seq):', 'if any((isinstance(i, t_seq) for i in args)):', 'wrap_extend(list(i), n) if isinstance(i, t_seq) else [i] * n',
                   'return t((op(i, *args) for i in a))') and lsrc.rstrip().endswith('return op(a, *args)')
    ctx.ob('C15.hooks', f'{ln.fq}:zips-arguments', okn,
           'n-ary list algebra zips sequence arguments with the sequence it maps over (wrap-around), it does not hand whole lists to the kernel',
           ln.node, ln.module)
    lu = repo.func('sc3.base.utils:list_unop')
    usrc = full(lu.node)
    oku = U.before(usrc, 'if isinstance(a, t_seq):', 'if any((isinstance(i, t_seq) for i in a)):', 'return t((list_unop(op, i, type(i)) for i in a))',
                   'return t((op(i) for i in a))') and usrc.rstrip().endswith('return op(a)')
    ctx.ob('C15.hooks', f'{lu.fq}:maps-elements', oku,
           'unary list algebra applies the kernel to every element (recursing into nested rows with the row\'s type) and to a scalar directly', lu.node, lu.module)
    ls = repo.func('sc3.base.utils:list_sum')
    ssrc = full(ls.node)
    oks = 'res = 0' in ssrc and f'for item in {ls.params[0]}: res = list_binop(operator.add, res, item, {ls.params[1]})' in ssrc and ssrc.rstrip().endswith('return res')
    ctx.ob('C15.hooks', f'{ls.fq}:folds-with-binop', oks, 'the sum of a list is the left fold of the lifted addition from 0 over every item', ls.node, ls.module)
    ctx.ob('C15.hooks', f'{lb.fq}:wrap-extend-first', ok,
           'with two sequence operands the first thing list_binop does is to wrap-extend the shorter to the length of the longer '
           '(decision order: both sequences, a sequence, b sequence, scalars)', lb.node, lb.module)


def rule_order(ctx, rid='C15.order', families=None, least=10):
    from .. import opflow
    ctx.rule(rid, 'in every method of every composition class (Unop/Binop/Narop x Function/Stream/Pattern), on every path, each '
                  '`self.selector(...)` call and each hand-over of `self.selector` to a sibling class passes the operands in '
                  'constructor order: (a), (a, b) or (a, *args) with args element-wise, unfiltered and in order')
    repo = ctx.repo
    n = 0
    for cfq, un, bi_, na, conv in (families or FAMILIES):
        mod = repo.cls(cfq).module
        for cname, order, fields in ((un, ['a'], {'a': 'f'}), (bi_, ['a', 'b'], {'a': 'f', 'b': 'f'}),
                                     (na, ['a', 'args'], {'a': 'f', 'args': 'seq'})):
            ci = mod.classes.get(cname)
            ctx.require(ci is not None, rid, f'{cname} vanished from {mod.name}')
            exp = opflow.expected_for(order, fields)
            k = 0
            for mname, f in sorted(ci.methods.items()):
                if mname in ('__init__', '__repr__', 'reset'):
                    continue
                for call, pos, deleg in opflow.selector_calls(f.node, fields, repo=repo):
                    k += 1
                    n += 1
                    ok = opflow.matches(pos, exp)
                    what = 'hands the operands to ' + norm(call.func) if deleg else 'applies the selector'
                    ctx.ob(rid, f'{f.fq}:{norm(call)}', ok,
                           f'{cname}.{mname} {what} as {opflow.describe(pos)}; constructor order is {opflow.describe(exp)}', call, mod)
            # the value handed to next()/__embed__ reaches every operand stream that is polled
            for mname, f in sorted(ci.methods.items()):
                if mname not in ('next', '__embed__') or len(f.params) < 2:
                    continue
                inv = f.params[1]
                carriers = {inv}
                for s_ in walk_local(f.node):
                    if isinstance(s_, ast.Assign) and isinstance(s_.value, (ast.Yield, ast.YieldFrom)):
                        carriers |= {t.id for t in s_.targets if isinstance(t, ast.Name)}
                for c in U.calls(f.node):
                    if isinstance(c.func, ast.Attribute) and c.func.attr == 'next':
                        n += 1
                        ok = len(c.args) >= 1 and isinstance(c.args[0], ast.Name) and c.args[0].id in carriers
                        ctx.ob(rid, f'{f.fq}:{norm(c)}:forwards-inval', ok,
                               f'{cname}.{mname} polls an operand with `{norm(c)}`: the in-value ({inv}) is not handed on, so an operand '
                               f'that depends on it (Pkey, Pfunc, a routine reading sent values) sees None', c, mod)
            ctx.ob(rid, f'{ci.fq}:applies-selector', k >= 1, f'{cname} has no method applying or handing over its selector', ci.node, mod)
    ctx.require(n >= least, rid, f'only {n} selector applications found')


def _const(node, consts):
    """float value of a constant expression over literals and module constants, or None"""
    import math
    if isinstance(node, ast.Constant) and isinstance(node.value, (int, float)) and not isinstance(node.value, bool):
        return float(node.value)
    if isinstance(node, ast.Name) and node.id in consts:
        return consts[node.id]
    if isinstance(node, ast.Attribute) and norm(node) == 'math.e':
        return math.e
    if isinstance(node, ast.UnaryOp) and isinstance(node.op, ast.USub):
        v = _const(node.operand, consts)
        return None if v is None else -v
    if isinstance(node, ast.BinOp):
        a, b = _const(node.left, consts), _const(node.right, consts)
        if a is None or b is None:
            return None
        if isinstance(node.op, ast.Add):
            return a + b
        if isinstance(node.op, ast.Sub):
            return a - b
        if isinstance(node.op, ast.Mult):
            return a * b
        if isinstance(node.op, ast.Div) and b != 0:
            return a / b
    return None


def op_chain(expr, param, consts):
    """Write `expr` as a chain of invertible steps applied to `param`, innermost first: ('add', c) ('mul', c) ('log', base)
    ('exp', base).  None when the parameter does not occur exactly once or a step is not of these kinds."""
    import math
    if isinstance(expr, ast.Name) and expr.id == param:
        return []
    if isinstance(expr, ast.BinOp):
        lc, rc = _const(expr.left, consts), _const(expr.right, consts)
        if rc is not None and lc is None:
            inner = op_chain(expr.left, param, consts)
            if inner is None:
                return None
            if isinstance(expr.op, ast.Add):
                return inner + [('add', rc)]
            if isinstance(expr.op, ast.Sub):
                return inner + [('add', -rc)]
            if isinstance(expr.op, ast.Mult):
                return inner + [('mul', rc)]
            if isinstance(expr.op, ast.Div) and rc != 0:
                return inner + [('mul', 1.0 / rc)]
            return None
        if lc is not None and rc is None:
            inner = op_chain(expr.right, param, consts)
            if inner is None:
                return None
            if isinstance(expr.op, ast.Add):
                return inner + [('add', lc)]
            if isinstance(expr.op, ast.Mult):
                return inner + [('mul', lc)]
            return None
        return None
    if isinstance(expr, ast.Call):
        fn = norm(expr.func).split('.')[-1]
        if fn in ('log2', 'log10', 'log') and len(expr.args) == 1:
            inner = op_chain(expr.args[0], param, consts)
            return None if inner is None else inner + [('log', {'log2': 2.0, 'log10': 10.0, 'log': math.e}[fn])]
        if fn == 'exp' and len(expr.args) == 1:
            inner = op_chain(expr.args[0], param, consts)
            return None if inner is None else inner + [('exp', math.e)]
        if fn == 'pow' and len(expr.args) == 2:
            base = _const(expr.args[0], consts)
            if base is not None and base > 0:
                inner = op_chain(expr.args[1], param, consts)
                return None if inner is None else inner + [('exp', base)]
        return None
    return None


def _merge(chain):
    out = []
    for k, c in chain:
        if out and out[-1][0] == k and k in ('add', 'mul'):
            pk, pc = out.pop()
            c = pc + c if k == 'add' else pc * c
        if (k == 'add' and abs(c) < 1e-15) or (k == 'mul' and abs(c - 1.0) < 1e-15):
            continue
        out.append((k, c))
    return out


def _inverse(chain):
    inv = {'add': lambda c: ('add', -c), 'mul': lambda c: ('mul', 1.0 / c), 'log': lambda b: ('exp', b), 'exp': lambda b: ('log', b)}
    return [inv[k](c) for k, c in reversed(chain)]


def _close(a, b):
    return len(a) == len(b) and all(x[0] == y[0] and abs(x[1] - y[1]) <= 1e-6 * max(1.0, abs(x[1]), abs(y[1])) for x, y in zip(a, b))


INVERSE_PAIRS = [('midicps', 'cpsmidi'), ('midiratio', 'ratiomidi'), ('octcps', 'cpsoct'), ('ampdb', 'dbamp')]
LAW_KERNELS = ('wrap', 'fold', 'clip', 'round', 'roundup', 'trunc', 'mod', 'wrap2', 'fold2', 'clip2')


def rule_laws(ctx):
    ctx.rule('C15.laws', 'the four conversion pairs are exact inverses as chains of add/mul/log/exp steps (g is f\'s chain reversed with '
                         'every step inverted); the range/quantum kernels never narrow a bound or quantum with int(), and an integer '
                         'fast path is taken only when every parameter it reads is type-tested to be an int')
    m = ctx.repo.module('sc3.base.builtins')
    consts = {}
    for s in m.tree.body:
        if isinstance(s, ast.Assign) and len(s.targets) == 1 and isinstance(s.targets[0], ast.Name):
            v = _const(s.value, consts)
            if v is not None:
                consts[s.targets[0].id] = v
    for fa, fb in INVERSE_PAIRS:
        f, g = m.functions.get(fa), m.functions.get(fb)
        ctx.require(f is not None and g is not None, 'C15.laws', f'{fa}/{fb} vanished')
        chains = []
        for k in (f, g):
            body = U.body_nodoc(k.node)
            ch = op_chain(body[-1].value, k.params[0], consts) if len(body) == 1 and isinstance(body[-1], ast.Return) else None
            chains.append(None if ch is None else _merge(ch))
        ok = chains[0] is not None and chains[1] is not None and _close(_merge(_inverse(chains[0])), chains[1])
        ctx.ob('C15.laws', f'{m.name}:{fa}<->{fb}:inverse', ok,
               f'{fb} must undo {fa} step by step; {fa} = {chains[0]}, {fb} = {chains[1]}, expected {fb} = '
               f'{None if chains[0] is None else _merge(_inverse(chains[0]))}', g.node, m)
    # the modulo: a remainder that is moved into [0, b) afterwards is moved because of *its own* sign (or being non-zero), never because
    # of the sign of the dividend: a zero remainder of a negative dividend must stay 0
    md = m.functions.get('mod')
    ctx.require(md is not None, 'C15.laws', 'mod vanished')
    rem = set()
    for x in walk_local(md.node):
        if isinstance(x, ast.Assign) and isinstance(x.targets[0], ast.Name) and any(
                (isinstance(y, ast.BinOp) and isinstance(y.op, ast.Mod)) or (isinstance(y, ast.Call) and norm(y.func) in ('math.fmod', 'fmod', 'divmod'))
                for y in ast.walk(x.value)):
            rem.add(x.targets[0].id)
    badfix = []
    for t in walk_local(md.node):
        if not isinstance(t, ast.If):
            continue
        for x in t.body:
            tg = None
            if isinstance(x, ast.Assign) and isinstance(x.targets[0], ast.Name):
                tg = x.targets[0].id
            elif isinstance(x, ast.AugAssign) and isinstance(x.target, ast.Name):
                tg = x.target.id
            if tg in rem and tg not in U.names_in(t.test):
                badfix.append(f'if {norm(t.test)}: {norm(x)}')
    ctx.ob('C15.laws', f'{m.name}:mod:remainder-fixup', bool(rem) and not badfix,
           f'the remainder {sorted(rem)} is adjusted under a test that does not look at it: {badfix}; for a negative exact multiple '
           f'(-6 mod 3) the remainder 0 becomes b, outside [0, b)', md.node, m)
    n = 0
    for kn in LAW_KERNELS:
        k = m.functions.get(kn)
        ctx.require(k is not None, 'C15.laws', f'kernel {kn} vanished')
        params = set(k.params)
        narrowed = [norm(c) for c in U.calls(k.node) if norm(c.func) == 'int' and len(c.args) == 1 and isinstance(c.args[0], ast.Name)
                    and c.args[0].id in params]
        ctx.ob('C15.laws', f'{k.fq}:bounds-unmodified', not narrowed,
               f'{kn} narrows {narrowed}: with a float bound/quantum the result is computed for a different interval or grid than the one asked for', k.node, m)
        n += 1
        for t in walk_local(k.node):
            if not isinstance(t, ast.If):
                continue
            tested = set()
            for cj in U.conjuncts(t.test):
                mm = re.fullmatch(r'type\((\w+)\) is int', norm(cj))
                if mm:
                    tested.add(mm.group(1))
            if not tested:
                continue
            read = {x.id for b in t.body for x in ast.walk(b) if isinstance(x, ast.Name) and isinstance(x.ctx, ast.Load) and x.id in params}
            n += 1
            ctx.ob('C15.laws', f'{k.fq}:int-path[{norm(t.test)}]', read <= tested,
                   f'the integer path of {kn} reads {sorted(read)} but only {sorted(tested)} are tested to be ints: a float among the others '
                   f'is combined with the integer formula (range + 1, integer division)', t, m)
    ctx.require(n >= 12, 'C15.laws', f'only {n} law obligations')
    # operand evaluation guards of the function compositions agree
    fm = ctx.repo.module('sc3.base.functions')
    for cname in ('BinopFunction', 'NaropFunction'):
        ci = fm.classes[cname]
        c = ci.methods['__call__']
        guards = []
        for x in ast.walk(c.node):
            if isinstance(x, ast.IfExp):
                guards.append(norm(x.test))
        ok = bool(guards) and all(re.fullmatch(r'callable\(.+\)|isinstance\(\w+(\.\w+)?, AbstractFunction\)', g_) for g_ in guards)
        ctx.ob('C15.laws', f'{c.fq}:operand-evaluated', ok,
               f'{cname} decides with {guards} whether an operand is evaluated: every object the hooks can build (any AbstractFunction) '
               f'must be evaluated, not only one subclass', c.node, fm)


def rule_quantum(ctx, rid='C15.laws'):
    ctx.rule(rid, 'round, roundup and trunc return the quantum times floor(x/q + .5), ceil(x/q), floor(x/q): the float path is that product '
                  '(correct side for negative x as well), nothing hand-made from modf or int truncation')
    m = ctx.repo.module('sc3.base.builtins')
    want = {'round': ('floor', 'x / quant + 0.5'), 'roundup': ('ceil', 'x / quant'), 'trunc': ('floor', 'x / quant')}
    for name, (fn, arg) in want.items():
        f = m.functions.get(name)
        ctx.require(f is not None, rid, f'{name} vanished')
        x, q = f.params[0], f.params[1]
        arg_ = arg.replace('x', x).replace('quant', q)
        forms = (f'{fn}({arg_}) * {q}', f'{q} * {fn}({arg_})', f'math.{fn}({arg_}) * {q}', f'{q} * math.{fn}({arg_})')
        rets = [norm(r.value) for r in walk_local(f.node) if isinstance(r, ast.Return) and r.value is not None]
        ok = any(any(fm in r for fm in forms) for r in rets) and not any('modf' in norm(c.func) or norm(c.func) == 'int' for c in U.calls(f.node))
        ctx.ob(rid, f'{m.name}:{name}:defining-form', ok,
               f'{name} must return {forms[0]} on its float path (returns found: {rets}): a hand-made ceiling/floor that truncates toward zero '
               f'puts negative arguments on the wrong side', f.node, m)


def rule_overloadable(ctx):
    ctx.rule('C15.sel', 'no operator method hands a selector that Python cannot overload (operator.not_, truth, is_, is_not) to a compose hook: '
                        'applied element-wise by the list algebra it answers about the object, not about its value')
    ao = ctx.repo.cls('sc3.base.absobject:AbstractObject')
    n = 0
    for name, f in sorted(ao.methods.items()):
        for c in U.calls(f.node):
            if U.is_self_attr(c.func) and c.func.attr.startswith(('_compose_', '_rcompose_')) and c.args:
                n += 1
                sel = norm(c.args[0])
                ctx.ob('C15.sel', f'{f.fq}:{sel}:overloadable', sel not in ('operator.not_', 'operator.truth', 'operator.is_', 'operator.is_not'),
                       f'{name} composes with {sel}: on a list of units it yields Python truth values ([False, False]) instead of lifted units',
                       c, ao.module)
    ctx.require(n >= 100, 'C15.sel', f'only {n} compose calls in AbstractObject found')


def rule_wrap(ctx):
    ctx.rule('C15.wrap', 'scbuiltin.unop/binop/narop: left operand hook, then right operand reflected hook with swapped arguments, '
                         'then the kernel; the wrapper keeps the kernel __name__; every builtin used by an operator method has the '
                         'decorator of that arity')
    m = ctx.repo.module('sc3.base.builtins')
    sb = m.classes['scbuiltin']
    un = sb.methods['unop']
    inner = [n for n in ast.walk(un.node) if isinstance(n, ast.FunctionDef) and n is not un.node]
    ok = len(inner) == 1 and [norm(s) for s in U.body_nodoc(inner[0])] == ["if hasattr(x, '_compose_unop'): return x._compose_unop(scbuiltin_)", 'return func(x)']
    ctx.ob('C15.wrap', f'{un.fq}:dispatch', ok, 'unary wrapper: operand hook (handed the wrapper itself, so that nested operands are dispatched again), else kernel', un.node, m)
    bn = sb.methods['binop']
    inner = [n for n in ast.walk(bn.node) if isinstance(n, ast.FunctionDef) and n is not bn.node]
    want = ["if hasattr(a, '_compose_binop'): return a._compose_binop(scbuiltin_, b)", "if hasattr(b, '_rcompose_binop'): return b._rcompose_binop(scbuiltin_, a)", 'return func(a, b)']
    ok = len(inner) == 2 and all([norm(s) for s in U.body_nodoc(i)] == want for i in inner)
    ctx.ob('C15.wrap', f'{bn.fq}:dispatch', ok, f'binary wrapper (both variants) must be {want}', bn.node, m)
    na = sb.methods['narop']
    inner = [n for n in ast.walk(na.node) if isinstance(n, ast.FunctionDef) and n is not na.node]
    ok = len(inner) == 1 and [norm(s) for s in U.body_nodoc(inner[0])] == ["if hasattr(x, '_compose_narop'): return x._compose_narop(scbuiltin_, *args)", 'return func(x, *args)']
    ctx.ob('C15.wrap', f'{na.fq}:dispatch', ok, 'n-ary wrapper: first operand hook, else kernel', na.node, m)
    later = any(isinstance(t, ast.If) and 'args' in norm(t.test) for i in inner for t in ast.walk(i))
    ctx.ob('C15.wrap', f'{na.fq}:reflected', later,
           'the n-ary wrapper looks at its first operand only: with a plain number first and a function, stream, pattern or list among the '
           'other operands (bi.clip(5, f, 10), bi.clip(1, [0, 1], 5)) the kernel is applied to the unevaluated operand', na.node, m)
    for f in (un, bn, na):
        ok = 'scbuiltin_.__name__ = func.__name__' in full(f.node) and full(f.node).rstrip().endswith('return scbuiltin_')
        ctx.ob('C15.wrap', f'{f.fq}:keeps-name', ok, 'the wrapper must keep the kernel __name__ (special-index lookup uses it)', f.node, m)
    # decorator arity of builtins referenced by operator methods
    ao = ctx.repo.cls('sc3.base.absobject:AbstractObject')
    n = 0
    for name, f in ao.methods.items():
        for c in U.calls(f.node):
            if U.is_self_attr(c.func) and c.func.attr in ('_compose_unop', '_compose_binop', '_rcompose_binop', '_compose_narop') and c.args:
                sel = norm(c.args[0])
                if not sel.startswith('bi.'):
                    continue
                bf = m.functions.get(sel[3:])
                if bf is None:
                    continue
                n += 1
                arity = {'_compose_unop': 'scbuiltin.unop', '_compose_binop': 'scbuiltin.binop', '_rcompose_binop': 'scbuiltin.binop', '_compose_narop': 'scbuiltin.narop'}[c.func.attr]
                ctx.ob('C15.wrap', f'{m.name}:{bf.name}:decorator[{name}]', arity in bf.decorators,
                       f'{sel} is used as a {arity.split(".")[1]} selector by {name} but is decorated with {bf.decorators}: it does not lift over '
                       f'objects of the other kinds', bf.node, m)
    ctx.require(n >= 90, 'C15.wrap', f'only {n} builtin selectors found')


def run(ctx):
    c01.rule_sel(ctx, rid='C15.sel')
    rule_refl(ctx)
    rule_hooks(ctx)
    rule_order(ctx)
    rule_laws(ctx)
    rule_wrap(ctx)
    rule_overloadable(ctx)
    rule_quantum(ctx)


MUTANTS = [
    dict(rule='C15.laws', name='roundup with a hand-made ceiling that truncates toward zero (seed C12-h)', file='sc3/base/builtins.py',
         old="        return float(ceil(x / quant) * quant)",
         new="        frac, whole = math.modf(x / quant)\n        if frac != 0.:\n            whole += 1.\n        return float(whole * quant)"),
    dict(rule='C15.sel', name='not_ composes with operator.not_ (fix reverted)', file='sc3/base/absobject.py',
         old="        return self._compose_unop(bi.not_)  # not", new="        return self._compose_unop(operator.not_)  # not"),
    dict(rule='C15.laws', name='integer modulo fixed up by the sign of the dividend (seed C15-f)', file='sc3/base/builtins.py',
         old="    c = int(math.fmod(a, b))\n    if c < 0: c += b\n    return c", new="    c = abs(a) % abs(b)\n    if a < 0: c = b - c\n    return c"),
    dict(rule='C15.wrap', name='unary wrapper hands the raw kernel to the operand hook (fix reverted)', file='sc3/base/builtins.py',
         old="                return x._compose_unop(scbuiltin_)", new="                return x._compose_unop(func)"),
    dict(rule='C15.hooks', name='list_unop does not recurse into nested rows', file='sc3/base/utils.py',
         old="            return t(list_unop(op, i, type(i)) for i in a)\n", new="            return t(op(i) for i in a)\n"),
    dict(rule='C15.hooks', name='list_sum skips the first item', file='sc3/base/utils.py',
         old="    res = 0\n    for item in lst:\n        res = list_binop(operator.add, res, item, t)", new="    res = 0\n    for item in lst[1:]:\n        res = list_binop(operator.add, res, item, t)"),
    dict(rule='C15.hooks', name='(fix reverted) Operand passes Operand arguments of n-ary operators unwrapped', file='sc3/base/operand.py',
         old="        args = [x.value if isinstance(x, Operand) else x for x in args]\n", new=""),
    dict(rule='C15.hooks', name='(fix reverted) list_narop hands list arguments to the kernel', file='sc3/base/utils.py',
         old="        if any(isinstance(i, t_seq) for i in args):\n", new="        if False:\n"),
    dict(rule='C15.hooks', name='list_binop treats a singleton operand as a scalar (seed C15-d)', file='sc3/base/utils.py',
         old="    if isinstance(a, t_seq) and isinstance(b, t_seq):\n        if len(a) >= len(b):\n            b = wrap_extend(list(b), len(a))",
         new="    if isinstance(a, t_seq) and isinstance(b, t_seq):\n        if len(b) == 1:\n            return list_binop(op, a, b[0], t)\n        if len(a) >= len(b):\n            b = wrap_extend(list(b), len(a))"),
    dict(rule='C15.order', name='NaropStream polls its arguments without the in-value (seed C15-c)', file='sc3/base/stream.py',
         old="        args = []\n        res = None\n        for item in self.args:\n            res = item.next(inval)  # raises StopStream\n            args.append(res)\n        return self.selector(a, *args)",
         new="        args = [item.next() for item in self.args]  # raises StopStream\n        return self.selector(a, *args)"),
    dict(rule='C15.laws', name='(fix reverted) cpsoct offset inside the logarithm', file='sc3/base/builtins.py',
         old="    return log2(freq * _ONE440TH) + 4.75\n", new="    return log2(freq * _ONE440TH + 4.75)\n"),
    dict(rule='C15.laws', name='dbamp uses the factor of ampdb', file='sc3/base/builtins.py',
         old="    return pow(10., db * .05)", new="    return pow(10., db * .5)"),
    dict(rule='C15.laws', name='(fix reverted) wrap truncates float bounds for an int x', file='sc3/base/builtins.py',
         old="    if type(x) is int and type(lo) is int and type(hi) is int:\n        return mod(x - lo, hi - lo + 1) + lo",
         new="    if type(x) is int:\n        lo = int(lo)\n        hi = int(hi)\n        return mod(x - lo, hi - lo + 1) + lo"),
    dict(rule='C15.laws', name='fold takes the integer path whatever the bounds are', file='sc3/base/builtins.py',
         old="    if type(x) is int and type(lo) is int and type(hi) is int:\n        b = hi - lo", new="    if type(x) is int:\n        b = hi - lo"),
    dict(rule='C15.laws', name='(fix reverted) round family truncates a float quantum', file='sc3/base/builtins.py', count=3,
         old="    if type(x) is int and type(quant) is int:\n        if quant == 0:", new="    if type(x) is int:\n        quant = int(quant)\n        if quant == 0:"),
    dict(rule='C15.laws', name='(fix reverted) NaropFunction evaluates only Function arguments', file='sc3/base/functions.py',
         old="if isinstance(x, AbstractFunction)", new="if isinstance(x, Function)"),
    dict(rule='C15.order', name='Pbinop.__embed__ shortcut swaps operands for a number on the left (seed C15-b)', file='sc3/seq/pattern.py',
         old='        # NOTE: See BinaryOpXStream implementation options. Class is not\n        # defined.\n\n', new='        # NOTE: See BinaryOpXStream implementation options. Class is not\n        # defined.\n\n    def __embed__(self, inval=None):\n        if isinstance(self.b, (int, float)):\n            stream, number = stm.stream(self.a), self.b\n        elif isinstance(self.a, (int, float)):\n            stream, number = stm.stream(self.b), self.a\n        else:\n            return (yield from super().__embed__(inval))\n        try:\n            while True:\n                inval = yield self.selector(stream.next(inval), number)\n        except stm.StopStream:\n            return inval\n\n'),
    dict(rule='C15.order', name='Pnarop.__embed__ polls only pattern arguments, constants appended last (seed C13-b)', file='sc3/seq/pattern.py',
         old="        stream_lst = [stm.stream(x) for x in self.args]\n        try:\n            while True:\n                a = stream_a.next(inval)\n                args = [x.next(inval) for x in stream_lst]\n                inval = yield self.selector(a, *args)",
         new="        stream_lst = [stm.stream(x) for x in self.args if hasattr(x, '__stream__')]\n        const_lst = [x for x in self.args if not hasattr(x, '__stream__')]\n        try:\n            while True:\n                a = stream_a.next(inval)\n                args = [x.next(inval) for x in stream_lst]\n                inval = yield self.selector(a, *args, *const_lst)"),
    dict(rule='C15.order', name='NaropStream evaluates its arguments in reverse', file='sc3/base/stream.py',
         old="        for item in self.args:\n            res = item.next(inval)  # raises StopStream\n            args.append(res)\n        return self.selector(a, *args)",
         new="        for item in reversed(self.args):\n            res = item.next(inval)  # raises StopStream\n            args.append(res)\n        return self.selector(a, *args)"),
    dict(rule='C15.sel', name='cpsmidi hands midicps', file='sc3/base/absobject.py',
         old="return self._compose_unop(bi.cpsmidi)", new="return self._compose_unop(bi.midicps)"),
    dict(rule='C15.refl', name='__rsub__ composes forward', file='sc3/base/absobject.py',
         old="return self._rcompose_binop(operator.sub, other)", new="return self._compose_binop(operator.sub, other)"),
    dict(rule='C15.refl', name='__rtruediv__ uses another selector', file='sc3/base/absobject.py',
         old="return self._rcompose_binop(operator.truediv, other)", new="return self._rcompose_binop(operator.floordiv, other)"),
    dict(rule='C15.hooks', name='function reflected hook keeps order', file='sc3/base/functions.py',
         old="        return BinopFunction(selector, other, self)", new="        return BinopFunction(selector, self, other)"),
    dict(rule='C15.hooks', name='stream binop applies (b, a)', file='sc3/base/stream.py',
         old="        b = self.b.next(inval)\n        return self.selector(a, b)", new="        b = self.b.next(inval)\n        return self.selector(b, a)"),
    dict(rule='C15.hooks', name='operand reflected hook keeps order', file='sc3/base/operand.py',
         old="        a = other.value if isinstance(other, Operand) else other\n        b = self.value", new="        b = other.value if isinstance(other, Operand) else other\n        a = self.value"),
    dict(rule='C15.hooks', name='pattern reflected hook keeps order', file='sc3/seq/pattern.py',
         old="        return Pbinop(selector, other, self)", new="        return Pbinop(selector, self, other)"),
    dict(rule='C15.wrap', name='reflected dispatch without swap', file='sc3/base/builtins.py',
         old="            def scbuiltin_(a, b):\n                if hasattr(a, '_compose_binop'):\n                    return a._compose_binop(scbuiltin_, b)\n                if hasattr(b, '_rcompose_binop'):\n                    return b._rcompose_binop(scbuiltin_, a)",
         new="            def scbuiltin_(a, b):\n                if hasattr(a, '_compose_binop'):\n                    return a._compose_binop(scbuiltin_, b)\n                if hasattr(b, '_rcompose_binop'):\n                    return b._compose_binop(scbuiltin_, a)"),
    dict(rule='C15.wrap', name='wrapper loses the kernel name', file='sc3/base/builtins.py',
         old="        scbuiltin_.__name__ = func.__name__  # used to obtain special_index.\n        scbuiltin_.__qualname__ += func.__name__\n        return scbuiltin_\n\n    @staticmethod\n    def binop",
         new="        scbuiltin_.__qualname__ += func.__name__\n        return scbuiltin_\n\n    @staticmethod\n    def binop"),
]

REPAIRS = []


EQUIV = [
    dict(name='Pbinop.__embed__ shortcut with the operands in order on both arms', file='sc3/seq/pattern.py',
         old='        # NOTE: See BinaryOpXStream implementation options. Class is not\n        # defined.\n\n', new='        # NOTE: See BinaryOpXStream implementation options. Class is not\n        # defined.\n\n    def __embed__(self, inval=None):\n        if isinstance(self.b, (int, float)):\n            stream, number = stm.stream(self.a), self.b\n            try:\n                while True:\n                    inval = yield self.selector(stream.next(inval), number)\n            except stm.StopStream:\n                return inval\n        elif isinstance(self.a, (int, float)):\n            stream, number = stm.stream(self.b), self.a\n            try:\n                while True:\n                    inval = yield self.selector(number, stream.next(inval))\n            except stm.StopStream:\n                return inval\n        else:\n            return (yield from super().__embed__(inval))\n\n'),
]
