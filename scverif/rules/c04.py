"""C04 - function parameters become correctly laid-out, correctly wired controls."""

import ast

from ..loader import norm, full, walk_local, walk_local_ordered, AnalysisError
from .. import util as U

EXPLANATION = (
    'Control layout is decided structurally: the four control groups are created in the order scalar, trigger, '
    'audio, control by the constructor matching the group; each ControlName.index is assigned from a running '
    'index read from _control_index before the control unit advances it and advanced by the number of default '
    'values; the three control units set _special_index to the current length of _controls before extending it and '
    'advance _control_index by the same amount; the name table and the variant blocks are written from the same '
    'records; the rate decision list has the same shape for ir/tr/ar with kr as fallback; every per-parameter list is '
    'sliced by skip_args; and the names __call__ zips positional arguments with are written only by the top-level '
    'build (not by the re-entrant wrap path) and exclude prepended parameters.')
LEVEL_TEXT = ('static: ordering/pairing of control-group creation, slot accounting (_special_index before extend, '
              '_control_index advance), name-table and variant-block sources, rate decision list shape, skip_args '
              'slicing, ownership of the callable-argument names. Does not compute slot numbers for concrete signatures.')
LEVEL_NOTE = 'slot arithmetic over runtime defaults and reshape_like on nested defaults are not decided'
LEVEL_TEXT_ADD = ' Also: fresh copy of the defaults per variant, metadata defaults, and the or-default rule over synthdef.py (only None means not given).'
LEVEL_TEXT_ADD += ' Rounds e-f: one lag per slot (the only growth of the lag list is the wrap-extension to the slot count).'
LEVEL_TEXT_ADD += ' Round i: the running control index and the value list are reset only where a build starts and only grow afterwards.'
LEVEL_TEXT = (globals().get('LEVEL_TEXT') or EXPLANATION) + LEVEL_TEXT_ADD
TECHNIQUE = 'static analysis: statement-order/effect checks and decision-table extraction on SynthDef control building'


def stmts(f):
    return [s for s in walk_local_ordered(f.node) if isinstance(s, ast.stmt)]


def first(ss, pred):
    for i, s in enumerate(ss):
        if pred(s):
            return i
    return -1


def assign_to(s, target_text):
    return isinstance(s, ast.Assign) and any(norm(t) == target_text for t in s.targets)


def rule_groups(ctx, rid='C04.groups'):
    ctx.rule(rid, 'groups are created scalar, trigger, audio, control with Control.ir / TrigControl.kr / '
                           'AudioControl.ar / (Lag)Control.kr; the running index is read from _control_index before the '
                           'unit is created and advances by len(as_list(default_value)) per name')
    repo = ctx.repo
    sd = repo.cls('sc3.synth.synthdef:SynthDef')
    f = sd.methods['_build_controls']
    mod = sd.module
    # group lists
    groups = {}
    for s in f.node.body:
        if isinstance(s, ast.Assign) and isinstance(s.value, ast.ListComp) and isinstance(s.targets[0], ast.Name):
            lc = s.value
            if norm(lc.generators[0].iter) == 'self._control_names' and lc.generators[0].ifs:
                cp = U.compare_parts(lc.generators[0].ifs[0])
                if cp and norm(cp[0]).endswith('.rate') and cp[1] is ast.Eq and U.is_str(cp[2]):
                    groups[s.targets[0].id] = cp[2].value
    ctx.require(len(groups) >= 4, rid, f'cannot bind the rate groups in _build_controls: {groups}')
    helper = None
    for s in f.node.body:
        if isinstance(s, ast.FunctionDef):
            helper = s
    ctx.require(helper is not None, rid, 'group-building helper vanished')
    hname = helper.name
    seq = []
    for s in f.node.body:
        if isinstance(s, ast.Expr) and isinstance(s.value, ast.Call) and norm(s.value.func) == hname:
            a = s.value.args
            seq.append((groups.get(norm(a[0])), norm(a[1]), U.literal(a[2])))
        elif isinstance(s, ast.If) and isinstance(s.test, ast.Name) and s.test.id in groups:
            seq.append((groups[s.test.id], 'kr-block', None))
    want = [('scalar', 'iou.Control', 'ir'), ('trigger', 'iou.TrigControl', 'kr'), ('audio', 'iou.AudioControl', 'ar'),
            ('control', 'kr-block', None)]
    ctx.ob(rid, f'{mod.name}:SynthDef._build_controls:group-order', seq == want,
           f'groups must be created as {want}; found {seq}', f.node, mod)

    cn_cls = repo.cls('sc3.synth.ugens.inout:ControlName')
    chp = cn_cls.methods.get('channels')
    chan_ok = chp is not None and 'property' in chp.decorators and full(chp.node).endswith('return len(utl.as_list(self.default_value))')

    def check_block(block_stmts, tag, cns_name, node):
        ss = [s for b in block_stmts for s in [b] + [x for x in walk_local_ordered(b) if isinstance(x, ast.stmt)]]
        i_idx = first(ss, lambda s: assign_to(s, 'index') and norm(s.value) == 'self._control_index')
        i_new = first(ss, lambda s: isinstance(s, ast.Assign) and norm(s.targets[0]) == 'ctrl_ugens' and
                      isinstance(s.value, ast.Call) and ('getattr(' in norm(s.value) or 'iou.' in norm(s.value.func)))
        ctx.ob(rid, f'{mod.name}:SynthDef._build_controls:{tag}:index-before-create', 0 <= i_idx < i_new,
               'the first slot of the group must be read from _control_index before the control unit advances it', node, mod)
        loops = [s for s in ss if isinstance(s, ast.For) and norm(s.iter) == f'enumerate({cns_name})']
        ok = False
        if loops:
            lb = [norm(x) for x in loops[0].body]
            tv = loops[0].target.elts[1].id if isinstance(loops[0].target, ast.Tuple) else None
            iv = loops[0].target.elts[0].id if isinstance(loops[0].target, ast.Tuple) else None
            adv = [x for x in lb if x.startswith('index += ')]
            size_forms = {f'index += len(utl.as_list({tv}.default_value))'}
            if chan_ok:
                size_forms.add(f'index += {tv}.channels')
            need = [f'{tv}.index = index', f'arguments[{tv}.arg_num] = ctrl_ugens[{iv}]']
            ok = all(n in lb for n in need) and len(adv) == 1 and adv[0] in size_forms and lb.index(need[0]) < lb.index(adv[0])
        ctx.ob(rid, f'{mod.name}:SynthDef._build_controls:{tag}:slot-accounting', ok,
               'each name gets index, index advances by its number of values, its argument is the matching control output',
               node, mod)
        vals = [s for s in ss if isinstance(s, ast.Expr) and norm(s.value) == 'values.append(cn.default_value)']
        flat = any('utl.flat(values)' in norm(s) for s in ss if isinstance(s, ast.Assign) and norm(s.targets[0]) == 'ctrl_ugens')
        resh = any(norm(s) == 'ctrl_ugens = utl.reshape_like(ctrl_ugens, values)' for s in ss)
        ctx.ob(rid, f'{mod.name}:SynthDef._build_controls:{tag}:values', bool(vals) and flat and resh,
               'defaults are collected in name order, flattened for the unit and the outputs reshaped like the defaults',
               node, mod)
    cn_param = helper.args.args[0].arg
    check_block(helper.body, 'ita', cn_param, helper)
    krblk = [s for s in f.node.body if isinstance(s, ast.If) and isinstance(s.test, ast.Name) and groups.get(s.test.id) == 'control']
    ctx.require(len(krblk) == 1, rid, 'control-rate block vanished')
    check_block(krblk[0].body, 'kr', krblk[0].test.id, krblk[0])
    src = full(krblk[0])
    ok = 'if any((x != 0 for x in lags)): ctrl_ugens = iou.LagControl.kr(utl.flat(values), lags) else: ctrl_ugens = iou.Control.kr(utl.flat(values))' in src
    ctx.ob(rid, f'{mod.name}:SynthDef._build_controls:kr:lag-choice', ok,
           'lagged control-rate parameters use LagControl.kr(values, lags), otherwise Control.kr(values)', krblk[0], mod)
    # every parameter contributes exactly as many lags as it has slots: the only statement that grows `lags` is the wrap-extension to
    # the parameter's slot count (a bare append of cn.lag makes a lag list on a one-slot parameter expand the LagControl)
    grows = [norm(c) for c in U.calls(krblk[0]) if U.method_name(c) in ('append', 'extend') and norm(c.func.value) == 'lags']
    ok = grows == ['lags.extend(utl.wrap_extend(utl.as_list(cn.lag), valsize))'] and 'valsize = len(utl.as_list(cn.default_value))' in src
    ctx.ob(rid, f'{mod.name}:SynthDef._build_controls:kr:lags-per-slot', ok,
           'one lag per slot: array defaults wrap-extend their lag', krblk[0], mod)
    # the _add_X functions
    want = {'_add_ir': 'scalar', '_add_tr': 'trigger', '_add_ar': 'audio', '_add_kr': 'control'}
    for name, rate in want.items():
        g = sd.methods[name]
        cs = [c for c in U.calls(g.node) if norm(c.func) == 'iou.ControlName']
        ok = len(cs) == 1 and len(cs[0].args) >= 5 and norm(cs[0].args[0]) == g.params[1] and U.is_str(cs[0].args[2], rate) \
            and norm(cs[0].args[3]) == g.params[2] and norm(cs[0].args[4]) == 'len(self._control_names)'
        if name == '_add_kr':
            ok = ok and len(cs[0].args) == 6 and norm(cs[0].args[5]) == g.params[3]
        ctx.ob(rid, f'{mod.name}:SynthDef.{name}', ok,
               f"{name} must record ControlName(name, ., {rate!r}, value, len(self._control_names)[, lag])", g.node, mod)
    g = sd.methods['_add_control_name']
    src = full(g.node)
    p = g.params[1]
    ctx.ob(rid, f'{mod.name}:SynthDef._add_control_name', f'self._control_names.append({p})' in src and
           f'self._all_control_names.append({p})' in src, 'a name is recorded in both the local and the global table', g.node, mod)


def rule_ctl(ctx):
    ctx.rule('C04.ctl', 'Control/AudioControl/LagControl._init_ugen set _special_index = len(_controls) before '
                        '_controls.extend(values), advance _control_index by len(values) and create len(values) outputs')
    repo = ctx.repo
    for cname in ('Control', 'AudioControl', 'LagControl'):
        ci = repo.cls(f'sc3.synth.ugens.inout:{cname}')
        f = ci.methods.get('_init_ugen')
        ctx.require(f is not None, 'C04.ctl', f'{cname}._init_ugen vanished')
        ss = stmts(f)
        mod = ci.module
        i_sp = first(ss, lambda s: assign_to(s, 'self._special_index') and norm(s.value) == 'len(self._synthdef._controls)')
        i_ex = first(ss, lambda s: isinstance(s, ast.Expr) and norm(s.value) == 'self._synthdef._controls.extend(self.values)')
        i_ci = first(ss, lambda s: isinstance(s, ast.AugAssign) and norm(s.target) == 'self._synthdef._control_index'
                     and isinstance(s.op, ast.Add) and norm(s.value) == 'len(self.values)')
        ctx.ob('C04.ctl', f'{mod.name}:{cname}._init_ugen:special-index-before-extend', 0 <= i_sp < i_ex,
               'first slot (_special_index) must be taken before the defaults are appended', f.node, mod)
        ctx.ob('C04.ctl', f'{mod.name}:{cname}._init_ugen:control-index-advance', i_ci >= 0,
               '_control_index must advance by the number of values', f.node, mod)
        others = [s for s in ss if isinstance(s, (ast.Assign, ast.AugAssign)) and
                  any('_control_index' in norm(t) for t in U.assigned_targets(s)) and ss.index(s) != i_ci]
        ctx.ob('C04.ctl', f'{mod.name}:{cname}._init_ugen:single-advance', not others,
               '_control_index must be advanced exactly once', f.node, mod)
        rets = [s for s in ss if isinstance(s, ast.Return)]
        ctx.ob('C04.ctl', f'{mod.name}:{cname}._init_ugen:outputs', len(rets) == 1 and
               norm(rets[0].value) == 'self._init_outputs(len(self.values), self.rate)',
               'one output per value', f.node, mod)
    ci = repo.cls('sc3.synth.ugens.inout:LagControl')
    f = ci.methods['_init_ugen']
    src = full(f.node)
    va = f.node.args.vararg.arg
    ok = f'size = len({va})' in src and 'size2 = size >> 1' in src and f'self._inputs = {va}[size2:size]' in src and \
        f'self.values = list({va}[:size2])' in src
    ctx.ob('C04.ctl', f'{ci.module.name}:LagControl._init_ugen:split', ok,
           'first half of the arguments are values, second half their lags', f.node, ci.module)
    k = ci.methods['kr']
    src = full(k.node)
    ok = 'values = [values[i:i + n] for i in range(0, len(values), n)]' in src and \
        'lags = [lags[i:i + n] for i in range(0, len(lags), n)]' in src and \
        "cls._multi_new('control', *values[i], *lags[i])" in src and 'n = 16' in src
    ctx.ob('C04.ctl', f'{ci.module.name}:LagControl.kr:clump', ok,
           'values and lags are clumped alike (16) and passed values-then-lags', k.node, ci.module)
    ok = 'if len(values) != len(lags)' in src
    ctx.ob('C04.ctl', f'{ci.module.name}:LagControl.kr:same-length', ok, 'values and lags must have equal length', k.node, ci.module)
    for cname, meths in (('Control', {'ir': 'scalar', 'kr': 'control'}), ('AudioControl', {'ar': 'audio'})):
        c2 = repo.cls(f'sc3.synth.ugens.inout:{cname}')
        for mn, rate in meths.items():
            m = c2.methods[mn]
            ok = full(m.node).endswith(f"return cls._multi_new('{rate}', *utl.as_list({m.params[1]}))")
            ctx.ob('C04.ctl', f'{c2.module.name}:{cname}.{mn}', ok, f'{cname}.{mn} passes every value as one argument', m.node, c2.module)
    # _init_build resets the slot counter and table
    sd = repo.cls('sc3.synth.synthdef:SynthDef')
    ib = sd.methods['_init_build']
    src = full(ib.node)
    ctx.ob('C04.ctl', f'{sd.module.name}:SynthDef._init_build', 'self._controls = []' in src and 'self._control_index = 0' in src,
           'a build starts with an empty control array and slot 0', ib.node, sd.module)


def rule_names(ctx):
    ctx.rule('C04.names', 'the name table is written from _all_control_names (name, index); variant blocks are a copy of '
                          '_controls overridden at cn.index + i; counts as in C02.count')
    sd = ctx.repo.cls('sc3.synth.synthdef:SynthDef')
    f = sd.methods['_write_def']
    mod = sd.module
    src = full(f.node)
    tmp = None
    for s in walk_local_ordered(f.node):
        if isinstance(s, ast.Assign) and isinstance(s.value, ast.ListComp) and \
                norm(s.value.generators[0].iter) == 'self._all_control_names':
            tmp = s.targets[0].id
    ctx.ob('C04.names', f'{mod.name}:SynthDef._write_def:name-table-source', tmp is not None,
           'the name table must be built from _all_control_names', f.node, mod)
    if tmp:
        loops = [s for s in walk_local(f.node) if isinstance(s, ast.For) and norm(s.iter) == tmp]
        ok = False
        if loops:
            v = norm(loops[0].target)
            lb = [norm(x) for x in loops[0].body]
            ok = f'frw.write_pascal_str(file, {v}.name)' in lb and f'frw.write_i32(file, {v}.index)' in lb and \
                lb.index(f'frw.write_pascal_str(file, {v}.name)') < lb.index(f'frw.write_i32(file, {v}.index)')
        ctx.ob('C04.names', f'{mod.name}:SynthDef._write_def:name-table-entries', ok,
               'each entry is the control name followed by its first slot', f.node, mod)
        ctx.ob('C04.names', f'{mod.name}:SynthDef._write_def:name-table-count', f'frw.write_i32(file, len({tmp}))' in src,
               'the entry count is the length of the same list', f.node, mod)
    # variants
    vf = sd.methods.get('_valid_variants') or f
    vsrc = full(vf.node)
    ok = 'varcontrols = self._controls[:]' in vsrc and 'index = cn.index' in vsrc and 'varcontrols[index + i] = val' in vsrc
    ctx.ob('C04.names', f'{mod.name}:SynthDef.{vf.name}:variant-block', ok,
           'a variant block is a copy of the defaults overridden at the named control slots', vf.node, mod)
    vloops = [l for l in walk_local(vf.node) if isinstance(l, ast.For) and norm(l.iter) in ('self._variants.items()', 'self.variants.items()')]
    fresh = False
    if len(vloops) == 1:
        copies = [x for x in walk_local(ast.Module(body=vloops[0].body, type_ignores=[])) if isinstance(x, ast.Assign) and
                  norm(x.value) in ('self._controls[:]', 'list(self._controls)', 'self._controls.copy()')]
        outside = [x for x in walk_local(vf.node) if isinstance(x, ast.Assign) and norm(x.value) in ('self._controls[:]', 'list(self._controls)', 'self._controls.copy()')
                   and not any(x is y for y in copies)]
        fresh = len(copies) == 1 and not outside and any(x is copies[0] for x in vloops[0].body)
    ctx.ob('C04.names', f'{mod.name}:SynthDef.{vf.name}:fresh-copy-per-variant', fresh,
           'every variant block must start from a fresh copy of the control defaults taken inside the per-variant loop (a copy shared by the '
           'variants makes later blocks inherit the overrides of earlier ones)', vf.node, mod)
    ok = "varname = self._name + '.' + varname" in vsrc
    ctx.ob('C04.names', f'{mod.name}:SynthDef.{vf.name}:variant-name', ok, 'variant name is defname.variant', vf.node, mod)
    # no early exit from the counted variant loop (shared with C02.count)
    cnt = first(stmts(f), lambda s: isinstance(s, ast.Expr) and isinstance(s.value, ast.Call) and
                U.method_name(s.value) == 'write_i16')
    ss = stmts(f)
    bad = []
    if cnt >= 0:
        for s in ss[cnt + 1:]:
            if isinstance(s, ast.For):
                for inner in walk_local_ordered(s):
                    if isinstance(inner, (ast.Return, ast.Break)):
                        bad.append(inner)
    for b in bad:
        ctx.ob('C04.names', ctx.key(mod, b, f'{norm(b)} inside counted loop over self._variants'), False,
               'leaves the variant loop after the count was written (variant blocks truncated)', b, mod)
    ctx.ob('C04.names', f'{mod.name}:SynthDef._write_def:variant-loop-complete', cnt >= 0 and not bad,
           'the variant count is followed by exactly that many blocks', f.node, mod)


def rule_rates(ctx):
    ctx.rule('C04.rates', 'the rate decision list has the shape `lag == R or annot == R and not overridden` for ir, tr, '
                          'ar in that order with kr as fallback (lag "kr" -> 0.0); names, values, annotations are sliced '
                          'by skip_args')
    sd = ctx.repo.cls('sc3.synth.synthdef:SynthDef')
    f = sd.methods['_args_to_controls']
    mod = sd.module
    skip = f.params[3] if len(f.params) > 3 else None
    ctx.require(skip is not None, 'C04.rates', '_args_to_controls lost its skip parameter')
    for v in ('names', 'values', 'annotations'):
        ok = any(isinstance(s, ast.Assign) and norm(s.targets[0]) == v and norm(s.value) == f'{v}[{skip}:]'
                 for s in walk_local(f.node))
        ctx.ob('C04.rates', f'{mod.name}:SynthDef._args_to_controls:slice[{v}]', ok,
               f'{v} must be sliced by {skip} (prepended parameters are not controls)', f.node, mod)
    loop = [s for s in f.node.body if isinstance(s, ast.For) and norm(s.iter) == 'enumerate(names)']
    ctx.require(len(loop) == 1, 'C04.rates', 'parameter loop vanished')
    chain = [s for s in loop[0].body if isinstance(s, ast.If) and any(U.method_name(c) in ('_add_ir',) for c in U.calls(s))]
    ctx.require(len(chain) == 1, 'C04.rates', 'rate decision chain vanished')
    node = chain[0]
    seq = []
    while True:
        calls = [c for c in U.calls(ast.Module(body=node.body, type_ignores=[])) if U.is_self_attr(c.func)]
        seq.append((norm(node.test), [norm(c) for c in calls]))
        if len(node.orelse) == 1 and isinstance(node.orelse[0], ast.If):
            node = node.orelse[0]
        else:
            tail = node.orelse
            break
    want = [(f"lag == '{r}' or (annot == '{r}' and (not overridden))", [f'self._add_{r}(name, value)']) for r in ('ir', 'tr', 'ar')]
    ctx.ob('C04.rates', f'{mod.name}:SynthDef._args_to_controls:decision-list', seq == want,
           f'rate decisions must be {want}; found {seq}', chain[0], mod)
    tl = [norm(s) for s in tail]
    ctx.ob('C04.rates', f'{mod.name}:SynthDef._args_to_controls:kr-fallback',
           tl == ["if lag == 'kr': lag = 0.0", 'self._add_kr(name, value, lag)'],
           f'fallback must normalise "kr" to 0.0 and add a control-rate name; found {tl}', chain[0], mod)
    src = full(f.node)
    ctx.ob('C04.rates', f'{mod.name}:SynthDef._args_to_controls:overridden', 'overridden = lag in rate_names' in src,
           'the rates argument overrides an annotation only when it names a rate', f.node, mod)
    ctx.ob('C04.rates', f'{mod.name}:SynthDef._args_to_controls:rates-padding',
           ('[0] * (len(names) - len(rates))' in src or '[0.0] * (len(names) - len(rates))' in src), 'missing rates default to 0 (no lag)', f.node, mod)
    # values
    g = sd.methods['_get_valid_arg_values']
    src = full(g.node)
    ctx.ob('C04.rates', f'{mod.name}:SynthDef._get_valid_arg_values:tuple', 'elif isinstance(param.default, tuple): ret.append(list(param.default))' in src,
           'tuple defaults become arrays of slots', g.node, mod)


def rule_defaults(ctx):
    ctx.rule('C04.defaults', 'a declared default is replaced (by the spec default or 0.0) only when it is None: the functions that '
                             'produce control defaults test `is None`, never truthiness (0, 0.0 and False are legitimate defaults)')
    sd = ctx.repo.cls('sc3.synth.synthdef:SynthDef')
    mod = sd.module
    for fn in ('_apply_metadata_specs', '_get_valid_arg_values'):
        f = sd.methods[fn]
        ors = [n for n in ast.walk(f.node) if isinstance(n, ast.BoolOp) and isinstance(n.op, ast.Or)]
        truthy = [n for n in ast.walk(f.node) if isinstance(n, (ast.If, ast.IfExp)) and isinstance(n.test, ast.Name)]
        ctx.ob('C04.defaults', f'{f.fq}:no-truthiness', not ors and not truthy,
               f'{fn} chooses defaults by truthiness ({[norm(x) for x in (ors + truthy)][:2]}): an explicit 0/0.0/False default is replaced by the '
               f'spec default, so the control slot does not hold the declared default', f.node, mod)
    f = sd.methods['_apply_metadata_specs']
    src = full(f.node)
    nones = [n for n in ast.walk(f.node) if isinstance(n, ast.Compare) and isinstance(n.ops[0], (ast.Is, ast.IsNot)) and
             isinstance(n.comparators[0], ast.Constant) and n.comparators[0].value is None]
    ctx.ob('C04.defaults', f'{f.fq}:none-tests', len(nones) >= 2, 'missing defaults are detected with `is None` on both branches (with and without specs)', f.node, mod)
    ctx.ob('C04.defaults', f'{f.fq}:spec-default', '.default' in src and '0.0' in src, 'a missing default becomes the spec default or 0.0', f.node, mod)
    a = sd.methods['_args_to_controls']
    src = full(a.node)
    ctx.ob('C04.defaults', f'{a.fq}:pipeline', U.before(src, 'values = self._get_valid_arg_values(params)', 'values = values[', 'values = self._apply_metadata_specs(names, values)'),
           'defaults come from the signature, are sliced by skip_args, then completed from the specs', a.node, mod)


def rule_call(ctx):
    ctx.rule('C04.call', 'the names __call__ zips positional arguments with are the definition\'s own controls: the '
                         'field is not written on the re-entrant wrap path (or is saved/restored there) and excludes '
                         'prepended parameters')
    repo = ctx.repo
    sd = repo.cls('sc3.synth.synthdef:SynthDef')
    mod = sd.module
    call = sd.methods['__call__']
    zips = [c for c in U.calls(call.node) if U.method_name(c) == 'zip']
    field = None
    for z in zips:
        for a in z.args:
            if U.is_self_attr(a):
                field = a.attr
    ctx.require(field is not None, 'C04.call', 'cannot bind the field __call__ zips positional arguments with')
    # reentrant set: reachable from _build_ugen_graph through self.* calls
    reent = set()
    work = ['_build_ugen_graph']
    while work:
        n = work.pop()
        if n in reent or n not in sd.methods:
            continue
        reent.add(n)
        for c in U.calls(sd.methods[n].node):
            if U.is_self_attr(c.func):
                work.append(c.func.attr)
    writers = []
    for name, f in sd.methods.items():
        for s in walk_local(f.node):
            if isinstance(s, (ast.Assign, ast.AugAssign)):
                for t in U.assigned_targets(s):
                    if U.is_self_attr(t, field):
                        writers.append((name, f, s))
    ctx.ob('C04.call', f'{mod.name}:SynthDef:{field}:has-writer', bool(writers), f'{field} is never assigned', call.node, mod)
    for name, f, s in writers:
        key = f'{mod.name}:SynthDef.{name}:{field}'
        if name in reent:
            # save/restore idiom in _build_ugen_graph?
            bug = sd.methods['_build_ugen_graph']
            src = full(bug.node)
            saved = None
            for st in bug.node.body:
                if isinstance(st, ast.Assign) and norm(st.value) == f'self.{field}' and isinstance(st.targets[0], ast.Name):
                    saved = st.targets[0].id
            restored = saved is not None and f'self.{field} = {saved}' in src
            ctx.ob('C04.call', key + ':not-reentrant', restored,
                   f'{field} is overwritten in {name}, which SynthDef.wrap re-enters: a wrapped function replaces the '
                   f'definition\'s own argument names (positional arguments of __call__ map to the wrong controls)', s, mod)
        else:
            ctx.ob('C04.call', key + ':not-reentrant', True, 'written outside the re-entrant path', s, mod)
        v = norm(s.value) if isinstance(s, ast.Assign) else ''
        sliced = ('[' in v and ':]' in v and ('skip' in v or 'prepend' in v))
        ctx.ob('C04.call', key + ':excludes-prepended', sliced,
               f'{field} = {v} includes prepended parameters, which are not controls (positional arguments shift)', s, mod)
    # kwargs are passed by name
    src = full(call.node)
    ctx.ob('C04.call', f'{mod.name}:SynthDef.__call__:kwargs', 'for p in kwargs.items() for v in p' in src,
           'keyword arguments map by name', call.node, mod)


def rule_index_monotone(ctx):
    ctx.rule('C04.ctl', 'within a build the running index equals the number of control values created so far (_control_index == len(_controls)): '
                        'it is set to 0 where a build starts and otherwise only advanced together with _controls.extend; nothing sets it back '
                        '(the control units of a wrapped function that failed stay in the graph and keep their slots)')
    n = 0
    for fi in sorted(ctx.repo.functions.values(), key=lambda f: f.fq):
        if not fi.module.name.startswith('sc3.synth') or fi.module.name == 'sc3.synth.synthdesc':
            continue      # the description reader fills a definition from bytes, it is not a build
        for x in walk_local(fi.node):
            if not isinstance(x, (ast.Assign, ast.AugAssign, ast.AnnAssign, ast.Delete)):
                continue
            tg = x.targets if isinstance(x, (ast.Assign, ast.Delete)) else [x.target]
            for t in tg:
                base = t.value if isinstance(t, ast.Subscript) else t
                if not (isinstance(base, ast.Attribute) and base.attr in ('_control_index', '_controls')):
                    continue
                n += 1
                if base.attr == '_control_index':
                    ok = (isinstance(x, ast.Assign) and U.literal(x.value) == 0 and isinstance(t, ast.Attribute)) or \
                         (isinstance(x, ast.AugAssign) and isinstance(x.op, ast.Add) and norm(x.value).startswith('len('))
                else:
                    ok = isinstance(x, ast.Assign) and isinstance(t, ast.Attribute) and norm(x.value) in ('[]', 'list()', 'None')   # None: the placeholder definition of _dummy
                ctx.ob('C04.ctl', f'{fi.fq}:{norm(x)[:60]}:index-only-grows', ok,
                       f'`{norm(x)[:80]}` in {fi.qualname}: the running control index / value list may only be reset where a build starts and '
                       f'grown by the control units; set back, the names declared afterwards point at slots of earlier units while the body is '
                       f'wired by len(_controls)', x, fi.module)
    ctx.require(n >= 5, 'C04.ctl', f'only {n} stores to _control_index/_controls found')


def run(ctx):
    from .. import beliefs
    ctx.rule('C04.absent', 'only None means that rates/prepend/metadata/variants were not given: a falsy value that is a legitimate argument (prepend=0) is kept')
    beliefs.rule_ordefault(ctx, 'C04.absent', ['sc3.synth.synthdef'])
    i = ctx.repo.cls('sc3.synth.synthdef:SynthDef').methods['__init__']
    ctx.ob('C04.absent', f'{i.fq}:prepend', '[] if prepend is None else prepend' in full(i.node), 'prepend defaults to [] only when it is None', i.node, i.module)
    rule_groups(ctx)
    rule_ctl(ctx)
    rule_index_monotone(ctx)
    rule_names(ctx)
    rule_rates(ctx)
    rule_call(ctx)
    rule_defaults(ctx)
    from ..report import SubCtx
    from . import c20 as c20m
    subm = SubCtx(ctx, 'C04.defaults', 'defaults, annotations and widths are read from the graph function at every build: nothing on the build path is memoised per function object, as decided for C20')
    c20m.rule_memo(subm)


MUTANTS = [
    dict(rule='C04.defaults', name='signature of the graph function memoised per function object (seed C04-j)', file='sc3/synth/synthdef.py',
         old="class MetaSynthDef(type):\n", new="import functools\n\n\n@functools.lru_cache(maxsize=1024)\ndef _signature(func):\n    return inspect.signature(func)\n\n\nclass MetaSynthDef(type):\n"),
    dict(rule='C04.ctl', name='a failed wrapped function resets the running index but keeps its control units (seed C04-i)', file='sc3/synth/synthdef.py',
         old="        self._args_to_controls(func, rates, len(prepend))\n        result = func(*(prepend + self._build_controls()))\n        self._control_names = save_ctl_names\n",
         new="        save_ctl_index = self._control_index\n        try:\n            self._args_to_controls(func, rates, len(prepend))\n            result = func(*(prepend + self._build_controls()))\n        except Exception:\n            self._control_index = save_ctl_index\n            raise\n        finally:\n            self._control_names = save_ctl_names\n"),
    dict(rule='C04.groups', name='lag list appended whole for a one-slot parameter (fix reverted)', file='sc3/synth/synthdef.py',
         old="                # One lag per slot, also for a lag list on a single slot.\n                lags.extend(utl.wrap_extend(utl.as_list(cn.lag), valsize))\n",
         new="                if valsize > 1:\n                    lags.extend(utl.wrap_extend(utl.as_list(cn.lag), valsize))\n                else:\n                    lags.append(cn.lag)\n"),
    dict(rule='C04.absent', name='(fix reverted) SynthDef drops a falsy scalar prepend', file='sc3/synth/synthdef.py',
         old="            func, rates or [], [] if prepend is None else prepend)\n\n    def _build", new="            func, rates or [], prepend or [])\n\n    def _build"),
    dict(rule='C04.groups', name='tr/ar creation reordered', file='sc3/synth/synthdef.py',
         old="        build_ita_controls(tr_cns, iou.TrigControl, 'kr')\n        build_ita_controls(ar_cns, iou.AudioControl, 'ar')",
         new="        build_ita_controls(ar_cns, iou.AudioControl, 'ar')\n        build_ita_controls(tr_cns, iou.TrigControl, 'kr')"),
    dict(rule='C04.groups', name='index advances by 1', file='sc3/synth/synthdef.py',
         old="                    cn.index = index\n                    index += len(utl.as_list(cn.default_value))\n                    arguments[cn.arg_num] = ctrl_ugens[i]\n                    self._set_control_names(ctrl_ugens[i], cn)\n\n        build_ita",
         new="                    cn.index = index\n                    index += 1\n                    arguments[cn.arg_num] = ctrl_ugens[i]\n                    self._set_control_names(ctrl_ugens[i], cn)\n\n        build_ita"),
    dict(rule='C04.groups', name='index read after unit creation', file='sc3/synth/synthdef.py',
         old="            index = self._control_index\n\n            if any(x != 0 for x in lags):",
         new="            if any(x != 0 for x in lags):"),
    dict(rule='C04.groups', name='trigger group built with Control', file='sc3/synth/synthdef.py',
         old="build_ita_controls(tr_cns, iou.TrigControl, 'kr')", new="build_ita_controls(tr_cns, iou.Control, 'kr')"),
    dict(rule='C04.ctl', name='extend before special index', file='sc3/synth/ugens/inout.py',
         old="            self._special_index = len(self._synthdef._controls)\n            self._synthdef._controls.extend(self.values)\n            self._synthdef._control_index += len(self.values)\n        return self._init_outputs(len(self.values), self.rate)\n\n    # is_audio_control_ugen",
         new="            self._synthdef._controls.extend(self.values)\n            self._special_index = len(self._synthdef._controls)\n            self._synthdef._control_index += len(self.values)\n        return self._init_outputs(len(self.values), self.rate)\n\n    # is_audio_control_ugen"),
    dict(rule='C04.ctl', name='LagControl does not advance slot counter', file='sc3/synth/ugens/inout.py',
         old="            self._synthdef._controls.extend(self.values)\n            self._synthdef._control_index += len(self.values)\n        return self._init_outputs(len(self.values), self.rate)\n\n    def __repr__(self):\n        return f'{type(self).__name__}.kr",
         new="            self._synthdef._controls.extend(self.values)\n        return self._init_outputs(len(self.values), self.rate)\n\n    def __repr__(self):\n        return f'{type(self).__name__}.kr"),
    dict(rule='C04.ctl', name='LagControl split off by one', file='sc3/synth/ugens/inout.py',
         old="self.values = list(stuff[:size2])", new="self.values = list(stuff[:size2 + 1])"),
    dict(rule='C04.names', name='name table writes arg_num', file='sc3/synth/synthdef.py',
         old="frw.write_i32(file, item.index)", new="frw.write_i32(file, item.arg_num)"),
    dict(rule='C04.names', name='variant override ignores index', file='sc3/synth/synthdef.py',
         old="varcontrols[index + i] = val", new="varcontrols[i] = val"),
    dict(rule='C04.rates', name="'tr' annotation ignores override", file='sc3/synth/synthdef.py',
         old="elif lag == 'tr' or annot == 'tr' and not overridden:", new="elif lag == 'tr' or annot == 'tr':"),
    dict(rule='C04.rates', name='annotations not sliced', file='sc3/synth/synthdef.py',
         old="        annotations = annotations[skip_args:]\n", new=""),
    dict(rule='C04.rates', name='kr not normalised', file='sc3/synth/synthdef.py',
         old="                if lag == 'kr': lag = 0.0\n", new=""),
    dict(rule='C04.call', name='(fix reverted) names assigned on the re-entrant path', file='sc3/synth/synthdef.py',
         old="        sig = inspect.signature(func)\n        params = list(sig.parameters.values())\n",
         new="        sig = inspect.signature(func)\n        self._callable_args = list(sig.parameters.keys())\n        params = list(sig.parameters.values())\n"),
    dict(rule='C04.call', name='(fix reverted) prepended parameters included', file='sc3/synth/synthdef.py',
         old="func).parameters)[len(utl.as_list(prepend)):]", new="func).parameters)"),
    dict(rule='C04.defaults', name='defaults chosen by truthiness', file='sc3/synth/synthdef.py',
         old="                if value is not None:\n                    new_values.append(value)\n                else:", new="                if value:\n                    new_values.append(value)\n                else:"),
    dict(rule='C04.names', name='control copy hoisted out of the variant loop', file='sc3/synth/synthdef.py',
         old="            varcontrols = self._controls[:]\n            for cname, values in pairs.items():", new="            for cname, values in pairs.items():",
         edits=[('sc3/synth/synthdef.py', "            varcontrols = self._controls[:]\n            for cname, values in pairs.items():", "            for cname, values in pairs.items():"),
                ('sc3/synth/synthdef.py', "        for varname, pairs in self._variants.items():\n            varname = self._name + '.' + varname\n            if len(varname) > 32:", "        varcontrols = self._controls[:]\n        for varname, pairs in self._variants.items():\n            varname = self._name + '.' + varname\n            if len(varname) > 32:")]),
]

REPAIRS = []

EQUIV = [
    dict(name='the saved control names are restored in a finally clause (nothing set back)', file='sc3/synth/synthdef.py',
         old="        self._args_to_controls(func, rates, len(prepend))\n        result = func(*(prepend + self._build_controls()))\n        self._control_names = save_ctl_names\n",
         new="        try:\n            self._args_to_controls(func, rates, len(prepend))\n            result = func(*(prepend + self._build_controls()))\n        finally:\n            self._control_names = save_ctl_names\n"),
    dict(name='rename locals of LagControl._init_ugen', file='sc3/synth/ugens/inout.py', start='    def _init_ugen(self, *stuff):', end="    def __repr__(self):\n        return f'{type(self).__name__}.kr", rename=[('size2', 'half'), ('stuff', 'args')]),
    dict(name='slot size through ControlName.channels', file='sc3/synth/synthdef.py',
         old="                    cn.index = index\n                    index += len(utl.as_list(cn.default_value))\n                    arguments[cn.arg_num] = ctrl_ugens[i]\n                    self._set_control_names(ctrl_ugens[i], cn)\n\n        build_ita",
         new="                    cn.index = index\n                    index += cn.channels\n                    arguments[cn.arg_num] = ctrl_ugens[i]\n                    self._set_control_names(ctrl_ugens[i], cn)\n\n        build_ita"),
]
