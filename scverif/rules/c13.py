"""C13 - patterns denote the sequences their definitions say, compositionally."""

import ast
import re

from ..loader import norm, full, walk_local, walk_local_ordered, dump_name, AnalysisError
from .. import util as U
from ..flow import enumerate_paths

EXPLANATION = (
    'Structural necessary conditions of "patterns are immutable blueprints whose streams are independent" are '
    'decided over every Pattern subclass: each concrete class overrides __embed__ or __stream__ below Pattern '
    '(otherwise the two defaults call each other forever); no __embed__/__stream__/__iter__ assigns to self, mutates a '
    'container reachable from self (directly or through a non-copying local alias) or hands one to an in-place '
    'function such as shuffle; no __init__ stores a stream, iterator or generator (a one-shot object shared by all '
    'streams of the pattern); __stream__ returns a newly constructed object; and every __embed__ generator hands the '
    'latest input value back on every exit (returns the in-value, a tail `yield from`, or is the documented None case) '
    'and never falls off the end.')
LEVEL_TEXT = ('static purity/effect and protocol rules over all pattern classes (about 80) and their ~90 embedding methods. '
              'The sequence each class denotes is not decided.')
LEVEL_NOTE = 'denotations of individual pattern classes are program semantics and are not decided'
LEVEL_TEXT_ADD = ' Also: operand provenance of the operator patterns (shared with C15.order), list-index discipline (C13.index), in-value handed to everything embedded.'
LEVEL_TEXT_ADD += ' Rounds e-f: Pslide position unreduced in the no-wrap branch; random stream rules (shared with C10).'
LEVEL_TEXT_ADD += " Rounds g-h: stream reads inside the stop guard, no working list handed out, what a filter passes to its source is the consumer's in-value. Round i: a finished pattern stream stays finished."
LEVEL_TEXT = (globals().get('LEVEL_TEXT') or EXPLANATION) + LEVEL_TEXT_ADD
TECHNIQUE = 'static analysis: effect (purity) analysis with alias tracking + generator-protocol path rules over the class hierarchy'

MUTATORS = {'append', 'extend', 'pop', 'sort', 'insert', 'remove', 'clear', 'update', 'reverse', 'setdefault', 'popitem',
            'add', 'discard', '__setitem__', '__delitem__'}
INPLACE_FUNCS = {'shuffle', 'heappush', 'heappop', 'heapify'}
COPYING = {'list', 'dict', 'set', 'tuple', 'sorted', 'copy', 'deepcopy', 'reversed'}


def pattern_classes(ctx):
    base = ctx.repo.cls('sc3.seq.pattern:Pattern')
    return base, sorted(ctx.repo.subclasses(base, strict=True), key=lambda c: c.fq)


def rule_wf(ctx):
    ctx.rule('C13.wf', 'every concrete Pattern subclass overrides __embed__ or __stream__ below Pattern; classes with neither '
                       'must be abstract (have subclasses, never instantiated)')
    base, subs = pattern_classes(ctx)
    inst = set()
    for m in ctx.repo.modules.values():
        for n in ast.walk(m.tree):
            if isinstance(n, ast.Call):
                d = dump_name(n.func)
                if d:
                    inst.add(d.split('.')[-1])
    ctx.require(len(subs) >= 60, 'C13.wf', f'only {len(subs)} pattern classes found')
    for ci in subs:
        e = ctx.repo.resolve_method(ci, '__embed__')
        s = ctx.repo.resolve_method(ci, '__stream__')
        own = (e is not None and e.cls is not base) or (s is not None and s.cls is not base)
        if own:
            ctx.ob('C13.wf', f'{ci.fq}:protocol', True, 'overrides __embed__ or __stream__', ci.node, ci.module)
            continue
        has_subs = bool(ctx.repo.subclasses(ci, strict=True))
        ok = has_subs and ci.name not in inst
        ctx.ob('C13.wf', f'{ci.fq}:protocol', ok,
               f'{ci.name} defines neither __embed__ nor __stream__: Pattern.__embed__ and Pattern.__stream__ recurse into each '
               f'other forever' + ('' if not has_subs else ' (abstract base must never be instantiated)'), ci.node, ci.module)


def aliases_of_self(fnode):
    """local names bound directly (without copying) to something reachable from self"""
    al = {}
    changed = True
    while changed:
        changed = False
        for s in walk_local(fnode):
            if isinstance(s, ast.Assign) and len(s.targets) == 1 and isinstance(s.targets[0], ast.Name):
                v = s.value
                root = None
                if isinstance(v, ast.Attribute):
                    ch = U.attr_chain(v)
                    if ch and (ch[0] == 'self' or ch[0] in al):
                        root = norm(v)
                elif isinstance(v, ast.Name) and v.id in al:
                    root = al[v.id]
                elif isinstance(v, ast.Subscript) and not isinstance(v.slice, ast.Slice):
                    ch = U.attr_chain(v.value) if isinstance(v.value, ast.Attribute) else ([v.value.id] if isinstance(v.value, ast.Name) else None)
                    if ch and (ch[0] == 'self' or ch[0] in al):
                        root = norm(v)
                if root is not None and s.targets[0].id not in al:
                    al[s.targets[0].id] = root
                    changed = True
    return al


def rooted_in_self(node, al):
    if isinstance(node, ast.Subscript):
        return rooted_in_self(node.value, al)
    if isinstance(node, ast.Attribute):
        ch = U.attr_chain(node)
        return bool(ch) and (ch[0] == 'self' or ch[0] in al)
    if isinstance(node, ast.Name):
        return node.id in al
    return False


def impure_sites(fnode):
    al = aliases_of_self(fnode)
    out = []
    for s in walk_local(fnode):
        if isinstance(s, (ast.Assign, ast.AugAssign, ast.Delete)):
            for t in U.assigned_targets(s):
                if isinstance(t, ast.Name):
                    continue
                if isinstance(t, ast.Attribute):
                    ch = U.attr_chain(t)
                    if ch and (ch[0] == 'self' or ch[0] in al):
                        out.append((s, f'assigns {norm(t)}'))
                elif isinstance(t, ast.Subscript) and rooted_in_self(t.value, al):
                    out.append((s, f'stores into {norm(t.value)} (state shared by every stream of the pattern)'))
        elif isinstance(s, ast.Call):
            if isinstance(s.func, ast.Attribute) and s.func.attr in MUTATORS and rooted_in_self(s.func.value, al) \
                    and not (isinstance(s.func.value, ast.Name) and s.func.value.id == 'self'):
                out.append((s, f'calls {norm(s.func)}() on state reachable from self'))
            fn = (dump_name(s.func) or '').split('.')[-1]
            if fn in INPLACE_FUNCS and s.args and rooted_in_self(s.args[0], al):
                out.append((s, f'{fn}() mutates {norm(s.args[0])} in place'))
    return out, al


def rule_pure(ctx):
    ctx.rule('C13.pure', 'no __embed__/__stream__/__iter__ of a Pattern (or __embed__ of a Stream) assigns to self.*, mutates a '
                         'container reachable from self (also through a non-copying alias), or passes one to an in-place function')
    base, subs = pattern_classes(ctx)
    sbase = ctx.repo.cls('sc3.base.stream:Stream')
    n = 0
    for ci in [base] + subs:
        for mn in ('__embed__', '__stream__', '__iter__'):
            f = ci.methods.get(mn)
            if f is None:
                continue
            n += 1
            sites, al = impure_sites(f.node)
            for s, why in sites:
                ctx.ob('C13.pure', f'{f.fq}:{norm(s)[:70]}', False,
                       f'{ci.name}.{mn} {why}: streams made from the same pattern influence one another and the pattern', s, f.module)
            ctx.ob('C13.pure', f'{f.fq}:pure', not sites, f'{len(al)} aliases of pattern state tracked; no write through them', f.node, f.module)
            # helper generators called with self state: _embed_* methods of the same class
            for c in U.calls(f.node):
                if U.is_self_attr(c.func) and c.func.attr in ci.methods and c.func.attr.startswith('_'):
                    h = ci.methods[c.func.attr]
                    hs, _ = impure_sites(h.node)
                    for s, why in hs:
                        ctx.ob('C13.pure', f'{h.fq}:{norm(s)[:70]}', False, f'{ci.name}.{h.name} (called from {mn}) {why}', s, h.module)
                    ctx.ob('C13.pure', f'{h.fq}:pure', not hs, 'helper of the embedding method is pure', h.node, h.module)
                    n += 1
    for ci in ctx.repo.subclasses(sbase):
        f = ci.methods.get('__embed__')
        if f is None:
            continue
        n += 1
        sites = [(s, w) for s, w in impure_sites(f.node)[0] if w.startswith('assigns')]
        for s, why in sites:
            ctx.ob('C13.pure', f'{f.fq}:{norm(s)[:70]}', False, f'{ci.name}.__embed__ {why}', s, f.module)
        ctx.ob('C13.pure', f'{f.fq}:pure', not sites, 'stream embedding only calls next()', f.node, f.module)
    ctx.require(n >= 70, 'C13.pure', f'only {n} embedding methods found')


STREAM_MAKERS = {'stream', 'embed', 'iter', '__stream__', '__embed__', '__iter__', 'cycle', 'count', 'counter'}


def rule_fresh(ctx):
    ctx.rule('C13.fresh', 'no Pattern __init__ stores a stream/iterator/generator; __stream__ returns a newly constructed object')
    base, subs = pattern_classes(ctx)
    n = 0
    for ci in [base] + subs:
        f = ci.methods.get('__init__')
        if f is not None:
            n += 1
            bad = []
            for s in walk_local(f.node):
                if isinstance(s, ast.Assign) and any(isinstance(t, ast.Attribute) and U.attr_chain(t) and U.attr_chain(t)[0] == 'self' for t in s.targets):
                    v = s.value
                    if isinstance(v, ast.GeneratorExp):
                        bad.append((s, 'stores a generator expression (consumed by the first stream)'))
                    elif isinstance(v, ast.Call) and U.method_name(v) in STREAM_MAKERS:
                        bad.append((s, f'stores the result of {norm(v.func)}() (a one-shot stream shared by every stream of the pattern)'))
                    elif isinstance(v, (ast.ListComp, ast.List, ast.Tuple, ast.DictComp, ast.Dict)):
                        for c in ast.walk(v):
                            if isinstance(c, ast.Call) and U.method_name(c) in ('stream', 'embed', 'iter', '__stream__', '__embed__'):
                                bad.append((s, f'stores a collection of streams ({norm(c.func)})'))
                                break
            for s, why in bad:
                ctx.ob('C13.fresh', f'{f.fq}:{norm(s)[:70]}', False, f'{ci.name}.__init__ {why}', s, f.module)
            ctx.ob('C13.fresh', f'{f.fq}:no-stored-stream', not bad, 'blueprint stores only data', f.node, f.module)
        g = ci.methods.get('__stream__')
        if g is not None:
            n += 1
            rets = [s for s in walk_local(g.node) if isinstance(s, ast.Return)]
            ok = bool(rets) and all(isinstance(r.value, ast.Call) and not (isinstance(r.value.func, ast.Attribute) and U.is_self_attr(r.value.func)
                                                                         and not r.value.func.attr.startswith('_')) for r in rets)
            ok = ok and all(isinstance(r.value, ast.Call) for r in rets)
            ctx.ob('C13.fresh', f'{g.fq}:new-object', ok, '__stream__ must construct a new stream object on every call', g.node, g.module)
    ctx.require(n >= 40, 'C13.fresh', f'only {n} constructors found')
    # pattern streams are created lazily and reset drops them
    pv = ctx.repo.cls('sc3.seq.eventstream:PatternValueStream')
    src = full(pv.methods['next'].node)
    ctx.ob('C13.fresh', f'{pv.fq}.next', 'if self._stream is None: self._stream = stm.embed(self.pattern, inval)' in src,
           'a pattern stream embeds its pattern afresh on first use', pv.methods['next'].node, pv.module)
    ctx.ob('C13.fresh', f'{pv.fq}.reset', 'self._stream = None' in full(pv.methods['reset'].node), 'reset forgets the running embedding', pv.node, pv.module)


RETURN_EXCEPTIONS = {
    # Prout mirrors sclang: the user's routine function is responsible for returning the in-value
    ('sc3.seq.patterns.funcpatterns:Prout.__embed__', 'return e.value'): 'generator function return value (documented)',
    ('sc3.seq.patterns.funcpatterns:Prout.__embed__', 'return self.func(inval)'): 'plain function result (documented)',
    ('sc3.seq.patterns.funcpatterns:Prout.__embed__', 'return self.func()'): 'plain function result (documented)',
}


def rule_inval(ctx):
    ctx.rule('C13.inval', 'every __embed__ generator returns the latest in-value on each exit: `return <inval>`, a tail '
                          '`return (yield from ...)`, or a `return` under `<inval> is None`; no exit falls off the end')
    base, subs = pattern_classes(ctx)
    sbase = ctx.repo.cls('sc3.base.stream:Stream')
    classes = [base] + subs + sorted(ctx.repo.subclasses(sbase), key=lambda c: c.fq)
    n = 0
    seen = set()
    for ci in classes:
        cands = [f for nm, f in ci.methods.items() if nm == '__embed__' or (nm.startswith('_') and not nm.startswith('__') and f.is_generator
                                                            and len(f.params) > 1 and f.params[1] in ('inval', 'inevent'))]
        for f in cands:
            if f.fq in seen or not f.is_generator:
                if f.fq not in seen and not f.is_generator and f.name == '__embed__':
                    # non-generator __embed__ must delegate
                    rets = [s for s in walk_local(f.node) if isinstance(s, ast.Return)]
                    ok = bool(rets) and all(isinstance(r.value, ast.Call) for r in rets)
                    ctx.ob('C13.inval', f'{f.fq}:delegates', ok, 'a non-generator __embed__ must return another embedding', f.node, f.module)
                    n += 1
                seen.add(f.fq)
                continue
            seen.add(f.fq)
            n += 1
            inval = f.params[1] if len(f.params) > 1 else None
            # names that carry the in-value: the parameter and anything assigned from a yield
            carriers = {inval} if inval else set()
            for s in walk_local(f.node):
                if isinstance(s, ast.Assign) and isinstance(s.value, (ast.Yield, ast.YieldFrom)):
                    for t in s.targets:
                        if isinstance(t, ast.Name):
                            carriers.add(t.id)
            bad = []
            for ev, out in enumerate_paths(f.node, unroll=1, max_paths=60000):
                if out[0] == 'fall':
                    bad.append((f.node, 'a path falls off the end of the generator (StopIteration carries None: the embedding '
                                        'caller loses the in-value)'))
                    break
            for r in [s for s in walk_local(f.node) if isinstance(s, ast.Return)]:
                v = r.value
                ok = False
                if isinstance(v, ast.Name) and v.id in carriers:
                    ok = True
                elif isinstance(v, (ast.YieldFrom, ast.Yield)):
                    ok = True
                elif v is None or (isinstance(v, ast.Constant) and v.value is None):
                    # allowed only under `<inval> is None`
                    for p in U.parent_chain(r):
                        if isinstance(p, ast.If) and any(norm(p.test) == f'{c} is None' for c in carriers) and U.in_body(r, p, 'body'):
                            ok = True
                        if isinstance(p, ast.FunctionDef):
                            break
                if not ok and (f.fq, norm(r)) in RETURN_EXCEPTIONS:
                    ok = True
                if not ok:
                    bad.append((r, f'`{norm(r)}` does not hand the in-value back'))
            # a bare `yield x` / `yield from g` statement drops the value the consumer sends in
            for st in walk_local(f.node):
                if isinstance(st, ast.Expr) and isinstance(st.value, (ast.Yield, ast.YieldFrom)):
                    bad.append((st, f'`{norm(st)}` drops the in-value sent by the consumer: what is embedded next keeps receiving a stale in-value'))
            # the in-value is handed on to whatever is embedded or polled
            if f.name == '__embed__' and inval:
                for c in U.calls(f.node):
                    nm = U.call_name(c) or ''
                    if nm.split('.')[-1] == 'embed' and nm.split('.')[0] in ('stm', 'embed') and not any(isinstance(a, ast.Starred) for a in c.args):
                        if not (len(c.args) >= 2 and isinstance(c.args[1], ast.Name) and c.args[1].id in carriers):
                            bad.append((c, f'`{norm(c)}` embeds without passing the in-value: the embedded pattern receives None'))
            for node, why in bad:
                ctx.ob('C13.inval', f'{f.fq}:{norm(node)[:50] if node is not f.node else "falls-off-end"}', False, f'{ci.name}.{f.name}: {why}', node, f.module)
            ctx.ob('C13.inval', f'{f.fq}:returns-inval', not bad, f'in-value carriers {sorted(c for c in carriers if c)}', f.node, f.module)
    ctx.require(n >= 60, 'C13.inval', f'only {n} embedding generators found')
    p = base.methods['__embed__']
    ctx.ob('C13.inval', f'{p.fq}:default', full(p.node).endswith('return (yield from self.__stream__().__embed__(inval))'),
           'default embedding delegates to a fresh stream', p.node, p.module)
    s = sbase.methods['__embed__']
    ctx.ob('C13.inval', f'{s.fq}:default', 'try: while True: inval = (yield self.next(inval)) except StopStream: return inval' in full(s.node),
           'stream embedding threads the in-value through next() and returns it at the end', s.node, s.module)


def rule_once(ctx):
    ctx.rule('C13.once', 'an accumulator (a local list/dict built by the generator) that has been yielded is rebound before anything '
                         'that can end the stream: otherwise the end-of-stream flush emits the same object a second time')
    base, subs = pattern_classes(ctx)
    n = 0
    for ci in [base] + subs:
        for nm, f in ci.methods.items():
            if not f.is_generator or not (nm == '__embed__' or nm.startswith('_')):
                continue
            acc = set()
            for st in walk_local(f.node):
                if isinstance(st, ast.Assign) and isinstance(st.value, (ast.List, ast.ListComp, ast.Dict, ast.DictComp)) or \
                        (isinstance(st, ast.Assign) and isinstance(st.value, ast.Call) and norm(st.value.func) in ('list', 'dict')):
                    for t in st.targets:
                        if isinstance(t, ast.Name):
                            acc.add(t.id)
            ys = [y for y in walk_local(f.node) if isinstance(y, ast.Yield) and isinstance(y.value, ast.Name) and y.value.id in acc]
            if not ys:
                continue
            n += 1

            def mr(node):
                for c in U.calls(node):
                    if U.method_name(c) == 'next':
                        return ['StopStream']
                return False
            bad = None
            try:
                paths = enumerate_paths(f.node, may_raise=mr, unroll=2, max_paths=80000, repo=ctx.repo)
            except Exception:
                paths = []
            for ev, out in paths:
                emitted = {}
                for k, node, x in ev:
                    if k != 'stmt':
                        continue
                    yv = None
                    if isinstance(node, (ast.Assign, ast.Expr)) and isinstance(node.value, ast.Yield) and isinstance(node.value.value, ast.Name):
                        yv = node.value.value.id
                    if yv in acc:
                        if emitted.get(yv):
                            bad = (node, yv)
                            break
                        emitted[yv] = True
                    if isinstance(node, ast.Assign):
                        for t in node.targets:
                            if isinstance(t, ast.Name) and t.id in acc and not (yv == t.id):
                                emitted[t.id] = False
                if bad:
                    break
            ctx.ob('C13.once', f'{f.fq}:yield-once', bad is None,
                   (f'`{norm(bad[0])}` can emit the list {bad[1]!r} a second time: it was already yielded and is not rebound before a call that can '
                    f'end the stream (the end-of-stream flush repeats the last chunk)') if bad else f'accumulators {sorted(acc)} are rebound after each yield',
                   bad[0] if bad else f.node, f.module)
    ctx.require(n >= 1, 'C13.once', 'no accumulator-yielding generator found (Pclump vanished?)')


INDEXED = ('Pseq', 'Pser', 'Pswitch', 'Pswitch1', 'Place', 'Placep', 'Pslide', 'Prand', 'Pxrand', 'Pwrand')


def _index_ok(idx, fnode, node):
    """accepted forms of a computed index into the pattern's list: reduced modulo the size, drawn from [0, size), clipped
    from 0, or guarded on both sides (`0 <= i < size`) by an enclosing test"""
    src = norm(idx)
    if re.search(r'% (size|len\(\w+\))\)?$', src) or re.match(r'bi\.(mod|wrap|fold)\(', src) or re.match(r'bi\.rand\(size\)$', src) \
            or re.match(r'bi\.clip\([^,]+, 0, ', src):
        return True
    if isinstance(idx, ast.Name):
        defs = [n for n in walk_local(fnode) if isinstance(n, ast.Assign) and len(n.targets) == 1 and norm(n.targets[0]) == idx.id]
        loops = [n for n in walk_local(fnode) if isinstance(n, ast.For) and norm(n.target) == idx.id]
        if loops and all(norm(l.iter).startswith('range(') for l in loops) and not defs:
            return True
        vals = [d.value for d in defs if not (isinstance(d.value, ast.Constant) and d.value.value is None)]
        if vals and all(_index_ok(v, fnode, node) or re.match(r'bi\.choices\(ilst, ', norm(v)) for v in vals):
            return True
    for p in U.parent_chain(node):
        if isinstance(p, ast.If) and U.in_body(node, p, 'body'):
            t = norm(p.test)
            if re.search(rf'\b0 <= {re.escape(src)} < (size|len\(\w+\))', t):
                return True
        if isinstance(p, ast.FunctionDef):
            break
    return False


def rule_inval_source(ctx):
    ctx.rule('C13.inval', 'the in-value of an __embed__ generator is what the consumer sent: it is rebound only from yields and embeds, never from '
                          'a value read out of a source stream (`inval = stream.next(...)` feeds the source\'s own output back to it)')
    n = 0
    for fi in sorted(ctx.repo.functions.values(), key=lambda f: f.fq):
        if not fi.module.name.startswith('sc3.seq.patterns') or fi.name != '__embed__' or len(fi.params) < 2:
            continue
        iv = fi.params[1]
        n += 1
        bad = [norm(x) for x in walk_local(fi.node) if isinstance(x, ast.Assign) and any(isinstance(t, ast.Name) and t.id == iv for t in x.targets)
               and isinstance(x.value, ast.Call) and isinstance(x.value.func, ast.Attribute) and x.value.func.attr == 'next']
        ctx.ob('C13.inval', f'{fi.fq}:in-value-from-consumer', not bad,
               f'{fi.qualname} rebinds its in-value with {bad}: the next element is polled with an output of the source instead of the value '
               f'the consumer sent', fi.node, fi.module)
    ctx.require(n >= 40, 'C13.inval', f'only {n} __embed__ generators found')


def rule_working(ctx):
    ctx.rule('C13.once', 'a generator never hands out (yields, or passes bare to the function whose result it yields) a list that it goes on '
                         'writing by index: every item collected from the stream would be that one list in its final state')
    n = 0
    for fi in sorted(ctx.repo.functions.values(), key=lambda f: f.fq):
        if not fi.module.name.startswith('sc3.seq.patterns'):
            continue
        ys = [x for x in walk_local(fi.node) if isinstance(x, ast.Yield) and x.value is not None]
        if not ys:
            continue
        written = {t.value.id for x in walk_local(fi.node) if isinstance(x, (ast.Assign, ast.AugAssign))
                   for t in (x.targets if isinstance(x, ast.Assign) else [x.target])
                   if isinstance(t, ast.Subscript) and isinstance(t.value, ast.Name)
                   and any(isinstance(p_, (ast.For, ast.While)) for p_ in U.parent_chain(x))}   # 'keeps writing': the store is on a way round
        # ... and that it does not make anew on the way round: a name bound inside a loop is a fresh object per item
        rebound = {t.id for lp in walk_local(fi.node) if isinstance(lp, (ast.For, ast.While)) for x in ast.walk(lp)
                   if isinstance(x, ast.Assign) for t in x.targets if isinstance(t, ast.Name)}
        rebound |= {n_.id for lp in walk_local(fi.node) if isinstance(lp, ast.For) for n_ in ast.walk(lp.target) if isinstance(n_, ast.Name)}
        written -= rebound
        n += 1
        for y in ys:
            bare = set()
            if isinstance(y.value, ast.Name):
                bare.add(y.value.id)
            if isinstance(y.value, ast.Call):
                bare |= {a.id for a in y.value.args if isinstance(a, ast.Name)}
            hit = sorted(bare & written)
            ctx.ob('C13.once', f'{fi.fq}:{norm(y)[:50]}:working-list', not hit,
                   f'{norm(y)[:60]} hands out {hit}, a list this generator keeps writing by index: the items of the sequence alias one object', y, fi.module)
    ctx.require(n >= 40, 'C13.once', f'only {n} generators analysed')


def rule_stop(ctx):
    ctx.rule('C13.inval', 'inside a generator body every read of a stream (`<stream>.next(...)`) is lexically inside a try whose handler '
                          'catches StopStream: StopStream is a StopIteration, and one that escapes a generator body surfaces as '
                          'RuntimeError and kills every enclosing pattern instead of ending this one')
    n = 0
    for fi in sorted(ctx.repo.functions.values(), key=lambda f: f.fq):
        if not fi.module.name.startswith('sc3.seq'):
            continue
        if not any(isinstance(x, (ast.Yield, ast.YieldFrom)) for x in walk_local(fi.node)):
            continue
        for c in U.calls(fi.node):
            if not (isinstance(c.func, ast.Attribute) and c.func.attr == 'next'):
                continue
            n += 1
            guarded = any(isinstance(p_, ast.Try) and U.in_body(c, p_, 'body') and any(
                h.type is None or any(t in norm(h.type) for t in ('StopStream', 'StopIteration', 'BaseException')) or norm(h.type) == 'Exception'
                for h in p_.handlers) for p_ in U.parent_chain(c))
            ctx.ob('C13.inval', f'{fi.fq}:{norm(c)}:inside-stop-guard', guarded,
                   f'{norm(c)} in the generator {fi.qualname} is outside every `try ... except StopStream`: when that stream is empty the '
                   f'pattern does not end, it raises RuntimeError (PEP 479)', c, fi.module)
    ctx.require(n >= 60, 'C13.inval', f'only {n} stream reads in generator bodies found')


def rule_index(ctx):
    ctx.rule('C13.index', 'a computed index into a list pattern\'s list is reduced modulo the size, drawn from [0, size) or guarded on '
                          'both sides (a negative index silently reads from the end); the Pseq-family offset is reduced modulo the size '
                          'before the list is rotated by slicing')
    m = ctx.repo.module('sc3.seq.patterns.listpatterns')
    n = 0
    for cname in INDEXED:
        ci = m.classes.get(cname)
        ctx.require(ci is not None, 'C13.index', f'{cname} vanished')
        e = ci.methods.get('__embed__')
        if e is None:
            continue
        for x in walk_local(e.node):
            if isinstance(x, ast.Subscript) and isinstance(x.ctx, ast.Load) and not isinstance(x.slice, ast.Slice) \
                    and norm(x.value) in ('lst', 'self.lst', 'stream_lst') and not isinstance(x.slice, ast.Constant):
                n += 1
                ctx.ob('C13.index', f'{e.fq}:{norm(x)}', _index_ok(x.slice, e.node, x),
                       f'{norm(x)}: the index can be negative or past the end without being wrapped or refused', x, m)
    # a bounds-guarded (no-wrap) read ends the pattern at the first index outside the list: the position it tests must then be the
    # unreduced running sum of the steps; reducing the position modulo the size brings every overrun back inside and the guard never fires
    sl = m.classes['Pslide'].methods['__embed__']
    guards = [c for c in walk_local(sl.node) if isinstance(c, ast.Compare) and all(isinstance(o, (ast.Lt, ast.LtE)) for o in c.ops)
              and norm(c.comparators[-1]) in ('size', 'len(lst)', 'len(self.lst)')]
    ctx.require(len(guards) >= 1, 'C13.index', 'Pslide: bounds guard of the no-wrap branch not found')
    gvars = {n_.id for g in guards for n_ in ast.walk(g.comparators[-2] if len(g.comparators) > 1 else g.left) if isinstance(n_, ast.Name)}
    loopvars = {n_.id for f_ in walk_local(sl.node) if isinstance(f_, ast.For) for n_ in ast.walk(f_.target) if isinstance(n_, ast.Name)}
    state = gvars - loopvars
    bad = []
    for x in walk_local(sl.node):
        tgt = val = None
        if isinstance(x, ast.Assign) and isinstance(x.targets[0], ast.Name):
            tgt, val = x.targets[0].id, x.value
        elif isinstance(x, ast.AugAssign) and isinstance(x.target, ast.Name):
            tgt, val = x.target.id, x.value
            if isinstance(x.op, ast.Mod):
                bad.append(norm(x))
        if tgt in state and val is not None:
            reduced = any(isinstance(y, ast.BinOp) and isinstance(y.op, ast.Mod) for y in ast.walk(val)) or \
                any(isinstance(y, ast.Call) and (U.method_name(y) or U.call_name(y) or '').split('.')[-1] in ('mod', 'wrap', 'fold', 'clip') for y in ast.walk(val))
            under_wrap = any(isinstance(p_, ast.If) and norm(p_.test) in ('wrap', 'self.wrap') and U.in_body(x, p_, 'body') for p_ in U.parent_chain(x))
            if reduced and not under_wrap:
                bad.append(norm(x))
    ctx.ob('C13.index', f'{sl.fq}:position-unreduced', bool(state) and not bad,
           f'the position tested by the no-wrap guard ({sorted(state)}) is reduced into the list by {bad}: a segment start that steps outside '
           f'the list no longer ends the pattern', sl.node, m)
    ps = m.classes['Pseq'].methods['__init__']
    op = ps.params[3]
    ok = f'self.offset = int({op}) % len(self.lst)' in full(ps.node)
    ctx.ob('C13.index', f'{ps.fq}:offset-cyclic', ok, 'the offset is reduced modulo the list size (the rotation lst[o:] + lst[:o] is cyclic only '
                                                      'for |o| < size; Pser indexes modulo the size)', ps.node, m)
    # the offset is applied exactly once on the way from the constructor to the yielded items
    rot = [x for x in walk_local(ps.node) if isinstance(x, ast.Assign) and any(U.is_self_attr(t, 'lst') for t in x.targets)]
    pseq = m.classes['Pseq']
    for ci in [pseq] + sorted(ctx.repo.subclasses(pseq, strict=True), key=lambda c: c.fq):
        e = ctx.repo.resolve_method(ci, '__embed__')
        uses = any(U.is_self_attr(x, 'offset') for x in ast.walk(e.node))
        ctx.ob('C13.index', f'{ci.fq}:offset-applied-once', bool(rot) != uses,
               f'{ci.name}: the constructor {"rotates" if rot else "does not rotate"} the list by the offset and __embed__ '
               f'{"applies" if uses else "does not apply"} it {"again" if rot and uses else ""}', e.node, e.module)
    ctx.require(n >= 8, 'C13.index', f'only {n} computed list indexes found')


def rule_series(ctx):
    ctx.rule('C13.once', 'Pseries and Pgeom end with their shortest parameter: in each turn of the loop the step (grow) stream is polled before '
                         'the value is emitted, so a step pattern of n items gives n values (polled after the yield it gives n + 1, and the '
                         'extra item is embedded in every enclosing pattern)')
    for cfq in ('sc3.seq.patterns.valuepatterns:Pseries', 'sc3.seq.patterns.valuepatterns:Pgeom'):
        f = ctx.repo.func(cfq + '.__embed__')
        loops = [l for l in walk_local(f.node) if isinstance(l, (ast.For, ast.While))]
        ctx.require(len(loops) == 1, 'C13.once', f'{cfq}.__embed__: loop not found')
        body = loops[0].body
        polls = [i for i, st in enumerate(body) if any(isinstance(c.func, ast.Attribute) and c.func.attr == 'next' for c in U.calls(st))]
        yields = [i for i, st in enumerate(body) if any(isinstance(y, ast.Yield) for y in ast.walk(st))]
        ok = bool(polls) and bool(yields) and max(polls) < min(yields)
        ctx.ob('C13.once', f'{f.fq}:polls-before-it-yields', ok,
               f'statement positions in the loop: parameter polled at {polls}, value yielded at {yields}: the poll must come first (it is what '
               f'ends the sequence with the parameter)', loops[0], f.module)


def rule_embed_item(ctx):
    ctx.rule('C13.fresh', 'what a generator embeds on each turn of a loop is the item itself (a pattern gives a fresh stream each time it is '
                          'embedded), not a stream made once before the loop: the second time round such a stream is exhausted and '
                          'contributes nothing')
    n = 0
    for fi in sorted(ctx.repo.functions.values(), key=lambda f: f.fq):
        if not fi.module.name.startswith('sc3.seq.patterns'):
            continue
        loops = [l for l in walk_local(fi.node) if isinstance(l, (ast.For, ast.While))]
        if not loops:
            continue
        meths = fi.cls.methods if fi.cls else {}

        def makes_streams(v):
            for c in U.calls(v):
                if norm(c.func) in ('stm.stream', 'stream'):
                    return True
                if U.is_self_attr(c.func) and c.func.attr in meths:
                    for r in walk_local(meths[c.func.attr].node):
                        if isinstance(r, ast.Return) and r.value is not None and any(norm(c2.func) in ('stm.stream', 'stream') for c2 in U.calls(r.value)):
                            return True
            return False
        for l in loops:
            inside = {id(x) for x in ast.walk(l)}
            for c in U.calls(l):
                if norm(c.func) not in ('stm.embed', 'embed') or not c.args:
                    continue
                n += 1
                bad = []
                for nm in set(U.names_in(c.args[0])):
                    for a in walk_local(fi.node):
                        if isinstance(a, ast.Assign) and id(a) not in inside and any(isinstance(t, ast.Name) and t.id == nm for t in a.targets) \
                                and makes_streams(a.value):
                            bad.append(f'{nm} = {norm(a.value)[:50]}')
                ctx.ob('C13.fresh', f'{fi.fq}:{norm(c)[:50]}:embeds-the-item', not bad,
                       f'{norm(c)[:60]} embeds, on every turn, from {bad}: streams made once before the loop; an item selected a second time '
                       f'is already exhausted', c, fi.module)
    ctx.require(n >= 10, 'C13.fresh', f'only {n} embeds inside loops found')


def rule_stays_ended(ctx):
    ctx.rule('C13.once', 'a pattern stream that has ended stays ended: the attribute whose None means "not started yet" is written in next() '
                         'only inside the start branch (reset() and __init__ are the other writers), so polling past the end raises again '
                         'instead of embedding the pattern from the beginning')
    n = 0
    for cfq in ('sc3.seq.eventstream:PatternValueStream', 'sc3.seq.eventstream:PatternEventStream'):
        ci = ctx.repo.cls(cfq)
        f = ci.methods.get('next')
        if f is None:
            continue
        starts = [x for x in walk_local(f.node) if isinstance(x, ast.If) and isinstance(x.test, ast.Compare) and len(x.test.ops) == 1
                  and isinstance(x.test.ops[0], ast.Is) and U.is_self_attr(x.test.left) and isinstance(x.test.comparators[0], ast.Constant) and x.test.comparators[0].value is None]
        ctx.require(len(starts) == 1, 'C13.once', f'{cfq}.next: start test (`if self.<stream> is None`) not found')
        attr = starts[0].test.left.attr
        n += 1
        outside = [norm(x)[:60] for x in walk_local(f.node) if isinstance(x, (ast.Assign, ast.AugAssign, ast.Delete))
                   for t in (x.targets if isinstance(x, (ast.Assign, ast.Delete)) else [x.target]) if U.is_self_attr(t, attr)
                   and not U.in_body(x, starts[0], 'body')]
        ctx.ob('C13.once', f'{f.fq}:stays-ended', not outside,
               f'{ci.name}.next writes self.{attr} outside the start branch ({outside}): after the end the stream counts as not started and the '
               f'next poll re-embeds the pattern', f.node, f.module)
    ctx.require(n == 2, 'C13.once', f'{n} pattern stream classes analysed')


def run(ctx):
    from ..report import SubCtx
    from . import c10
    sub_c10 = SubCtx(ctx, 'C13.rng', "random patterns denote their sequence only if a routine's random stream depends on its own seed alone, as decided for C10")
    c10.rule_rng(sub_c10)
    from . import c15
    rule_index(ctx)
    c15.rule_order(ctx, rid='C13.ops', families=[f for f in c15.FAMILIES if f[0].startswith('sc3.seq.pattern')], least=5)
    rule_once(ctx)
    rule_stays_ended(ctx)
    rule_embed_item(ctx)
    rule_series(ctx)
    rule_wf(ctx)
    rule_pure(ctx)
    rule_fresh(ctx)
    rule_inval(ctx)
    rule_stop(ctx)
    rule_inval_source(ctx)
    rule_working(ctx)


MUTANTS = [
    dict(rule='C13.fresh', name='Pswitch embeds streams of its items made once per embedding (seed C13-k)', file='sc3/seq/patterns/listpatterns.py',
         old="                inval = yield from stm.embed(lst[indx % size], inval)\n",
         new="                inval = yield from stm.embed(stream_lst[indx % size], inval)\n",
         edits=[('sc3/seq/patterns/listpatterns.py', "        lst = self.lst\n        size = len(lst)\n        indx_stream = stm.stream(self.which)\n        indx = None\n        try:\n            while True:\n                indx = indx_stream.next(inval)  # raises StopStream\n                inval = yield from stm.embed(lst[indx % size], inval)\n",
                 "        stream_lst = [stm.stream(i) for i in self.lst]\n        size = len(stream_lst)\n        indx_stream = stm.stream(self.which)\n        indx = None\n        try:\n            while True:\n                indx = indx_stream.next(inval)  # raises StopStream\n                inval = yield from stm.embed(stream_lst[indx % size], inval)\n")]),
    dict(rule='C13.once', name='Pseries emits the value before it polls the step (seed C13-j)', file='sc3/seq/patterns/valuepatterns.py',
         old="                stepval = step_stream.next(inval)\n                outval = cur\n                cur += stepval\n                inval = yield outval\n",
         new="                inval = yield cur\n                cur += step_stream.next(inval)\n"),
    dict(rule='C13.once', name='an exhausted value stream drops its generator and restarts on the next poll (seed C13-i)', file='sc3/seq/eventstream.py',
         old="                return self._stream.send(inval)\n        except StopIteration:\n            raise stm.StopStream from None",
         new="                return self._stream.send(inval)\n        except StopIteration:\n            self._stream = None\n            raise stm.StopStream from None"),
    dict(rule='C13.inval', name='(fix reverted) Pchain threads the chained output through the name of the in-event', file='sc3/seq/patterns/eventpatterns.py',
         old="                outevent = inevent.copy()\n                for stream in streams:\n                    outevent = stream.next(outevent)\n                inevent = yield outevent",
         new="                inevent = inevent.copy()\n                for stream in streams:\n                    inevent = stream.next(inevent)\n                inevent = yield inevent"),
    dict(rule='C13.inval', name='Pdrop feeds the dropped output back as in-value (fix reverted)', file='sc3/seq/patterns/filterpatterns.py',
         old="                stream.next(inval)  # The dropped value is not the in value.", new="                inval = stream.next(inval)"),
    dict(rule='C13.once', name='Pproduct yields its working list (fix reverted)', file='sc3/seq/patterns/funcpatterns.py',
         old="                    inval = yield self.func(values[:])", new="                    inval = yield self.func(values)"),
    dict(rule='C13.inval', name='Pdiff primes its source outside the StopStream guard (seed C13-g)', file='sc3/seq/patterns/filterpatterns.py',
         old="        try:\n            prev = stream.next(inval)\n            while True:", new="        prev = stream.next(inval)\n        try:\n            while True:"),
    dict(rule='C13.inval', name='Pwalk primes its directions outside the guard (fix reverted)', file='sc3/seq/patterns/listpatterns.py',
         old="\n        try:\n            direction = direction_stream.next(inval)  # raises StopStream\n", new="        direction = direction_stream.next(inval)\n\n        try:\n"),
    dict(rule='C13.index', name='Pslide keeps its position reduced modulo the size (seed C13-e)', file='sc3/seq/patterns/listpatterns.py',
         old="                pos += step_stream.next(inval)  # raises StopStream", new="                pos = bi.mod(pos + step_stream.next(inval), size)  # raises StopStream"),
    dict(rule='C13.index', name='Pseq rotates its list in the constructor, subclasses rotate again (seed C13-c)', file='sc3/seq/patterns/listpatterns.py',
         old="        self.offset = int(offset) % len(self.lst)\n", new="        self.offset = int(offset) % len(self.lst)\n        if self.offset:\n            self.lst = self.lst[self.offset:] + self.lst[:self.offset]\n"),
    dict(rule='C13.inval', name='(fix reverted) Pshuffle embeds without the in-value', file='sc3/seq/patterns/listpatterns.py',
         old="                inval = yield from stm.embed(item, inval)\n        return inval\n\n\nclass Prand", new="                inval = yield from stm.embed(item)\n        return inval\n\n\nclass Prand"),
    dict(rule='C13.index', name='(fix reverted) Pseq offset not reduced modulo the size', file='sc3/seq/patterns/listpatterns.py',
         old="        self.offset = int(offset) % len(self.lst)", new="        self.offset = int(offset)"),
    dict(rule='C13.index', name='(fix reverted) Pslide without wrap only tests the upper end', file='sc3/seq/patterns/listpatterns.py',
         old="                        if 0 <= pos + j < size:", new="                        if pos + j < size:"),
    dict(rule='C13.index', name='Pswitch indexes without wrapping', file='sc3/seq/patterns/listpatterns.py',
         old="                inval = yield from stm.embed(lst[indx % size], inval)", new="                inval = yield from stm.embed(lst[indx], inval)"),
    dict(rule='C13.ops', name='Pbinop.__embed__ shortcut swaps operands for a number on the left (seed C15-b)', file='sc3/seq/pattern.py',
         old='        # NOTE: See BinaryOpXStream implementation options. Class is not\n        # defined.\n\n', new='        # NOTE: See BinaryOpXStream implementation options. Class is not\n        # defined.\n\n    def __embed__(self, inval=None):\n        if isinstance(self.b, (int, float)):\n            stream, number = stm.stream(self.a), self.b\n        elif isinstance(self.a, (int, float)):\n            stream, number = stm.stream(self.b), self.a\n        else:\n            return (yield from super().__embed__(inval))\n        try:\n            while True:\n                inval = yield self.selector(stream.next(inval), number)\n        except stm.StopStream:\n            return inval\n\n'),
    dict(rule='C13.ops', name='Pnarop.__embed__ polls only pattern arguments, constants appended last (seed C13-b)', file='sc3/seq/pattern.py',
         old="        stream_lst = [stm.stream(x) for x in self.args]\n        try:\n            while True:\n                a = stream_a.next(inval)\n                args = [x.next(inval) for x in stream_lst]\n                inval = yield self.selector(a, *args)",
         new="        stream_lst = [stm.stream(x) for x in self.args if hasattr(x, '__stream__')]\n        const_lst = [x for x in self.args if not hasattr(x, '__stream__')]\n        try:\n            while True:\n                a = stream_a.next(inval)\n                args = [x.next(inval) for x in stream_lst]\n                inval = yield self.selector(a, *args, *const_lst)"),
    dict(rule='C13.wf', name='new pattern class with neither method', file='sc3/seq/patterns/listpatterns.py',
         old="class Pser(Pseq):", new="class Pnothing(ptt.Pattern):\n    def __init__(self, x):\n        self.x = x\n\n\nclass Pser(Pseq):"),
    dict(rule='C13.pure', name='Pseq.__embed__ advances self.offset', file='sc3/seq/patterns/listpatterns.py',
         old="        lst = self.lst\n        offset = self.offset\n        for _ in bi.counter(self.repeats):\n            for item in lst[offset:]:",
         new="        lst = self.lst\n        offset = self.offset\n        self.offset += 1\n        for _ in bi.counter(self.repeats):\n            for item in lst[offset:]:"),
    dict(rule='C13.pure', name='alias of self.lst popped', file='sc3/seq/patterns/listpatterns.py',
         old="        lst = self.lst\n        offset = self.offset\n        size = len(lst)\n", new="        lst = self.lst\n        offset = self.offset\n        lst.pop()\n        size = len(lst)\n"),
    dict(rule='C13.pure', name='shuffle in place on pattern list', file='sc3/seq/patterns/listpatterns.py',
         old="bi.shuffle(slist)", new="bi.shuffle(self.lst)"),
    dict(rule='C13.fresh', name='__init__ stores a stream', file='sc3/seq/patterns/listpatterns.py',
         old="        self.lst = lst\n        self.which = which\n", new="        self.lst = lst\n        self.which = stm.stream(which)\n"),
    dict(rule='C13.fresh', name='__init__ stores a generator expression', file='sc3/seq/patterns/eventpatterns.py',
         old="        self.patterns = list(patterns)", new="        self.patterns = (p for p in patterns)", count=2),
    dict(rule='C13.inval', name='bare return at the end of Pseq.__embed__', file='sc3/seq/patterns/listpatterns.py',
         old="            for item in lst[:offset]:\n                inval = yield from stm.embed(item, inval)\n        return inval", new="            for item in lst[:offset]:\n                inval = yield from stm.embed(item, inval)\n        return"),
    dict(rule='C13.inval', name='Pser falls off the end', file='sc3/seq/patterns/listpatterns.py',
         old="            inval = yield from stm.embed(lst[(i + offset) % size], inval)\n        return inval", new="            inval = yield from stm.embed(lst[(i + offset) % size], inval)"),
    dict(rule='C13.inval', name='returns a stale value', file='sc3/seq/patterns/listpatterns.py',
         old="        except stm.StopStream:\n            return inval\n\n    # storeArgs\n\n\nclass Pswitch1", new="        except stm.StopStream:\n            return indx\n\n    # storeArgs\n\n\nclass Pswitch1"),
    dict(rule='C13.inval', name='(fix reverted) Pdelta drops the in-value', file='sc3/seq/patterns/filterpatterns.py',
         old="            inevent = yield evt.silent(self.time, inevent)", new="            yield evt.silent(self.time, inevent)"),
    dict(rule='C13.inval', name='(fix reverted) Pproduct does not return the in-value', file='sc3/seq/patterns/funcpatterns.py',
         old="        return (yield from self._recgen(\n            inval, 0, max_level, patterns, streams, values))", new="        yield from self._recgen(inval, 0, max_level, patterns, streams, values)"),
    dict(rule='C13.inval', name='(fix reverted) Prout sends a stale in-value', file='sc3/seq/patterns/funcpatterns.py',
         old="                    inval = yield iterator.send(inval)", new="                    yield iterator.send(inval)"),
    dict(rule='C13.once', name='Pclump resets its list after drawing the size', file='sc3/seq/patterns/filterpatterns.py',
         old="                lst = []\n                n = n_stream.next(inval)\n                for _ in range(int(n)):", new="                n = n_stream.next(inval)\n                lst = []\n                for _ in range(int(n)):"),
]

REPAIRS = []


EQUIV = [
    dict(name='Pseries polls its step first and keeps the value to emit in one temporary', file='sc3/seq/patterns/valuepatterns.py',
         old="                stepval = step_stream.next(inval)\n                outval = cur\n                cur += stepval\n                inval = yield outval\n",
         new="                stepval = step_stream.next(inval)\n                outval, cur = cur, cur + stepval\n                inval = yield outval\n"),
    dict(name='Pbinop.__embed__ shortcut with the operands in order on both arms', file='sc3/seq/pattern.py',
         old='        # NOTE: See BinaryOpXStream implementation options. Class is not\n        # defined.\n\n', new='        # NOTE: See BinaryOpXStream implementation options. Class is not\n        # defined.\n\n    def __embed__(self, inval=None):\n        if isinstance(self.b, (int, float)):\n            stream, number = stm.stream(self.a), self.b\n            try:\n                while True:\n                    inval = yield self.selector(stream.next(inval), number)\n            except stm.StopStream:\n                return inval\n        elif isinstance(self.a, (int, float)):\n            stream, number = stm.stream(self.b), self.a\n            try:\n                while True:\n                    inval = yield self.selector(number, stream.next(inval))\n            except stm.StopStream:\n                return inval\n        else:\n            return (yield from super().__embed__(inval))\n\n'),
]
