"""C09 - time-ordered collections are stable priority queues under any history."""

import ast

from ..loader import norm, full, walk_local, walk_local_ordered, dump_name, qualname_of
from .. import util as U
from ..flow import enumerate_paths

EXPLANATION = (
    'TaskQueue is analysed as a tiny abstract machine. Roles are bound from the code: H = the list handed to '
    'heapq.heappush/heappop, F = the dict indexed by task, R = the other quantity empty() subtracts. For every '
    'mutator every path is enumerated and its effect on the ghost counters (|H|, R, |F|) computed; each path must '
    'preserve |H| - R = |F| (an inductive invariant: with empty() == (|H| - R == 0) it proves that emptiness agrees '
    'with the contents and that an item is present at most once, for every history). Heap entries must be '
    '[priority, monotonic counter, task] with only the task slot ever overwritten; the four fields must be private '
    'to the class; and every peek()/pop() in the library must be dominated by an emptiness test on the same queue, '
    'an add to it, or a KeyError handler.')
LEVEL_TEXT = ('static inductive invariant over all mutator paths (effect counters), entry-shape and ownership rules, '
              'use-site domination for every peek/pop in the library. Heap order itself is trusted to heapq.')
LEVEL_NOTE = 'assumes priorities are mutually comparable (heappush does not raise); heapq semantics trusted'
LEVEL_TEXT_ADD = ' Also: per-insertion items may override equality only by identity of wrapped objects.'
LEVEL_TEXT_ADD += ' Rounds e-f: a loop over a live queue only reads (draining by running uses pop).'
LEVEL_TEXT = (globals().get('LEVEL_TEXT') or EXPLANATION) + LEVEL_TEXT_ADD
TECHNIQUE = 'static analysis: effect-counter abstract interpretation over enumerated paths (inductive invariant) + ownership/use-site rules'


def bind_roles(ctx):
    tq = ctx.repo.cls('sc3.base._taskq:TaskQueue')
    H = F = R = C = None
    for f in tq.methods.values():
        for c in U.calls(f.node):
            if U.call_name(c) in ('heapq.heappush', 'heapq.heappop') and c.args and U.is_self_attr(c.args[0]):
                H = c.args[0].attr
    emp = tq.methods.get('empty')
    ctx.require(emp is not None and H is not None, 'C09.inv', 'cannot bind heap list / empty()')
    ret = [s for s in walk_local(emp.node) if isinstance(s, ast.Return)][0].value
    for n in ast.walk(ret):
        if U.is_self_attr(n) and n.attr != H:
            R = n.attr
    add = tq.methods['add']
    for s in walk_local(add.node):
        if isinstance(s, ast.Assign) and isinstance(s.targets[0], ast.Subscript) and U.is_self_attr(s.targets[0].value):
            F = s.targets[0].value.attr
        if isinstance(s, ast.Assign) and isinstance(s.value, ast.Call) and norm(s.value.func) == 'next' and U.is_self_attr(s.value.args[0]):
            C = s.value.args[0].attr
    if R is None:
        for s in walk_local(tq.methods['remove'].node):
            if isinstance(s, ast.AugAssign) and U.is_self_attr(s.target):
                R = s.target.attr
    if C is None:
        for f in tq.methods.values():
            for s in walk_local(f.node):
                if isinstance(s, ast.Assign) and norm(s.value) == 'itertools.count()' and U.is_self_attr(s.targets[0]):
                    C = s.targets[0].attr
    ctx.require(F and R and C, 'C09.inv', f'cannot bind roles F={F} R={R} C={C}')
    return tq, H, F, R, C


def effects_of(tq, fname, H, F, R, summaries, depth=0, unroll=1):
    """-> list of (dH, dR, dF, outcome, note) per path; raises on unknown membership"""
    f = tq.methods[fname]
    param_task = f.params[1] if len(f.params) > 1 else None

    def may_raise(s):
        # only F.pop(k) is modelled as raising KeyError (lookup of an absent key)
        for c in U.calls(s):
            if U.method_name(c) == 'pop' and U.is_self_attr(c.func.value, F):
                return True
        return False
    res = []
    for ev, out in enumerate_paths(f.node, may_raise=may_raise, unroll=unroll):
        dH = dR = dF = 0
        member = None   # knowledge about `task in F`
        notes = []
        reset = set()
        bad = None
        alts = [(0, 0, 0)]

        def add_all(dh, dr, df):
            nonlocal alts
            alts = [(a + dh, b + dr, c + df) for a, b, c in alts]
        for k, node, x in ev:
            if k == 'test':
                cp = U.compare_parts(node)
                if cp and cp[1] is ast.In and U.is_self_attr(cp[2], F):
                    member = bool(x)
                continue
            if k == 'exc':
                # F.pop(key) raised KeyError: nothing changed by this statement
                member = False
                continue
            if k not in ('stmt', 'return'):
                continue
            stmt = node
            for c in U.calls(stmt):
                cn = U.call_name(c)
                if cn == 'heapq.heappush' and U.is_self_attr(c.args[0], H):
                    add_all(1, 0, 0)
                elif cn == 'heapq.heappop' and U.is_self_attr(c.args[0], H):
                    add_all(-1, 0, 0)
                elif U.method_name(c) == 'pop' and U.is_self_attr(c.func.value, F):
                    add_all(0, 0, -1)
                    member = False
                elif U.is_self_attr(c.func) and c.func.attr in tq.methods and c.func.attr in summaries:
                    # inline callee summaries (all alternatives, filtered by membership knowledge)
                    subs = summaries[c.func.attr]
                    if member is True:
                        subs = [s for s in subs if not s[4]] or subs     # s[4]: path took the KeyError arm
                    if member is False:
                        subs = [s for s in subs if s[4]] or subs
                    new = []
                    for a, b, cc in alts:
                        for s in subs:
                            new.append((a + s[0], b + s[1], cc + s[2]))
                    alts = sorted(set(new))
                    if c.func.attr == 'remove':
                        member = False
                    if any(s[5] for s in subs):
                        reset |= {H, F, R}
                elif U.is_self_attr(c.func) and c.func.attr in tq.methods:
                    bad = f'calls self.{c.func.attr}() whose effect is unknown'
                elif U.method_name(c) in ('append', 'extend', 'insert', 'remove', 'clear', 'sort', 'popitem', 'update', 'setdefault') \
                        and isinstance(c.func, ast.Attribute) and U.is_self_attr(c.func.value) and c.func.value.attr in (H, F):
                    bad = f'mutates self.{c.func.value.attr} through {U.method_name(c)}()'
            if isinstance(stmt, ast.Assign):
                for t in stmt.targets:
                    if isinstance(t, ast.Subscript) and U.is_self_attr(t.value, F):
                        if member is False:
                            add_all(0, 0, 1)
                        elif member is True:
                            notes.append('overwrites an existing index entry')
                        else:
                            bad = 'assigns into the task index without knowing whether the task is already present'
                        member = True
                    elif U.is_self_attr(t, H) or U.is_self_attr(t, F) or U.is_self_attr(t, R):
                        v = stmt.value
                        empty = (isinstance(v, (ast.List, ast.Dict)) and not (getattr(v, 'elts', None) or getattr(v, 'keys', None))) or \
                                (isinstance(v, ast.Constant) and v.value == 0)
                        if empty:
                            reset.add(t.attr)
                        else:
                            bad = f'assigns self.{t.attr} = {norm(v)}'
            elif isinstance(stmt, ast.AugAssign) and U.is_self_attr(stmt.target, R) and U.is_num(stmt.value):
                n = U.num_value(stmt.value)
                add_all(0, n if isinstance(stmt.op, ast.Add) else -n, 0)
            elif isinstance(stmt, ast.AugAssign) and (U.is_self_attr(stmt.target, H) or U.is_self_attr(stmt.target, F)):
                bad = f'augmented assignment to self.{stmt.target.attr}'
            elif isinstance(stmt, ast.Delete):
                for t in stmt.targets:
                    if isinstance(t, ast.Subscript) and U.is_self_attr(t.value, F):
                        add_all(0, 0, -1)
        took_keyerror = any(k == 'except' for k, n, x in ev)
        full_reset = reset >= {H, F, R}
        for a, b, c in alts:
            res.append((a, b, c, out[0], took_keyerror, full_reset, bad, sorted(reset)))
    return res


def rule_inv(ctx):
    ctx.rule('C09.inv', 'every path of every TaskQueue mutator preserves |H| - R = |F| (or resets all three); '
                        'empty() is (|H| - R) == 0')
    tq, H, F, R, C = bind_roles(ctx)
    mod = tq.module
    emp = tq.methods['empty']
    ret = [s for s in walk_local(emp.node) if isinstance(s, ast.Return)][0].value
    ctx.ob('C09.inv', f'{mod.name}:TaskQueue.empty', norm(ret) == f'len(self.{H}) - self.{R} == 0',
           f'empty() must be len(H) - R == 0; found {norm(ret)}', emp.node, mod)
    order = ['_init', 'remove', 'add', 'pop', 'clear']
    summaries = {}
    mutators = [m for m in order if m in tq.methods]
    # any other method that touches H/F/R as a store is a mutator too
    for name, f in tq.methods.items():
        if name in mutators or name == '__init__':
            continue
        writes = False
        for s in walk_local(f.node):
            for t in U.assigned_targets(s) if isinstance(s, (ast.Assign, ast.AugAssign, ast.Delete)) else []:
                base = t.value if isinstance(t, ast.Subscript) else t
                if U.is_self_attr(base) and base.attr in (H, F, R):
                    writes = True
            if isinstance(s, ast.Call) and U.call_name(s) in ('heapq.heappush', 'heapq.heappop', 'heapq.heapify', 'heapq.heapreplace', 'heapq.heappushpop'):
                writes = True
        if writes:
            mutators.append(name)
    n = 0
    for name in mutators:
        effs = effects_of(tq, name, H, F, R, summaries, unroll=(3 if ctx.tier == 'thorough' else 1))
        summaries[name] = effs
        f = tq.methods[name]
        for a, b, c, outcome, ke, full_reset, bad, reset in effs:
            n += 1
            key = f'{mod.name}:TaskQueue.{name}:path[dH={a},dR={b},dF={c},{outcome}{",KeyError" if ke else ""}{",reset" if full_reset else ""}]'
            if bad:
                ctx.ob('C09.inv', key, False, f'{name}: {bad}', f.node, mod)
                continue
            if reset and not full_reset:
                ctx.ob('C09.inv', key, False, f'{name} resets only {reset}; the heap, the index and the tombstone count must be reset together', f.node, mod)
                continue
            ok = full_reset or (a - b - c == 0)
            ctx.ob('C09.inv', key, ok,
                   f'{name}: path changes |H| by {a}, tombstones by {b}, index by {c}: |H| - R - |F| changes by {a - b - c} '
                   f'(emptiness/at-most-once invariant broken)' if not ok else f'{name}: invariant preserved', f.node, mod)
    ctx.require(n >= 8, 'C09.inv', f'only {n} mutator paths analysed')
    init = tq.methods['__init__']
    ctx.ob('C09.inv', f'{mod.name}:TaskQueue.__init__', any(U.is_self_attr(c.func, '_init') for c in U.calls(init.node)),
           'a new queue starts in the reset state', init.node, mod)
    # pop returns the popped live entry and raises KeyError when exhausted
    p = tq.methods['pop']
    src = full(p.node)
    ok = f'prio, count, task = heapq.heappop(self.{H})' in src and 'return (prio, task)' in src and \
        src.rstrip().endswith("raise KeyError('pop from an empty task queue')")
    ctx.ob('C09.inv', f'{mod.name}:TaskQueue.pop:result', ok, 'pop returns the smallest live (prio, task) and raises KeyError when empty', p.node, mod)


def rule_key(ctx):
    ctx.rule('C09.key', 'heap entries are [prio, count, task], count from a counter that is only advanced or reset with '
                        'the heap; tombstoning overwrites only the task slot; peek keys treat tombstones as +-inf and '
                        'compare (prio, count)')
    tq, H, F, R, C = bind_roles(ctx)
    mod = tq.module
    add = tq.methods['add']
    ps = add.params
    entry = None
    for s in walk_local(add.node):
        if isinstance(s, ast.Assign) and isinstance(s.value, ast.List) and len(s.value.elts) == 3:
            entry = s
    cnt = None
    for s_ in walk_local(add.node):
        if isinstance(s_, ast.Assign) and isinstance(s_.value, ast.Call) and norm(s_.value.func) == 'next' and isinstance(s_.targets[0], ast.Name) \
                and s_.value.args and U.is_self_attr(s_.value.args[0], C):
            cnt = s_.targets[0].id
    ok = entry is not None and cnt is not None and [norm(e) for e in entry.value.elts] == [ps[1], cnt, ps[2]]
    ctx.ob('C09.key', f'{mod.name}:TaskQueue.add:entry-shape', ok, 'entry must be [prio, count, task] with count drawn from the sequence', add.node, mod)
    src = full(add.node)
    ok = cnt is not None and entry is not None and f'heapq.heappush(self.{H}, {norm(entry.targets[0])})' in src and \
        f'self.{F}[{ps[2]}] = {norm(entry.targets[0])}' in src
    ctx.ob('C09.key', f'{mod.name}:TaskQueue.add:sequence', ok, 'count is drawn from the sequence and the same entry is indexed and pushed', add.node, mod)
    ok = U.before(src, f'if {ps[2]} in self.{F}: self.remove({ps[2]})', f'{cnt} = next(self.{C})')
    ctx.ob('C09.key', f'{mod.name}:TaskQueue.add:reinsert', ok, 're-inserting removes the old entry first and draws a fresh count (most recent)', add.node, mod)
    # counter writers
    writers = []
    for name, f in tq.methods.items():
        for s in walk_local(f.node):
            if isinstance(s, (ast.Assign, ast.AugAssign)):
                for t in U.assigned_targets(s):
                    if U.is_self_attr(t, C):
                        writers.append((name, norm(s.value)))
    ctx.ob('C09.key', f'{mod.name}:TaskQueue:{C}:writers', writers == [('_init', 'itertools.count()')],
           f'the tie-break counter may only be created in the reset; writers: {writers}', tq.node, mod)
    rm = tq.methods['remove']
    tomb = [s for s in walk_local(rm.node) if isinstance(s, ast.Assign) and isinstance(s.targets[0], ast.Subscript)
            and norm(s.targets[0].value) == 'entry']
    ok = len(tomb) == 1 and norm(tomb[0].targets[0].slice) in ('-1', '2') and norm(tomb[0].value) == 'type(self)._REMOVED'
    ctx.ob('C09.key', f'{mod.name}:TaskQueue.remove:tombstone', ok, 'removal overwrites only the task slot of the entry', rm.node, mod)
    for kn, inf in (('_small_key', "float('inf')"), ('_large_key', "float('-inf')")):
        k = tq.methods[kn]
        src = full(k.node)
        p = k.params[1]
        ok = f'if {p}[2] is type(self)._REMOVED: return [{inf}] * 2 else: return {p}[:2]' in src
        ctx.ob('C09.key', f'{mod.name}:TaskQueue.{kn}', ok, f'{kn} must ignore tombstones ({inf}) and compare (prio, count)', k.node, mod)
    pk = tq.methods['peek']
    src = full(pk.node)
    ok = f'heapq.nsmallest(1, self.{H}, key=self._small_key)[0]' in src and f'heapq.nlargest(1, self.{H}, key=self._large_key)[0]' in src \
        and "raise KeyError('peek from an empty task queue')" in src and 'if task is not self._REMOVED: return (prio, task)' in src
    ctx.ob('C09.key', f'{mod.name}:TaskQueue.peek', ok, 'peek returns the smallest/largest live entry or raises KeyError', pk.node, mod)
    it, ok = iter_ordered(ctx.repo, H)
    ctx.ob('C09.key', f'{mod.name}:TaskQueue.__iter__', ok, 'iteration yields live entries in (prio, count) order', it.node, mod)


def rule_own(ctx):
    ctx.rule('C09.own', 'the heap list, task index, tombstone count and sequence of TaskQueue are touched only inside the class')
    tq, H, F, R, C = bind_roles(ctx)
    queues = queue_attrs(ctx)
    fields = {F, R, C}
    n = 0
    for m in ctx.repo.modules.values():
        for node in ast.walk(m.tree):
            if isinstance(node, ast.Attribute) and node.attr in fields | {H}:
                cls = None
                for p in U.parent_chain(node):
                    if isinstance(p, ast.ClassDef):
                        cls = p
                        break
                if m is tq.module and cls is tq.node:
                    continue
                recv = norm(node.value)
                # `_queue` is a common name: only flag when the receiver is a known TaskQueue holder
                if node.attr == H and not any(recv.endswith(q) for q in queues):
                    continue
                n += 1
                ctx.ob('C09.own', f'{m.name}:{qualname_of(node)}:{norm(node)}', False,
                       f'{norm(node)} reaches into TaskQueue internals from outside the class', node, m)
    inside = sum(1 for node in ast.walk(tq.node) if isinstance(node, ast.Attribute) and node.attr in fields | {H})
    ctx.ob('C09.own', f'{tq.module.name}:TaskQueue:private-fields', n == 0,
           f'{inside} accesses inside the class, {n} outside', tq.node, tq.module)
    ctx.require(inside >= 15, 'C09.own', 'role fields not found inside TaskQueue')


def queue_attrs(ctx):
    """attribute / variable names that hold a TaskQueue"""
    out = set()
    for m in ctx.repo.modules.values():
        for node in ast.walk(m.tree):
            if isinstance(node, ast.Assign) and isinstance(node.value, ast.Call) and (dump_name(node.value.func) or '').endswith('TaskQueue'):
                for t in node.targets:
                    if isinstance(t, ast.Attribute):
                        out.add(t.attr)
                    elif isinstance(t, ast.Name):
                        out.add(t.id)
    return out


def _guarded(call, recv, fnode):
    """is the peek/pop call dominated by a non-emptiness fact for recv?"""
    def is_empty_call(n, r):
        return isinstance(n, ast.Call) and U.method_name(n) == 'empty' and norm(n.func.value) == r

    def test_nonempty(test, r):
        for c in U.conjuncts(test):
            if isinstance(c, ast.UnaryOp) and isinstance(c.op, ast.Not) and is_empty_call(c.operand, r):
                return True
        return False

    def test_empty(test, r):
        return is_empty_call(test, r)
    node = call
    cur = call
    for p in U.parent_chain(call):
        if p is fnode:
            pass
        if isinstance(p, (ast.While, ast.If)):
            inbody = U.in_body(cur, p, 'body')
            inelse = U.in_body(cur, p, 'orelse')
            if test_nonempty(p.test, recv) and (inbody or U.in_body(cur, p, 'test') or cur is p.test):
                # inside the test itself: only if after the `not empty()` conjunct
                if inbody:
                    return 'inside `not empty()` guard'
                cj = U.conjuncts(p.test)
                idx = [i for i, c in enumerate(cj) if any(x is call for x in ast.walk(c))]
                if idx and any(test_nonempty(c, recv) for c in cj[:idx[0]]):
                    return 'after `not empty()` in the same condition'
            if test_empty(p.test, recv) and inelse:
                return 'else-branch of `if empty()`'
        if isinstance(p, ast.Try) and U.in_body(cur, p, 'body'):
            for h in p.handlers:
                hn = norm(h.type) if h.type is not None else ''
                if h.type is None or 'KeyError' in hn or hn in ('Exception', 'BaseException'):
                    return 'inside a KeyError handler'
        # preceding siblings in the same block
        for field in ('body', 'orelse', 'finalbody'):
            blk = getattr(p, field, None)
            if isinstance(blk, list) and any(s is cur for s in blk):
                i = [j for j, s in enumerate(blk) if s is cur][0]
                for prev in reversed(blk[:i]):
                    if isinstance(prev, ast.Expr) and isinstance(prev.value, ast.Call) and U.method_name(prev.value) == 'add' \
                            and norm(prev.value.func.value) == recv:
                        return 'after an add() to the same queue'
                    if isinstance(prev, ast.If) and test_empty(prev.test, recv) and prev.body and \
                            isinstance(prev.body[-1], (ast.Return, ast.Raise, ast.Break, ast.Continue)):
                        # within a loop the fact must be re-established at the end of each iteration
                        loop = None
                        for q in U.parent_chain(call):
                            if isinstance(q, (ast.While, ast.For)):
                                loop = q
                                break
                            if q is p:
                                break
                        return 'after `if empty(): return`'
                    if any(isinstance(x, ast.Call) and U.method_name(x) in ('pop', 'clear', 'remove') and
                           isinstance(x.func, ast.Attribute) and norm(x.func.value) == recv for x in ast.walk(prev)):
                        break
        if isinstance(p, ast.While) and U.in_body(cur, p, 'body'):
            # `while cond: ... pop ...; if empty(): break else: ...` with an emptiness exit before the loop
            last = p.body[-1]
            if isinstance(last, ast.If) and test_empty(last.test, recv) and isinstance(last.body[-1], ast.Break):
                par = getattr(p, '_parent', None)
                for field in ('body', 'orelse'):
                    blk = getattr(par, field, None)
                    if isinstance(blk, list) and any(s is p for s in blk):
                        i = [j for j, s in enumerate(blk) if s is p][0]
                        chain = blk[:i]
                        anc = par
                        # look in this block and enclosing blocks of the function
                        while True:
                            for prev in chain:
                                if isinstance(prev, ast.If) and test_empty(prev.test, recv) and \
                                        isinstance(prev.body[-1], (ast.Return, ast.Raise)):
                                    return 'loop re-checks emptiness each iteration after an initial `if empty(): return`'
                            nxt = getattr(anc, '_parent', None)
                            if nxt is None or isinstance(anc, (ast.FunctionDef, ast.AsyncFunctionDef)):
                                break
                            found = None
                            for fld in ('body', 'orelse'):
                                b2 = getattr(nxt, fld, None)
                                if isinstance(b2, list) and any(s is anc for s in b2):
                                    found = b2[:[j for j, s in enumerate(b2) if s is anc][0]]
                            chain = found or []
                            anc = nxt
        if isinstance(p, (ast.FunctionDef, ast.AsyncFunctionDef)):
            break
        cur = p
    return None


def rule_use(ctx):
    ctx.rule('C09.use', 'every peek()/pop() on a TaskQueue in the library is dominated by `not q.empty()`, an add to the '
                        'same queue, an `if q.empty(): return`, or a KeyError handler')
    queues = queue_attrs(ctx)
    n = 0
    for fi in ctx.repo.functions.values():
        if fi.module.name == 'sc3.base._taskq':
            continue
        for c in U.calls(fi.node):
            if U.method_name(c) in ('peek', 'pop') and isinstance(c.func, ast.Attribute):
                recv = norm(c.func.value)
                last = recv.split('.')[-1]
                if last not in queues:
                    continue
                if U.method_name(c) == 'pop' and c.args:
                    continue
                n += 1
                why = _guarded(c, recv, fi.node)
                ctx.ob('C09.use', f'{fi.fq}:{norm(c)}:{_nth(fi.node, c)}', why is not None,
                       why or f'{norm(c)} can run on an empty queue: KeyError escapes into {fi.qualname}', c, fi.module)
    ctx.require(n >= 25, 'C09.use', f'only {n} peek/pop sites found')
    # iteration yields a snapshot: a loop over a live queue may read the entries, but if it runs them (or anything that can add,
    # re-add or remove entries) the changes made meanwhile are lost to the loop; draining by running is done with pop
    m_ = 0
    for fi in ctx.repo.functions.values():
        if fi.module.name == 'sc3.base._taskq':
            continue
        for lp in walk_local(fi.node):
            if not isinstance(lp, ast.For):
                continue
            recv = norm(lp.iter)
            if recv.split('.')[-1] not in queues:
                continue          # list(q) / tuple(q) copies are deliberate snapshots
            m_ += 1
            lvars = {n_.id for n_ in ast.walk(lp.target) if isinstance(n_, ast.Name)}
            runs = [norm(c) for c in U.calls(lp) if (isinstance(c.func, ast.Name) and c.func.id in lvars) or
                    (isinstance(c.func, ast.Attribute) and isinstance(c.func.value, ast.Name) and c.func.value.id in lvars and
                     c.func.attr in ('_wakeup', '__awake__', '__call__', 'next', 'run', 'play', 'value')) or
                    (U.method_name(c) in ('add', 'remove', 'pop', 'clear') and norm(c.func.value) == recv)]
            ctx.ob('C09.use', f'{fi.fq}:for-in-{recv}:reads-only', not runs,
                   f'the loop over {recv} runs {runs}: an entry added, re-added or removed by what it runs is invisible to the snapshot being '
                   f'iterated (entries lost or run at their old time); drain with `while not q.empty(): q.pop()`', lp, fi.module)
    ctx.require(m_ >= 1, 'C09.use', 'no loop over a task queue found (OscScore.finish iterates its score queue)')


def _nth(fnode, call):
    same = [c for c in U.calls(fnode) if norm(c) == norm(call)]
    return f'#{[i for i, c in enumerate(same) if c is call][0]}'


def iter_ordered(repo, H='_queue'):
    """TaskQueue.__iter__ orders whole entries [prio, count, task] (count is unique, so the task is never compared): the
    accepted forms are heapq.nsmallest(len(h), h) and sorted(h), optionally keyed by the first two fields."""
    tq = repo.cls('sc3.base._taskq:TaskQueue')
    it = tq.methods['__iter__']
    src = full(it.node)
    forms = (f'heapq.nsmallest(len(self.{H}), self.{H})', f'sorted(self.{H})',
             f'sorted(self.{H}, key=lambda entry: entry[:2])', f'sorted(self.{H}, key=lambda e: e[:2])')
    loops = [n for n in walk_local(it.node) if isinstance(n, ast.For)]
    ok = len(loops) == 1
    if ok:
        itx = loops[0].iter
        if isinstance(itx, ast.Name):
            defs = [n for n in walk_local(it.node) if isinstance(n, ast.Assign) and norm(n.targets[0]) == itx.id]
            ok = len(defs) == 1 and norm(defs[0].value) in forms
        else:
            ok = norm(itx) in forms
    ok = ok and 'if task is not type(self)._REMOVED: yield (prio, task)' in src
    return it, ok


def identity_fields(repo, ci):
    """If ci overrides __eq__/__hash__ purely by identity of wrapped attributes -- __eq__ returns a conjunction of a type test
    and `self.X is other.X` terms, __hash__ returns hash of a tuple of id(self.X) over the same X -- return that set of X;
    otherwise None (value comparison or unrecognised form)."""
    eq = repo.resolve_method(ci, '__eq__')
    hs = repo.resolve_method(ci, '__hash__')
    if eq is None or hs is None or len(eq.params) != 2:
        return None
    other = eq.params[1]
    body = U.body_nodoc(eq.node)
    if len(body) != 1 or not isinstance(body[0], ast.Return) or body[0].value is None:
        return None
    fields = set()
    for t in U.conjuncts(body[0].value):
        if isinstance(t, ast.Compare) and len(t.ops) == 1 and isinstance(t.ops[0], ast.Is):
            a, b = t.left, t.comparators[0]
            if isinstance(a, ast.Attribute) and isinstance(b, ast.Attribute) and a.attr == b.attr and \
                    {norm(a.value), norm(b.value)} == {'self', other}:
                fields.add(a.attr)
                continue
            if norm(a) in (f'type({other})', f'type(self)') or norm(b) in (f'type({other})', 'type(self)'):
                continue
            return None
        if isinstance(t, ast.Call) and norm(t.func) == 'isinstance' and norm(t.args[0]) == other:
            continue
        return None
    hb = U.body_nodoc(hs.node)
    if len(hb) != 1 or not isinstance(hb[0], ast.Return) or not isinstance(hb[0].value, ast.Call) or norm(hb[0].value.func) != 'hash':
        return None
    arg = hb[0].value.args[0]
    elts = arg.elts if isinstance(arg, ast.Tuple) else [arg]
    hf = set()
    for e in elts:
        if isinstance(e, ast.Call) and norm(e.func) == 'id' and U.is_self_attr(e.args[0]):
            hf.add(e.args[0].attr)
        else:
            return None
    # equal objects must hash equal: hashed fields are a subset of the compared ones
    if not fields or not hf <= fields:
        return None
    return fields


def rule_items(ctx):
    ctx.rule('C09.items', 'objects constructed afresh for every insertion into a TaskQueue (score entries, NRT clock tasks) have identity '
                          'semantics: no __eq__/__hash__ override, otherwise two equal items count as one and the second add() removes the first')
    queues = queue_attrs(ctx)
    n = 0
    seen = set()
    for fi in ctx.repo.functions.values():
        for c in U.calls(fi.node):
            if U.method_name(c) == 'add' and isinstance(c.func, ast.Attribute) and len(c.args) == 2:
                recv = norm(c.func.value).split('.')[-1]
                if recv not in queues and recv != 'scheduler':
                    continue
                item = c.args[1]
                cname = None
                if isinstance(item, ast.Call):
                    cname = norm(item.func).split('.')[-1]
                elif isinstance(item, ast.Name) and item.id == 'self' and fi.cls is not None and recv == 'scheduler':
                    cname = fi.cls.name       # ClockTask adds itself from its constructor
                if cname is None or cname in seen:
                    continue
                for ci in ctx.repo.classes.values():
                    if ci.name == cname and ci.module is fi.module:
                        seen.add(cname)
                        n += 1
                        over = [f'{c_.name}.{m}' for c_ in ctx.repo.mro(ci) for m in ('__eq__', '__hash__') if m in c_.methods]
                        idf = identity_fields(ctx.repo, ci) if over else None
                        ctx.ob('C09.items', f'{ci.fq}:identity-semantics', not over or idf is not None,
                               f'{ci.qualname} is constructed per insertion but defines {over} comparing by value: equal items are treated '
                               f'as a re-insertion of the same item (only identity of wrapped objects may be compared; found identity fields {idf})',
                               ci.node, ci.module)
    ctx.require(n >= 2, 'C09.items', f'only {n} per-insertion item classes found')


def rule_entries_fixed(ctx):
    ctx.rule('C09.key', 'a queue entry keeps the priority and the insertion counter it was created with: the only store into an existing entry '
                        'is the removal mark; a new priority is a new entry made by add() with the next counter (an entry re-keyed in place '
                        'keeps an old counter and overtakes entries already waiting at its new time)')
    ci = ctx.repo.cls('sc3.base._taskq:TaskQueue')
    n = 0
    bad = []
    for name, f in sorted(ci.methods.items()):
        for x in walk_local(f.node):
            if not isinstance(x, (ast.Assign, ast.AugAssign)):
                continue
            for t in (x.targets if isinstance(x, ast.Assign) else [x.target]):
                if isinstance(t, ast.Subscript) and not U.is_self_attr(t.value):
                    n += 1
                    mark = isinstance(x, ast.Assign) and '_REMOVED' in norm(x.value) and norm(t.slice) in ('-1', '2')
                    if not mark:
                        bad.append(f'{name}: {norm(x)[:50]}')
    ctx.ob('C09.key', f'{ci.fq}:entries-fixed', n >= 1 and not bad,
           f'stores into queue entries other than the removal mark: {bad}', ci.node, ci.module)
    hp = [f'{name}: {norm(c.func)}' for name, f in sorted(ci.methods.items()) for c in U.calls(f.node) if norm(c.func) in ('heapq.heapify', 'heapify')]
    ctx.ob('C09.key', f'{ci.fq}:no-reheapify', not hp,
           f'{hp}: the heap is only ever pushed to and popped from; re-heapifying is needed only after keys were rewritten in place', ci.node, ci.module)


def run(ctx):
    from ..report import SubCtx
    from . import c10
    sub_c10 = SubCtx(ctx, 'C09.wake', 'a queue entry comes out once and a removed or re-added entry follows the queue: the consumers take one entry at a time and run it before the next, as decided for C10')
    c10.rule_wake(sub_c10)
    rule_items(ctx)
    rule_inv(ctx)
    rule_key(ctx)
    rule_entries_fixed(ctx)
    rule_own(ctx)
    rule_use(ctx)
    ctx.assume('priorities are mutually comparable, so heapq.heappush does not raise between the index update and the push')
    ctx.trust('heapq keeps the list heap-ordered on (prio, count)')


MUTANTS = [
    dict(rule='C09.key', name='pending entries re-keyed in place keep their old insertion counter (seed C09-l)', file='sc3/base/_taskq.py',
         old="    def clear(self):\n        \'\'\'Reset the queue to initial state (remove all tasks).\'\'\'\n",
         new="    def rekey(self, func):\n        for entry in self._queue:\n            if entry[-1] is not type(self)._REMOVED:\n                entry[0] = func(entry[0], entry[-1])\n        heapq.heapify(self._queue)\n\n    def clear(self):\n        \'\'\'Reset the queue to initial state (remove all tasks).\'\'\'\n"),
    dict(rule='C09.use', name='shutdown runs the exit actions from an iteration snapshot (seed C09-f)', file='sc3/base/main.py',
         old="        while not cls._atexitq.empty():\n            with cls._main_lock:\n                cls._atexitq.pop()[1]()\n",
         new="        for _, action in cls._atexitq:\n            with cls._main_lock:\n                action()\n        cls._atexitq.clear()\n"),
    dict(rule='C09.inv', name='tombstone count not incremented', file='sc3/base/_taskq.py',
         old="            self._removed_counter += 1\n", new=""),
    dict(rule='C09.inv', name='index entry not deleted on pop', file='sc3/base/_taskq.py',
         old="                del self._entry_finder[task]\n", new=""),
    dict(rule='C09.inv', name='clear resets only the list', file='sc3/base/_taskq.py',
         old="        self._init()\n\n    def __iter__", new="        self._queue = []\n\n    def __iter__"),
    dict(rule='C09.inv', name='tombstone count not decremented on skip', file='sc3/base/_taskq.py',
         old="            else:\n                self._removed_counter -= 1\n", new=""),
    dict(rule='C09.inv', name='add does not remove the old entry', file='sc3/base/_taskq.py',
         old="        if task in self._entry_finder:\n            self.remove(task)\n", new=""),
    dict(rule='C09.inv', name='empty ignores tombstones', file='sc3/base/_taskq.py',
         old="return (len(self._queue) - self._removed_counter) == 0", new="return len(self._queue) == 0"),
    dict(rule='C09.key', name='entry order [prio, task, count]', file='sc3/base/_taskq.py',
         old="entry = [prio, count, task]", new="entry = [prio, task, count]"),
    dict(rule='C09.key', name='count constant', file='sc3/base/_taskq.py',
         old="count = next(self._counter)", new="count = 0"),
    dict(rule='C09.key', name='small key ignores count', file='sc3/base/_taskq.py',
         old="            return [float('inf')] * 2\n        else:\n            return item[:2]", new="            return [float('inf')] * 2\n        else:\n            return item[:1]"),
    dict(rule='C09.own', name='external module appends to the heap', file='sc3/base/clock.py',
         old="    def reset(self):\n        self.queue.clear()", new="    def reset(self):\n        self.queue._queue.append(None)\n        self.queue.clear()"),
    dict(rule='C09.use', name='empty() test removed before peek', file='sc3/base/clock.py',
         old="        if cls._scheduler.queue.empty():\n            return None  # check value for client::tick to stop calling itself.\n        else:\n            return cls._scheduler.queue.peek()[0]",
         new="        return cls._scheduler.queue.peek()[0]"),
    dict(rule='C09.use', name='duration peeks an empty score', file='sc3/base/_oscinterface.py',
         old="        if self._scoreq.empty():\n            return None  # Uninitialized.\n        return self._scoreq.peek(False)[0] * clk", new="        return self._scoreq.peek(False)[0] * clk"),
    dict(rule='C09.items', name='NRT clock tasks compare by task', file='sc3/base/clock.py',
         old="            and self.clock is other.clock and self.task is other.task", new="            and self.task is other.task"),
]

REPAIRS = []

EQUIV = [
    dict(name='rename locals of TaskQueue.add', file='sc3/base/_taskq.py', start='    def add(self, prio, task):', end='    def remove(self, task):', rename=[('entry', 'rec'), ('count', 'seq')]),
]
