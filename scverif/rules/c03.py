"""C03 - multichannel expansion follows the wrap-and-zip law everywhere."""

import ast

from ..loader import norm, full, walk_local, walk_local_ordered
from .. import util as U

EXPLANATION = (
    'The three method families the source says must be kept in sync (ChannelList convenience methods, UGen methods, '
    'UGenScalar methods) are compared signature by signature: the selector string forwarded by '
    '_multichannel_perform must be the method name, the forwarded arguments the parameters in order, and the '
    'defaults identical to the per-element method resolved through the MRO (a list call forwards its own defaults, '
    'so a differing default breaks [u].m() == [u.m()]). Output units must flatten with '
    'as_list -> _as_ugen_input -> _replace_zeroes_with_silence and declare the number of fixed arguments they pass. '
    'Every rate constructor must hand parameters to _multi_new untouched by scalar-only coercions. The generic '
    'expansion must test `list` only, index modulo the item length, recurse and return a ChannelList.')
LEVEL_TEXT = ('static: sibling agreement of 30+ convenience methods (names, arity, defaults, selector strings); '
              'output-unit flattening idiom and fixed-argument counts; no scalar-only coercion of expandable '
              'parameters in 400 constructors; structural features of SynthObject._multi_new, '
              'UGenSequence._as_ugen_input and the list algebra. Does not decide the law for every shape.')
LEVEL_NOTE = 'the expansion law itself (recursion over runtime list shapes) is not decided'
LEVEL_TEXT_ADD = " Also: non-forwarding ChannelList methods must zip their arguments (no parameter inside a comprehension over the channels alone) and list's in-place concatenation must be overridden."
LEVEL_TEXT_ADD += ' Rounds e-f: convenience methods recurse into nested rows; zero replacement copies; the output chain is judged as one composed expression.'
LEVEL_TEXT_ADD += ' Round i: a channel list is its own parameter value; every public UGen method has a channel-list sibling.'
LEVEL_TEXT = (globals().get('LEVEL_TEXT') or EXPLANATION) + LEVEL_TEXT_ADD
TECHNIQUE = 'static analysis: sibling-signature comparison and AST idiom checks over all constructors'

RATE_OF = {'ar': 'audio', 'kr': 'control', 'ir': 'scalar', 'dr': 'demand'}


def defaults_of(f, skip=1):
    a = f.node.args
    params = [x.arg for x in a.args][skip:]
    d = [None] * (len(params) - len(a.defaults)) + [norm(x) for x in a.defaults]
    d = d[-len(params):] if params else []
    nd = []
    for x in d:
        if x is None:
            nd.append('<required>')
        else:
            try:
                v = ast.literal_eval(x)
                nd.append(repr(float(v)) if isinstance(v, (int, float)) and not isinstance(v, bool) else repr(v))
            except Exception:
                nd.append(x)
    return params, nd


def rule_sync(ctx):
    ctx.rule('C03.sync', 'ChannelList.m forwards selector "m" with its own parameters in order; UGen.m (via MRO) and '
                         'UGenScalar.m accept the same number of parameters with the same defaults')
    repo = ctx.repo
    cl = repo.cls('sc3.synth.ugen:ChannelList')
    ug = repo.cls('sc3.synth.ugen:UGen')
    us = repo.cls('sc3.synth._graphparam:UGenScalar')
    n = 0
    for name, f in sorted(cl.methods.items()):
        body = U.body_nodoc(f.node)
        if not (len(body) == 1 and isinstance(body[0], ast.Return) and isinstance(body[0].value, ast.Call)
                and U.is_self_attr(body[0].value.func, '_multichannel_perform')):
            continue
        n += 1
        call = body[0].value
        mod = cl.module
        key = f'{mod.name}:ChannelList.{name}'
        sel = call.args[0] if call.args else None
        ctx.ob('C03.sync', key + ':selector', U.is_str(sel, name),
               f'ChannelList.{name} forwards selector {norm(sel) if sel is not None else None}, must be {name!r}', call, mod)
        params, dfl = defaults_of(f)
        fwd = [norm(a) for a in call.args[1:]]
        ctx.ob('C03.sync', key + ':forwarded', fwd == params,
               f'ChannelList.{name} forwards {fwd}, its parameters are {params}', call, mod)
        target = repo.resolve_method(ug, name)
        if target is None:
            ctx.ob('C03.sync', key + ':target', False, f'UGen has no method {name}', call, mod)
            continue
        tp, td = defaults_of(target)
        ctx.ob('C03.sync', f'{target.module.name}:{target.qualname}:vs-ChannelList:arity', len(tp) == len(params),
               f'{target.qualname}{tuple(tp)} vs ChannelList.{name}{tuple(params)}: different arity', target.node, target.module)
        if len(tp) == len(params):
            ctx.ob('C03.sync', f'{target.module.name}:{target.qualname}:vs-ChannelList:defaults', td == dfl,
                   f'{target.qualname} defaults {td} differ from ChannelList.{name} defaults {dfl}: '
                   f'[u].{name}() != [u.{name}()]', target.node, target.module)
        if name in us.methods:
            sp, sdv = defaults_of(us.methods[name])
            ctx.ob('C03.sync', f'{us.module.name}:UGenScalar.{name}:vs-ChannelList:defaults',
                   len(sp) == len(params) and sdv == dfl,
                   f'UGenScalar.{name} defaults {sdv} differ from ChannelList.{name} defaults {dfl}',
                   us.methods[name].node, us.module)
    ctx.require(n >= 28, 'C03.sync', f'only {n} forwarding methods found in ChannelList')
    # methods that do not forward through _multichannel_perform must still zip: a comprehension over the channels alone whose
    # element uses a parameter hands the whole (possibly list) argument to every channel - a cross product, not wrap-and-zip
    for name, f in sorted(cl.methods.items()):
        params = set(f.params[1:])
        if not params or name.startswith('_') and name not in ('__iadd__',):
            continue
        for comp in [x for x in walk_local(f.node) if isinstance(x, (ast.GeneratorExp, ast.ListComp))]:
            g0 = comp.generators[0]
            if len(comp.generators) == 1 and norm(g0.iter) == 'self':
                used = sorted(params & set(U.names_in(comp.elt)))
                ctx.ob('C03.sync', f'{cl.module.name}:ChannelList.{name}:zips-arguments', not used,
                       f'ChannelList.{name} iterates its channels alone and hands the whole argument(s) {used} to each channel: a list '
                       f'argument yields a nested cross product instead of being zipped (wrap-and-zip law)', comp, cl.module)
    # element methods reached through _multichannel_perform receive a list when the argument was a nested list: a method that
    # computes on a parameter with Python operators must wrap list parameters first (ChannelList arithmetic expands them)
    for name, f in sorted(cl.methods.items()):
        body = U.body_nodoc(f.node)
        if not (len(body) == 1 and isinstance(body[0], ast.Return) and isinstance(body[0].value, ast.Call)
                and U.is_self_attr(body[0].value.func, '_multichannel_perform')):
            continue
        t = repo.resolve_method(ug, name)
        if t is None:
            continue
        params = set(t.params[1:])
        wrapped = set()
        for x in walk_local(t.node):
            if isinstance(x, ast.Assign) and 'ChannelList(' in norm(x.value):
                for tg in x.targets:
                    wrapped |= set(U.names_in(tg))
        # an operator with a unit-valued operand (self, or a local computed from it) expands a list on the other side through the
        # unit's own (reflected) operator; only arithmetic among the parameters themselves meets a bare Python list
        unitvals = {'self'}
        grew = True
        while grew:
            grew = False
            for x in walk_local(t.node):
                if isinstance(x, ast.Assign) and set(U.names_in(x.value)) & unitvals:
                    for tg in x.targets:
                        for n_ in U.names_in(tg):
                            if n_ not in unitvals and n_ not in params:
                                unitvals.add(n_)
                                grew = True
        raw = sorted({n_ for b in walk_local(t.node) if isinstance(b, (ast.BinOp, ast.UnaryOp)) and not (set(U.names_in(b)) & unitvals)
                      for n_ in set(U.names_in(b)) & params} - wrapped)
        if raw or name in ('range', 'unipolar', 'bipolar'):
            ctx.ob('C03.sync', f'{t.fq}:list-parameters', not raw,
                   f'UGen.{name} computes on its parameter(s) {raw} with Python operators: a list there (nested list argument of '
                   f'ChannelList.{name}, or a list given to the unit itself) raises TypeError instead of expanding', t.node, t.module)
    # ... and the other way round: every public instance method UGen defines for graph building has a channel-list sibling, otherwise a
    # list raises (or falls through to the numeric kernels) where each single unit works
    n = 0
    for name, f in sorted(ug.methods.items()):
        if name.startswith('_') or f.decorators:      # plain instance methods only (no classmethods, properties)
            continue
        n += 1
        ctx.ob('C03.sync', f'{ug.fq}.{name}:has-channel-list-sibling', name in cl.methods,
               f'UGen.{name} has no ChannelList.{name}: ChannelList([a, b]).{name}(...) is not [a.{name}(...), b.{name}(...)]', f.node, ug.module,
               nontrivial=False)
    ctx.require(n >= 30, 'C03.sync', f'only {n} public UGen methods found')
    md = cl.methods['madd']
    ctx.ob('C03.sync', f'{cl.module.name}:ChannelList.madd:zip', 'MulAdd.new(*i) for i in utl.flop([self, mul, add])' in full(md.node),
           'madd builds one MulAdd per row of flop([channels, mul, add])', md.node, cl.module)
    # list's in-place concatenation must not shadow the lifted operator: `b += x` is `b + x`
    ia = cl.methods.get('__iadd__') or repo.resolve_method(cl, '__iadd__')
    ok = ia is not None and full(ia.node).endswith(f'return self + {ia.params[1]}')
    ctx.ob('C03.sync', f'{cl.module.name}:ChannelList.__iadd__', ok,
           'ChannelList inherits list.__iadd__ (extend) unless it overrides it; += must add channel by channel like +', cl.node, cl.module)
    # _multichannel_perform: zips with flop, calls the selector on element 0 with the rest
    f = cl.methods['_multichannel_perform']
    src = full(f.node)
    ok = 'getattr(i[0], selector)(*i[1:]) for i in utl.flop([l, *args])' in src and 'return type(self)(l)' in src
    # nested rows are channel lists themselves (so the selector recurses), everything else a unit parameter
    firsts = [s_ for s_ in walk_local(f.node) if isinstance(s_, ast.Assign) and isinstance(s_.value, ast.ListComp)
              and norm(s_.value.generators[0].iter) == 'self']
    rec = False
    if firsts:
        lc = firsts[0].value
        v = norm(lc.generators[0].target)
        e = lc.elt
        rec = isinstance(e, ast.IfExp) and norm(e.test) in (f'isinstance({v}, list)', f'isinstance({v}, (list,))') and \
            norm(e.body) in (f'ChannelList({v})', f'type(self)({v})') and norm(e.orelse) == f'gpp.ugen_param({v})' and not lc.generators[0].ifs
    ctx.ob('C03.sync', f'{cl.module.name}:ChannelList._multichannel_perform:nested-rows', rec,
           'a nested row must be wrapped as a channel list so that the convenience method recurses into it; wrapped as a plain unit '
           'parameter it has no such method (AttributeError)', f.node, cl.module)
    ctx.ob('C03.sync', f'{cl.module.name}:ChannelList._multichannel_perform', ok,
           'must zip the channels with the arguments (flop) and apply the selector per row', f.node, cl.module)
    # AbstractSequence hooks
    seq = repo.cls('sc3.base.absobject:AbstractSequence')
    want = {'_compose_unop': 'utl.list_unop(selector, self, type(self))',
            '_compose_binop': 'utl.list_binop(selector, self, other, type(self))',
            '_rcompose_binop': 'utl.list_binop(selector, other, self, type(self))',
            '_compose_narop': 'utl.list_narop(selector, self, *args, t=type(self))'}
    for k, v in want.items():
        m = seq.methods.get(k)
        ok = m is not None and full(m.node).endswith('return ' + v)
        ctx.ob('C03.sync', f'{seq.module.name}:AbstractSequence.{k}', ok, f'{k} must be {v}', seq.node, seq.module)


def rule_out(ctx):
    ctx.rule('C03.out', 'audio-rate output constructors flatten with as_list, convert with _as_ugen_input, replace '
                        'literal zeros with silence and pass the channels starred last; _num_fixed_args equals the '
                        'number of non-starred arguments after the rate')
    repo = ctx.repo
    ao = repo.cls('sc3.synth.ugens.inout:AbstractOut')
    n = 0
    for ci in sorted(repo.subclasses(ao, strict=True), key=lambda c: c.fq):
        nfa = ci.methods.get('_num_fixed_args')
        fixed = None
        if nfa is not None:
            b = U.body_nodoc(nfa.node)
            if len(b) == 1 and isinstance(b[0], ast.Return) and U.is_num(b[0].value):
                fixed = U.num_value(b[0].value)
        for mname in ('ar', 'kr'):
            f = ci.methods.get(mname)
            if f is None:
                continue
            b = U.body_nodoc(f.node)
            if len(b) == 1 and isinstance(b[0], ast.Raise):
                continue
            mod = ci.module
            mn = [c for c in U.calls(f.node) if U.method_name(c) == '_multi_new']
            if len(mn) != 1:
                ctx.ob('C03.out', f'{mod.name}:{ci.qualname}.{mname}:delegation', False, 'must delegate to _multi_new once', f.node, mod)
                continue
            n += 1
            call = mn[0]
            rest = call.args[1:]
            starred = [a for a in rest if isinstance(a, ast.Starred)]
            plain = [a for a in rest if not isinstance(a, ast.Starred)]
            ok = len(starred) == 1 and rest and rest[-1] is starred[0]
            ctx.ob('C03.out', f'{mod.name}:{ci.qualname}.{mname}:channels-last', ok,
                   'the channel array must be passed starred as the last argument', call, mod)
            inh = repo.resolve_method(ci, '_num_fixed_args')
            fx = fixed
            if fx is None and inh is not None:
                bb = U.body_nodoc(inh.node)
                if len(bb) == 1 and isinstance(bb[0], ast.Return) and U.is_num(bb[0].value):
                    fx = U.num_value(bb[0].value)
            ctx.ob('C03.out', f'{mod.name}:{ci.qualname}.{mname}:num_fixed_args', fx == len(plain),
                   f'{ci.name}.{mname} passes {len(plain)} fixed argument(s) but _num_fixed_args() is {fx}', call, mod)
            # the channel parameter is the last parameter
            chan = f.params[-1]
            steps = []
            for s in b:
                if isinstance(s, ast.Assign) and norm(s.targets[0]) == chan:
                    steps.append(norm(s.value))
            sv = norm(starred[0].value) if starred else ''
            if mname == 'ar':
                want = [f'gpp.ugen_param(utl.as_list({chan}))', f'{chan}._as_ugen_input(cls)',
                        f'cls._replace_zeroes_with_silence({chan})']
                # necessary: the argument is made a list, zeros are replaced last, the result is what is passed on; the conversion to
                # unit inputs in between is optional (_multi_new converts its arguments) now that the replacement copies.  The steps are
                # composed into one expression so that one statement or three make no difference.
                comp = chan
                import re as _re
                for st in steps:
                    comp = _re.sub(rf'(?<![\w.]){_re.escape(chan)}\b', lambda m_: comp, st)
                if sv != chan:
                    comp = _re.sub(rf'(?<![\w.]){_re.escape(chan)}\b', lambda m_: comp, sv)
                try:
                    tree = ast.parse(comp, mode='eval').body
                except SyntaxError:
                    tree = None
                outer = tree is not None and isinstance(tree, ast.Call) and norm(tree.func) == 'cls._replace_zeroes_with_silence'
                names = [norm(c.func) for c in ast.walk(tree) if isinstance(c, ast.Call)] if tree is not None else []
                allowed = {'cls._replace_zeroes_with_silence', 'utl.as_list', 'gpp.ugen_param'}
                extra = [n_ for n_ in names if n_ not in allowed and not n_.endswith('._as_ugen_input')]
                ctx.ob('C03.out', f'{mod.name}:{ci.qualname}.ar:flatten-chain',
                       outer and f'utl.as_list({chan})' in comp and names.count('cls._replace_zeroes_with_silence') == 1 and not extra,
                       f'audio output must make the argument a list (utl.as_list) and replace zeros last ({want[2]}) before _multi_new; '
                       f'the passed channels are {comp}', f.node, mod)
            else:
                ok = (steps == [f'utl.as_list({chan})'] and sv == chan) or (steps == [] and sv == f'utl.as_list({chan})')
                ctx.ob('C03.out', f'{mod.name}:{ci.qualname}.kr:flatten', ok,
                       f'control output must flatten with utl.as_list; found {steps} then *{sv}', f.node, mod)
    ctx.require(n >= 5, 'C03.out', f'only {n} output constructors found')
    so = repo.cls('sc3.synth.ugen:SynthObject')
    f = so.methods['_replace_zeroes_with_silence']
    src = full(f.node)
    lp = f.params[1]
    ok = 'silence = lne.DC.ar(0)' in src and 'if isinstance(item, (int, float)) and item == 0.0: res.append(silence)' in src \
        and 'elif isinstance(item, list): res.append(cls._replace_zeroes_with_silence(item))' in src and 'else: res.append(item)' in src \
        and src.rstrip().endswith('return res')
    ctx.ob('C03.out', f'{so.module.name}:SynthObject._replace_zeroes_with_silence', ok,
           'numeric zeros (deeply) become audio-rate DC(0), every other item is kept, in order', f.node, so.module)
    argument_untouched(ctx, 'C03.out')


def rule_shadow(ctx):
    ctx.rule('C03.sync', 'a convenience method does not bind a local with the name of a module it then uses (late-imported unit modules such as '
                         'pan, trg, lne): the attribute access would go to the local value and the method fails for every input')
    m = ctx.repo.module('sc3.synth.ugen')
    mods = {k for k in m.aliases}
    n = 0
    for q, f in sorted(m.functions.items()):
        stores = {x.id for x in walk_local(f.node) if isinstance(x, ast.Name) and isinstance(x.ctx, ast.Store)} & mods
        n += 1
        for v in sorted(stores):
            uses = [norm(x) for x in walk_local(f.node) if isinstance(x, ast.Attribute) and isinstance(x.value, ast.Name) and x.value.id == v
                    and x.attr[:1].isupper()]
            ctx.ob('C03.sync', f'{f.fq}:{v}:module-shadowed', not uses,
                   f'{q} binds a local `{v}` and then reads {uses}: `{v}` is also the imported unit module, the class lookup hits the local value', f.node, m)
    ctx.require(n >= 100, 'C03.sync', f'only {n} functions of sc3.synth.ugen analysed')


def argument_untouched(ctx, rid):
    so = ctx.repo.cls('sc3.synth.ugen:SynthObject')
    f = so.methods['_replace_zeroes_with_silence']
    lp = f.params[1]
    writes = [norm(x) for x in walk_local(f.node) if (isinstance(x, (ast.Assign, ast.AugAssign)) and any(
        isinstance(t, ast.Subscript) and norm(t.value) == lp for t in (x.targets if isinstance(x, ast.Assign) else [x.target])))] + \
        [norm(c) for c in U.calls(f.node) if isinstance(c.func, ast.Attribute) and norm(c.func.value) == lp and
         c.func.attr in ('append', 'extend', 'insert', 'pop', 'remove', 'clear', 'sort', 'reverse', '__setitem__')]
    ctx.ob(rid, f'{so.module.name}:SynthObject._replace_zeroes_with_silence:argument-untouched', not writes,
           f'the list given (it may be a nested row owned by the caller of Out.ar or play) is written to by {writes}: a unit of this build '
           f'ends up in an object that outlives it', f.node, so.module)


SCALAR_COERCIONS = {'float', 'int', 'bool', 'round', 'abs', 'str'}


def rule_direct(ctx):
    ctx.rule('C03.direct', 'a parameter handed to _multi_new is passed bare, starred or through list-aware helpers; '
                           'float(p)/int(p)/bool(p) on a parameter raises TypeError on the list the law says must expand')
    n = 0
    for ci in sorted(ctx.repo.classes.values(), key=lambda c: c.fq):
        if not ci.module.name.startswith('sc3.synth.'):
            continue
        for mname in list(RATE_OF) + ['new']:
            f = ci.methods.get(mname)
            if f is None or not f.is_classmethod:
                continue
            params = set(f.params[1:])
            for call in U.calls(f.node):
                if U.method_name(call) not in ('_multi_new',):
                    continue
                n += 1
                for a in call.args[1:]:
                    for c in U.calls(a):
                        if isinstance(c.func, ast.Name) and c.func.id in SCALAR_COERCIONS and c.args and \
                                isinstance(c.args[0], ast.Name) and c.args[0].id in params:
                            ctx.ob('C03.direct', f'{ci.module.name}:{ci.qualname}.{mname}:{norm(c)}', False,
                                   f'{ci.name}.{mname} applies {norm(c)} before expansion: a list for '
                                   f'{c.args[0].id!r} raises TypeError instead of expanding', c, ci.module)
                ok_all = True
                ctx.ob('C03.direct', f'{ci.module.name}:{ci.qualname}.{mname}:handoff', ok_all,
                       'parameters reach _multi_new without scalar-only coercion', call, ci.module, nontrivial=False)
    ctx.require(n >= 300, 'C03.direct', f'only {n} delegation calls found')


def rule_core(ctx):
    ctx.rule('C03.core', 'SynthObject._multi_new expands on isinstance(., list) only, wraps with item[i % len(item)], '
                         'recurses into _multi_new, returns ChannelList; tuples keep their type through _as_ugen_input')
    repo = ctx.repo
    so = repo.cls('sc3.synth.ugen:SynthObject')
    f = so.methods['_multi_new']
    mod = so.module
    insts = [c for c in U.calls(f.node) if U.method_name(c) == 'isinstance']
    kinds = [norm(c.args[1]) for c in insts]
    ctx.ob('C03.core', f'{mod.name}:SynthObject._multi_new:predicate', len(kinds) >= 2 and set(kinds) == {'list'},
           f'expansion predicate must be isinstance(., list) (tuples opaque); found {kinds}', f.node, mod)
    src = full(f.node)
    checks = {
        'length': 'length = max(length, len(item))',
        'wrap-index': 'item[i % len(item)] if isinstance(item, list) else item',
        'recursion': 'results[i] = cls._multi_new(*new_args)',
        'result': 'return ChannelList(results)',
        'single': 'return cls._new1(*args)',
        'range': 'for i in range(length)',
        'convert': 'args = gpp.ugen_param(args)._as_ugen_input(cls)',
    }
    for k, v in checks.items():
        ctx.ob('C03.core', f'{mod.name}:SynthObject._multi_new:{k}', v in src, f'_multi_new must contain `{v}`', f.node, mod)
    # exactly one unit per combination: _new1 called only in the single-channel branch
    n1 = [c for c in U.calls(f.node) if U.method_name(c) == '_new1']
    ctx.ob('C03.core', f'{mod.name}:SynthObject._multi_new:one-unit', len(n1) == 1,
           'exactly one _new1 call (one unit per combination)', f.node, mod)
    us = repo.cls('sc3.synth._graphparam:UGenSequence')
    g = us.methods['_as_ugen_input']
    ctx.ob('C03.core', f'{us.module.name}:UGenSequence._as_ugen_input:keeps-type',
           full(g.node).endswith('return type(self._param_value)(m)'), 'sequence conversion must rebuild type(value)', g.node, us.module)
    pt = us.methods['_param_type']
    ctx.ob('C03.core', f'{us.module.name}:UGenSequence._param_type', full(pt.node).endswith('return (list, tuple)'),
           'lists and tuples are sequence parameters', pt.node, us.module)
    # list algebra: wrap extension of the shorter operand
    lb = repo.func('sc3.base.utils:list_binop')
    src = full(lb.node)
    ok = 'if len(b) <= len(a): b = wrap_extend(list(b), len(a)) else: a = wrap_extend(list(a), len(b))' in src and \
        'return t((op(i[0], i[1]) for i in zip(a, b)))' in src
    ctx.ob('C03.core', f'{lb.module.name}:list_binop:wrap-zip', ok, 'binary list op must wrap the shorter operand and zip', lb.node, lb.module)
    # tuples are opaque to expansion: the sequence test of the list algebra must not include tuple
    tseq = [s_ for s_ in walk_local(lb.node) if isinstance(s_, ast.Assign) and norm(s_.targets[0]) == 't_seq']
    ctx.require(len(tseq) == 1, 'C03.core', 'list_binop: sequence-type tuple `t_seq` not bound')
    ctx.ob('C03.core', f'{lb.module.name}:list_binop:tuple-opaque', 'tuple' not in norm(tseq[0].value),
           f'list_binop zips operands of the types {norm(tseq[0].value)}: ChannelList([a, b]) * (1, 2) gives [a * 1, b * 2], a tuple is expanded '
           f'like a list by channel-list arithmetic (unit-generator constructors and ChannelList() keep it opaque)', tseq[0], lb.module)
    # a nested row keeps its own sequence type in every branch of the list algebra (a ChannelList row that comes back as a plain list
    # makes the next operator Python list arithmetic: repetition and concatenation)
    plain = [norm(x) for x in walk_local(lb.node) if isinstance(x, ast.Assign) and isinstance(x.value, ast.Name) and x.value.id == 'list'
             and isinstance(x.targets[0], ast.Name) and x.targets[0].id != 't_seq']
    typed = [norm(x) for x in walk_local(lb.node) if isinstance(x, ast.Assign) and isinstance(x.value, ast.Call) and norm(x.value.func) == 'type'
             and x.value.args and isinstance(x.value.args[0], ast.Subscript)]
    ctx.ob('C03.core', f'{lb.module.name}:list_binop:nested-row-type', not plain and len(typed) >= 2,
           f'list_binop types a nested result row with {plain or typed}: it must be the type of the row itself (type(a[i]) / type(b[i])), '
           f'as in the one-sequence branches', lb.node, lb.module)
    lu = repo.func('sc3.base.utils:list_unop')
    usrc = full(lu.node)
    oku = U.before(usrc, 'if isinstance(a, t_seq):', 'if any((isinstance(i, t_seq) for i in a)):', 'return t((list_unop(op, i, type(i)) for i in a))',
                   'return t((op(i) for i in a))') and usrc.rstrip().endswith('return op(a)')
    ctx.ob('C03.core', f'{lu.fq}:one-call-per-channel', oku,
           'a unary operator over a channel list is applied once per channel, in order (no sharing of results between equal channels: one unit per combination)',
           lu.node, lu.module)
    we = repo.func('sc3.base.utils:wrap_extend')
    ctx.ob('C03.core', f'{we.module.name}:wrap_extend', full(we.node).endswith('return lst * (n // l) + lst[:n % l]'),
           'wrap_extend must repeat cyclically to length n', we.node, we.module)
    # ChannelList ctor keeps tuples/strings opaque
    cl = repo.cls('sc3.synth.ugen:ChannelList')
    init = cl.methods['__init__']
    ctx.ob('C03.core', f'{cl.module.name}:ChannelList.__init__:opaque', 'elif isinstance(obj, (str, tuple)):' in full(init.node),
           'a tuple or str given to ChannelList is one channel', init.node, cl.module)


def rule_live(ctx):
    ctx.rule('C03.core', 'the value a channel list hands to the argument normalisation of the constructors (UGenSequence._param_value) is the '
                         'list itself, not a copy taken at construction: constructors and `unit op list` expand over the same contents as '
                         '`list op unit`, the convenience methods and Out do, also after append/extend/item assignment')
    cl = ctx.repo.cls('sc3.synth.ugen:ChannelList')
    init = cl.methods.get('__init__')
    ctx.require(init is not None, 'C03.core', 'ChannelList.__init__ vanished')
    regs = [c for c in U.calls(init.node) if isinstance(c.func, ast.Attribute) and c.func.attr == '__init__'
            and ('UGenSequence' in norm(c.func.value) or 'UGenParameter' in norm(c.func.value))]
    prop = cl.properties.get('_param_value') if hasattr(cl, 'properties') else None
    by_prop = prop is not None and [norm(r.value) for r in walk_local(prop.node) if isinstance(r, ast.Return)] == ['self']
    args = [norm(a) for c in regs for a in c.args if norm(a) != 'self' or 'UGenParameter' in norm(c.func.value)]
    by_init = bool(regs) and all([norm(a) for a in c.args][-1:] == ['self'] for c in regs)
    ctx.ob('C03.core', f'{cl.fq}.__init__:parameter-value-is-the-list', by_prop or by_init,
           f'ChannelList registers {[norm(c)[:70] for c in regs]} as its parameter value: anything but the list itself (a copy, a tuple) freezes '
           f'what the constructors see at construction time', init.node, cl.module)


def run(ctx):
    rule_shadow(ctx)
    rule_live(ctx)
    # an expanded arithmetic unit re-derives its rate from its own inputs (shared clause with C01.rate): otherwise channel i of an
    # expanded MulAdd is not what the single call with element i returns
    ma = ctx.repo.try_func('sc3.synth.ugen:MulAdd._init_ugen')
    mc = ctx.repo.cls('sc3.synth.ugen:MulAdd')
    ctx.rule('C03.core', 'generic expansion core; units built by expansion derive their rate per unit')
    ctx.ob('C03.core', f'{mc.fq}:per-unit-rate', ma is not None and 'self._rate = gpp.ugen_param(self.inputs)._as_ugen_rate()' in full(ma.node),
           'MulAdd.new computes one rate over the unexpanded lists; each expanded unit must recompute it from its own inputs in _init_ugen',
           (ma.node if ma is not None else mc.node), mc.module)
    rule_sync(ctx)
    rule_out(ctx)
    rule_direct(ctx)
    rule_core(ctx)


MUTANTS = [
    dict(rule='C03.sync', name='(fix reverted) UGen.sanitize has no channel-list sibling', file='sc3/synth/ugen.py',
         old="    def sanitize(self):\n        return self._multichannel_perform('sanitize')\n\n", new=""),
    dict(rule='C03.core', name='a channel list registers a copy of itself as its parameter value (seed C03-i)', file='sc3/synth/ugen.py',
         old="        super(gpp.UGenSequence, self).__init__(self)\n", new="        super(gpp.UGenSequence, self).__init__(list(self))\n"),
    dict(rule='C03.sync', name='UGen.blend shadows the pan module (fix reverted)', file='sc3/synth/ugen.py',
         old="            pos = bi.linlin(frac, 0.0, 1.0, -1.0, 1.0)  # Not pan, the module.\n            if self.rate == 'audio':\n                return pan.XFade2.ar(self, other, pos)",
         new="            pan = bi.linlin(frac, 0.0, 1.0, -1.0, 1.0)\n            if self.rate == 'audio':\n                return pan.XFade2.ar(self, other, pan)"),
    dict(rule='C03.core', name='nested rows come back as plain lists (fix reverted)', file='sc3/base/utils.py',
         old="                    if isinstance(a[i], t_seq):\n                        t2 = type(a[i])\n                    elif isinstance(b[i], t_seq):\n                        t2 = type(b[i])\n",
         new="                    if isinstance(a[i], t_seq):\n                        t2 = list\n                    elif isinstance(b[i], t_seq):\n                        t2 = list\n"),
    dict(rule='C03.out', name='zero replacement writes into the given list (fix reverted)', file='sc3/synth/ugen.py',
         old="        res = []\n        for item in lst:\n            if isinstance(item, (int, float)) and item == 0.0:\n                res.append(silence)\n            elif isinstance(item, list):\n                res.append(cls._replace_zeroes_with_silence(item))\n            else:\n                res.append(item)\n        return res\n",
         new="        for i, item in enumerate(lst):\n            if isinstance(item, (int, float)) and item == 0.0:\n                lst[i] = silence\n            elif isinstance(item, list):\n                lst[i] = cls._replace_zeroes_with_silence(item)\n        return lst\n"),
    dict(rule='C03.sync', name='convenience methods do not recurse into nested rows (fix reverted)', file='sc3/synth/ugen.py',
         old="        l = [\n            ChannelList(i) if isinstance(i, list) else gpp.ugen_param(i)\n            for i in self]\n", new="        l = [gpp.ugen_param(i) for i in self]\n"),
    dict(rule='C03.sync', name='(fix reverted) UGen.range computes on list bounds with Python operators', file='sc3/synth/ugen.py',
         old="        lo, hi = (ChannelList(x) if isinstance(x, list) else x for x in (lo, hi))\n", new=""),
    dict(rule='C03.core', name='MulAdd._init_ugen override removed (seed C03-d)', file='sc3/synth/ugen.py',
         old="    def _init_ugen(self, input, mul, add):  # override\n        self._inputs = (input, mul, add)\n        self._rate = gpp.ugen_param(self.inputs)._as_ugen_rate()\n        return self  # Must return self.\n\n", new=""),
    dict(rule='C03.sync', name='(fix reverted) madd hands the whole mul/add lists to every channel', file='sc3/synth/ugen.py',
         old="        return type(self)(\n            MulAdd.new(*i) for i in utl.flop([self, mul, add]))", new="        return type(self)(MulAdd.new(i, mul, add) for i in self)"),
    dict(rule='C03.sync', name='(fix reverted) ChannelList += extends the list', file='sc3/synth/ugen.py',
         old="    def __iadd__(self, other):  # list.__iadd__ extends the list.\n        return self + other\n", new=""),
    dict(rule='C03.sync', name='default drift in UGen.lag', file='sc3/synth/ugen.py',
         old="    def lag(self, time=0.1):\n        selector = flr.Lag.", new="    def lag(self, time=0.2):\n        selector = flr.Lag."),
    dict(rule='C03.sync', name='selector string misspelt', file='sc3/synth/ugen.py',
         old="return self._multichannel_perform('lag2ud', utime, dtime)", new="return self._multichannel_perform('lag3ud', utime, dtime)"),
    dict(rule='C03.sync', name='forwarded args permuted', file='sc3/synth/ugen.py',
         old="return self._multichannel_perform('slew', up, down)", new="return self._multichannel_perform('slew', down, up)"),
    dict(rule='C03.sync', name='(fix reverted) fold default', file='sc3/synth/ugen.py',
         old="    def fold(self, lo=0.0, hi=1.0):\n        if self.rate == 'demand':", new="    def fold(self, lo=0.0, hi=0.0):\n        if self.rate == 'demand':"),
    dict(rule='C03.out', name='zero replacement dropped in XOut.ar', file='sc3/synth/ugens/inout.py',
         old="        output = cls._replace_zeroes_with_silence(output)\n        cls._multi_new('audio', bus, xfade, *output)",
         new="        cls._multi_new('audio', bus, xfade, *output)"),
    dict(rule='C03.out', name='_num_fixed_args off by one', file='sc3/synth/ugens/inout.py',
         old="    def _num_fixed_args(cls):\n        return 2", new="    def _num_fixed_args(cls):\n        return 1"),
    dict(rule='C03.core', name='tuples expanded too', file='sc3/synth/ugen.py',
         old="            if isinstance(item, list):\n                length = max(length, len(item))",
         new="            if isinstance(item, (list, tuple)):\n                length = max(length, len(item))"),
    dict(rule='C03.core', name='no wrap in indexing', file='sc3/synth/ugen.py',
         old="item[i % len(item)] if isinstance(item, list) else item", new="item[i] if isinstance(item, list) else item"),
    dict(rule='C03.core', name='tuple becomes list in conversion', file='sc3/synth/_graphparam.py',
         old="            self._param_value)\n        return type(self._param_value)(m)\n\n    def _as_audio_rate_input",
         new="            self._param_value)\n        return list(m)\n\n    def _as_audio_rate_input"),
    dict(rule='C03.direct', name='(fix reverted) float(loop) in PlayBuf.ar', file='sc3/synth/ugens/bufio.py',
         old="            'audio', channels, bufnum, rate,\n            trigger, start_pos, loop, done_action)",
         new="            'audio', channels, bufnum, rate,\n            trigger, start_pos, float(loop), done_action)"),
    dict(rule='C03.direct', name='new scalar coercion', file='sc3/synth/ugens/oscillators.py',
         old="return cls._multi_new('audio', freq, feedback)", new="return cls._multi_new('audio', float(freq), feedback)"),
]

REPAIRS = []

EQUIV = [
    dict(name='ChannelList registers itself through the base class by name', file='sc3/synth/ugen.py',
         old="        super(gpp.UGenSequence, self).__init__(self)\n", new="        gpp.UGenParameter.__init__(self, self)\n"),
    dict(name='Out.ar without the explicit unit-input conversion (seed C20-e after repo fix 10e8abb)', file='sc3/synth/ugens/inout.py',
         old="        output = gpp.ugen_param(utl.as_list(output))\n        output = output._as_ugen_input(cls)\n        output = cls._replace_zeroes_with_silence(output)\n        cls._multi_new('audio', bus, *output)\n        # return 0.0  # // Out has no output.",
         new="        output = utl.as_list(output)\n        output = cls._replace_zeroes_with_silence(output)\n        cls._multi_new('audio', bus, *output)\n        # return 0.0  # // Out has no output."),
]
