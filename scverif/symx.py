"""Expression normal forms: multivariate Laurent polynomials with rational
coefficients over named atoms.  Normalisation of syntax trees only."""

import ast
from fractions import Fraction

from .loader import norm


class Poly:
    """dict: monomial (sorted tuple of (atom, exp)) -> Fraction"""

    __slots__ = ('t',)

    def __init__(self, terms=None):
        self.t = {k: v for k, v in (terms or {}).items() if v != 0}

    @staticmethod
    def const(c):
        return Poly({(): Fraction(c)})

    @staticmethod
    def atom(name):
        return Poly({((name, 1),): Fraction(1)})

    def __add__(self, o):
        t = dict(self.t)
        for k, v in o.t.items():
            t[k] = t.get(k, 0) + v
        return Poly(t)

    def __neg__(self):
        return Poly({k: -v for k, v in self.t.items()})

    def __sub__(self, o):
        return self + (-o)

    def __mul__(self, o):
        t = {}
        for k1, v1 in self.t.items():
            for k2, v2 in o.t.items():
                d = dict(k1)
                for a, e in k2:
                    d[a] = d.get(a, 0) + e
                k = tuple(sorted((a, e) for a, e in d.items() if e != 0))
                t[k] = t.get(k, 0) + v1 * v2
        return Poly(t)

    def inverse(self):
        """only for single-term polynomials"""
        if len(self.t) != 1:
            raise ValueError('cannot invert a sum')
        (k, v), = self.t.items()
        return Poly({tuple(sorted((a, -e) for a, e in k)): 1 / v})

    def __eq__(self, o):
        return self.t == o.t

    def __repr__(self):
        if not self.t:
            return '0'
        parts = []
        for k, v in sorted(self.t.items()):
            m = '*'.join(a if e == 1 else f'{a}^{e}' for a, e in k)
            parts.append(f'{v}' + (f'*{m}' if m else ''))
        return ' + '.join(parts)

    def subst(self, env):
        """env: atom -> Poly"""
        out = Poly()
        for k, v in self.t.items():
            term = Poly.const(v)
            for a, e in k:
                p = env.get(a, Poly.atom(a))
                if e >= 0:
                    for _ in range(e):
                        term = term * p
                else:
                    q = p.inverse()
                    for _ in range(-e):
                        term = term * q
            out = out + term
        return out


def to_poly(node, atom_of=None, call_of=None):
    """AST expression -> Poly.  atom_of(node) may return a name for any
    sub-expression to be treated as an atom; call_of(node) may return a Poly for
    a call.  Raises ValueError for anything outside + - * / neg/consts/atoms."""
    if atom_of is not None:
        a = atom_of(node)
        if a is not None:
            return a if isinstance(a, Poly) else Poly.atom(a)
    if isinstance(node, ast.Constant) and isinstance(node.value, (int, float)) and not isinstance(node.value, bool):
        return Poly.const(Fraction(node.value).limit_denominator(10 ** 9))
    if isinstance(node, ast.Name):
        return Poly.atom(node.id)
    if isinstance(node, ast.UnaryOp):
        if isinstance(node.op, ast.USub):
            return -to_poly(node.operand, atom_of, call_of)
        if isinstance(node.op, ast.UAdd):
            return to_poly(node.operand, atom_of, call_of)
    if isinstance(node, ast.BinOp):
        l = to_poly(node.left, atom_of, call_of)
        r = to_poly(node.right, atom_of, call_of)
        if isinstance(node.op, ast.Add):
            return l + r
        if isinstance(node.op, ast.Sub):
            return l - r
        if isinstance(node.op, ast.Mult):
            return l * r
        if isinstance(node.op, ast.Div):
            return l * r.inverse()
    if isinstance(node, ast.Call) and call_of is not None:
        p = call_of(node)
        if p is not None:
            return p
    if isinstance(node, (ast.Attribute, ast.Subscript)):
        return Poly.atom(norm(node))
    raise ValueError(f'not a ring expression: {norm(node)}')


def flat_commutative(node):
    """Normalised text with operands of + and * sorted (for structural compare)."""
    def rec(n):
        if isinstance(n, ast.BinOp) and isinstance(n.op, (ast.Add, ast.Mult)):
            op = type(n.op)
            items = []

            def collect(x):
                if isinstance(x, ast.BinOp) and isinstance(x.op, op):
                    collect(x.left)
                    collect(x.right)
                else:
                    items.append(rec(x))
            collect(n)
            sym = '+' if op is ast.Add else '*'
            return '(' + sym.join(sorted(items)) + ')'
        if isinstance(n, ast.BinOp):
            return f'({rec(n.left)}{type(n.op).__name__}{rec(n.right)})'
        if isinstance(n, ast.UnaryOp):
            return f'{type(n.op).__name__}({rec(n.operand)})'
        if isinstance(n, ast.Call):
            return f'{rec(n.func)}({",".join(rec(a) for a in n.args)}' + \
                   ''.join(f',{k.arg}={rec(k.value)}' for k in n.keywords) + ')'
        if isinstance(n, (ast.List, ast.Tuple)):
            return '[' + ','.join(rec(e) for e in n.elts) + ']'
        if isinstance(n, ast.Constant) and isinstance(n.value, (int, float)) and not isinstance(n.value, bool):
            return repr(float(n.value))
        return norm(n)
    return rec(node)
