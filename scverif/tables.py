"""Format grammars: summarise a function that only writes/reads through the
`frw.write_* / frw.read_*` helpers as a regular expression over tokens."""

import ast

from .loader import norm, dump_name, AnalysisError
from . import util as U

EMPTY = ('seq', ())
NEVER = ('never',)

WRITE_TOK = {'write_pascal_str': 'pstr', 'write_i8': 'i8', 'write_i16': 'i16', 'write_i32': 'i32', 'write_f32': 'f32'}
READ_TOK = {'read_pascal_str': 'pstr', 'read_i8': 'i8', 'read_i16': 'i16', 'read_i32': 'i32'}
READ_LIST = {'read_i8_list': 'i8', 'read_i32_list': 'i32', 'read_f32_list': 'f32'}


def seq(items):
    flat = []
    for it in items:
        if it is None:
            continue
        if it == NEVER:
            return NEVER
        if it[0] == 'seq':
            flat.extend(it[1])
        else:
            flat.append(it)
    return ('seq', tuple(flat))


class GrammarExtractor:
    """resolve(call, func) -> list of FuncInfo to inline ([] = ignore, None = unknown)"""

    def __init__(self, repo, resolve, stream_names=('file', 'stream')):
        self.repo = repo
        self.resolve = resolve
        self.stream_names = stream_names
        self.stack = []
        self.counted = []     # (count token node/expr text, star over text, func fq, For/None node)
        self.early_exits = []  # (func, loop node, stmt)

    def of_func(self, fi):
        if fi.fq in self.stack:
            return ('rec', fi.fq)
        if _raises_only(fi.node.body):
            return NEVER
        self.stack.append(fi.fq)
        try:
            return self.block(fi.node.body, fi)
        finally:
            self.stack.pop()

    def block(self, stmts, fi):
        return seq([self.stmt(s, fi) for s in stmts])

    def expr_calls(self, node, fi):
        """grammar contributed by calls inside an expression, in evaluation order (approx: source order)."""
        out = []
        for c in U.calls(node):
            g = self.call(c, fi)
            if g is not None:
                out.append(g)
        return seq(out)

    def call(self, c, fi):
        name = U.method_name(c)
        recv = dump_name(c.func.value) if isinstance(c.func, ast.Attribute) else None
        if recv == 'frw' or (recv and recv.endswith('.frw')):
            if name in WRITE_TOK:
                return ('tok', WRITE_TOK[name], norm(c.args[1]) if len(c.args) > 1 else '')
            if name in READ_TOK:
                return ('tok', READ_TOK[name], '')
            if name in READ_LIST:
                n = c.args[1] if len(c.args) > 1 else None
                tok = ('tok', READ_LIST[name], '')
                if isinstance(n, ast.BinOp) and isinstance(n.op, ast.Mult) and U.is_num(n.right):
                    k = int(U.num_value(n.right))
                    return ('star', norm(n.left), seq([tok] * k))
                return ('star', norm(n) if n is not None else '?', seq([tok]))
            raise AnalysisError('grammar', f'unknown frw helper {name} in {fi.fq}')
        if recv in self.stream_names and name == 'write':
            v = U.literal(c.args[0]) if c.args else None
            if isinstance(v, bytes):
                return ('raw', len(v), v.decode('latin1'))
            raise AnalysisError('grammar', f'raw write of non-literal in {fi.fq}: {norm(c)}')
        if recv in self.stream_names and name == 'read':
            v = U.literal(c.args[0]) if c.args else None
            if isinstance(v, int):
                return ('raw', v, '')
            raise AnalysisError('grammar', f'raw read of non-literal length in {fi.fq}: {norm(c)}')
        targets = self.resolve(c, fi)
        if not targets:
            return None
        alts = [self.of_func(t) for t in targets]
        return alt(alts)

    def stmt(self, s, fi):
        if isinstance(s, (ast.Expr, ast.Assign, ast.AugAssign, ast.AnnAssign, ast.Return)):
            if isinstance(s, ast.Expr) and isinstance(s.value, ast.Constant):
                return None
            v = s.value
            if v is None:
                return None
            return self.expr_calls(v, fi)
        if isinstance(s, ast.If):
            t = self.expr_calls(s.test, fi)
            a = self.block(s.body, fi)
            b = self.block(s.orelse, fi)
            if _raises_only(s.body):
                return seq([t, b])
            if _raises_only(s.orelse):
                return seq([t, a])
            return seq([t, alt([a, b])])
        if isinstance(s, (ast.For, ast.While)):
            body = self.block(s.body, fi)
            if body == EMPTY:
                return None
            if isinstance(s, ast.For):
                over = s.iter
                if isinstance(over, ast.Call) and U.method_name(over) == 'range' and len(over.args) == 1:
                    over = over.args[0]
                return ('star', norm(over), body)
            return ('star', norm(s.test), body)
        if isinstance(s, ast.Try):
            g = [self.block(s.body, fi), self.block(s.orelse, fi)]
            for h in s.handlers:
                hb = self.block(h.body, fi)
                if hb != EMPTY:
                    raise AnalysisError('grammar', f'handler writes/reads the stream in {fi.fq}')
            g.append(self.block(s.finalbody, fi))
            return seq(g)
        if isinstance(s, ast.With):
            return self.block(s.body, fi)
        if isinstance(s, (ast.Raise, ast.Pass, ast.Break, ast.Continue, ast.FunctionDef, ast.Import, ast.ImportFrom,
                          ast.Global, ast.Nonlocal, ast.Delete, ast.Assert, ast.ClassDef)):
            return None
        raise AnalysisError('grammar', f'unsupported statement {type(s).__name__} in {fi.fq}')


def _raises_only(stmts):
    stmts = [s for s in stmts if not (isinstance(s, ast.Expr) and isinstance(s.value, ast.Constant))]
    return len(stmts) >= 1 and isinstance(stmts[-1], ast.Raise) and all(isinstance(s, (ast.Raise, ast.Expr)) for s in stmts)


def alt(alts):
    uniq = []
    for a in alts:
        if a == NEVER:
            continue
        if a not in uniq:
            uniq.append(a)
    if not uniq:
        return NEVER
    if len(uniq) == 1:
        return uniq[0]
    return ('alt', tuple(uniq))


def canon(g):
    """Canonical *shape*: drops value/over labels; folds alternations of
    sublanguages of X* into X*; removes recursion markers under a star."""
    k = g[0]
    if k == 'tok':
        return ('tok', g[1])
    if k == 'raw':
        return ('raw', g[1])
    if k == 'rec':
        return ('rec',)
    if k == 'never':
        return g
    if k == 'seq':
        items = [canon(x) for x in g[1]]
        flat = []
        for it in items:
            if it[0] == 'seq':
                flat.extend(it[1])
            else:
                flat.append(it)
        if len(flat) == 1:
            return flat[0]
        return ('seq', tuple(flat))
    if k == 'star':
        b = canon(g[-1])
        b = _strip_rec(b)
        if b[0] == 'star':
            return b
        return ('star', b)
    if k == 'alt':
        brs = []
        for a in g[1]:
            c = canon(a)
            if c not in brs:
                brs.append(c)
        # fold: all branches in {empty, X, star(X), star(rec)}
        base = None
        ok = any(b[0] == 'star' for b in brs)
        for b in brs:
            if b == ('seq', ()):
                continue
            core = b[1] if b[0] == 'star' else b
            core = _strip_rec(core)
            if core == ('rec',) or core == ('seq', ()):
                continue
            if base is None:
                base = core
            elif base != core:
                ok = False
        if ok and base is not None and len(brs) > 1:
            return ('star', base)
        if len(brs) == 1:
            return brs[0]
        return ('alt', tuple(brs))
    raise AssertionError(g)


def _strip_rec(b):
    if b[0] == 'alt':
        rest = tuple(x for x in b[1] if x != ('rec',) and not (x[0] == 'star' and x[1] == ('rec',)))
        if len(rest) == 1:
            return rest[0]
        return ('alt', rest)
    if b[0] == 'star' and b[1][0] == 'star':
        return b[1]
    return b


def show(g):
    k = g[0]
    if k == 'tok':
        return g[1]
    if k == 'raw':
        return f'raw{g[1]}'
    if k == 'rec':
        return '<rec>'
    if k == 'seq':
        return ' '.join(show(x) for x in g[1]) if g[1] else 'ε'
    if k == 'star':
        return '(' + show(g[-1]) + ')*'
    if k == 'alt':
        return '[' + ' | '.join(show(x) for x in g[1]) + ']'
    return str(g)


def parse_ref(text):
    """tiny parser for reference grammars: tokens, ( ... )* , [ a | b ]"""
    toks = text.replace('(', ' ( ').replace(')*', ' )* ').replace('[', ' [ ').replace(']', ' ] ').replace('|', ' | ').split()
    pos = 0

    def parse_seq(stop):
        nonlocal pos
        items = []
        while pos < len(toks) and toks[pos] not in stop:
            t = toks[pos]
            if t == '(':
                pos += 1
                inner = parse_seq({')*'})
                pos += 1
                items.append(('star', inner))
            elif t == '[':
                pos += 1
                alts = []
                while True:
                    alts.append(parse_seq({'|', ']'}))
                    if toks[pos] == ']':
                        pos += 1
                        break
                    pos += 1
                items.append(('alt', tuple(alts)))
            elif t.startswith('raw'):
                items.append(('raw', int(t[3:])))
                pos += 1
            elif t == 'ε':
                pos += 1
            else:
                items.append(('tok', t))
                pos += 1
        if len(items) == 1:
            return items[0]
        return ('seq', tuple(items))
    return parse_seq(set())
