"""Small AST helpers shared by rules."""

import ast

from .loader import dump_name, norm, walk_local, walk_local_ordered


def literal(node):
    try:
        return ast.literal_eval(node)
    except Exception:
        return None


def is_str(node, value=None):
    return isinstance(node, ast.Constant) and isinstance(node.value, str) and (value is None or node.value == value)


def is_num(node, value=None):
    if isinstance(node, ast.UnaryOp) and isinstance(node.op, ast.USub) and isinstance(node.operand, ast.Constant):
        v = node.operand.value
        if isinstance(v, (int, float)) and not isinstance(v, bool):
            return value is None or -v == value
        return False
    return isinstance(node, ast.Constant) and isinstance(node.value, (int, float)) and \
        not isinstance(node.value, bool) and (value is None or node.value == value)


def num_value(node):
    if isinstance(node, ast.UnaryOp) and isinstance(node.op, ast.USub) and isinstance(node.operand, ast.Constant):
        return -node.operand.value
    if isinstance(node, ast.Constant):
        return node.value
    return None


def call_name(call):
    """dotted name of call.func or None"""
    if not isinstance(call, ast.Call):
        return None
    return dump_name(call.func)


def method_name(call):
    """attribute name if call is X.attr(...) else function name"""
    if not isinstance(call, ast.Call):
        return None
    if isinstance(call.func, ast.Attribute):
        return call.func.attr
    if isinstance(call.func, ast.Name):
        return call.func.id
    return None


def calls(node, name=None, local=True):
    """Call nodes inside node whose method/function name is `name` (or all)."""
    out = []
    it = walk_local_ordered(node) if local else ast.walk(node)
    if local and isinstance(node, ast.Call):
        it = [node] + list(it)
    for n in it:
        if isinstance(n, ast.Call) and (name is None or method_name(n) == name or
                                         (isinstance(name, (set, tuple, list, frozenset)) and method_name(n) in name)):
            out.append(n)
    return out


def names_in(node):
    return [n.id for n in ast.walk(node) if isinstance(n, ast.Name)]


def body_nodoc(fnode):
    b = list(fnode.body)
    if b and isinstance(b[0], ast.Expr) and isinstance(b[0].value, ast.Constant) and isinstance(b[0].value.value, str):
        b = b[1:]
    return b


def attr_chain(node):
    """['self', '_a', 'b'] for self._a.b ; None otherwise"""
    parts = []
    while isinstance(node, ast.Attribute):
        parts.append(node.attr)
        node = node.value
    if isinstance(node, ast.Name):
        parts.append(node.id)
        return list(reversed(parts))
    return None


def is_self_attr(node, attr=None, selfnames=('self', 'cls')):
    return isinstance(node, ast.Attribute) and isinstance(node.value, ast.Name) and \
        node.value.id in selfnames and (attr is None or node.attr == attr)


def assigned_targets(stmt):
    """flat list of target nodes of an assignment-like statement"""
    out = []
    if isinstance(stmt, ast.Assign):
        for t in stmt.targets:
            out.extend(_flat_target(t))
    elif isinstance(stmt, (ast.AugAssign, ast.AnnAssign)):
        out.extend(_flat_target(stmt.target))
    elif isinstance(stmt, ast.Delete):
        for t in stmt.targets:
            out.extend(_flat_target(t))
    return out


def _flat_target(t):
    if isinstance(t, (ast.Tuple, ast.List)):
        out = []
        for e in t.elts:
            out.extend(_flat_target(e))
        return out
    if isinstance(t, ast.Starred):
        return _flat_target(t.value)
    return [t]


def stmts_of(fnode):
    """all statements in a function (not nested defs) in source order"""
    return [n for n in walk_local_ordered(fnode) if isinstance(n, ast.stmt)]


def parent_chain(node):
    n = getattr(node, '_parent', None)
    while n is not None:
        yield n
        n = getattr(n, '_parent', None)


def enclosing_stmt(node):
    n = node
    while n is not None and not isinstance(n, ast.stmt):
        n = getattr(n, '_parent', None)
    return n


def in_body(node, container, field):
    """is `node` (a descendant) inside container.<field> list?"""
    lst = getattr(container, field, [])
    cur = node
    while cur is not None and getattr(cur, '_parent', None) is not container:
        cur = getattr(cur, '_parent', None)
    if cur is None:
        return False
    return any(cur is s for s in lst) if isinstance(lst, list) else cur is lst


def conjuncts(test):
    """split `a and b and c` into [a, b, c]"""
    if isinstance(test, ast.BoolOp) and isinstance(test.op, ast.And):
        out = []
        for v in test.values:
            out.extend(conjuncts(v))
        return out
    return [test]


def disjuncts(test):
    if isinstance(test, ast.BoolOp) and isinstance(test.op, ast.Or):
        out = []
        for v in test.values:
            out.extend(disjuncts(v))
        return out
    return [test]


def compare_parts(node):
    """(left, op-class, right) for single comparisons else None"""
    if isinstance(node, ast.Compare) and len(node.ops) == 1:
        return node.left, type(node.ops[0]), node.comparators[0]
    return None


def before(src, *parts):
    """all parts occur in src in this order (first occurrences); False if any is missing"""
    pos = -1
    for p in parts:
        i = src.find(p)
        if i < 0 or i < pos:
            return False
        pos = i
    return True


def self_closure(repo, ci, f, depth=4):
    """Functions reachable from f through self.<name> loads/calls resolved along ci's MRO (methods and property getters)."""
    from .loader import walk_local
    seen = {}

    def rec(fi, d):
        if fi.fq in seen or d > depth:
            return
        seen[fi.fq] = fi
        for n in walk_local(fi.node):
            if isinstance(n, ast.Attribute) and is_self_attr(n) and isinstance(n.ctx, ast.Load):
                m = repo.resolve_method(ci, n.attr)
                if m is not None:
                    rec(m, d + 1)
    rec(f, 0)
    return seen
